package drv

import (
	"bytes"
	"runtime"
	"strconv"
)

// goid returns the current goroutine's id (parsed from the stack header; test-only use).
func goid() int64 {
	var buf [64]byte
	n := runtime.Stack(buf[:], false)
	b := bytes.TrimPrefix(buf[:n], []byte("goroutine "))
	i := bytes.IndexByte(b, ' ')
	if i < 0 {
		return -1
	}
	id, _ := strconv.ParseInt(string(b[:i]), 10, 64)
	return id
}
