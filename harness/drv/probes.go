package drv

import (
	"fmt"
	"runtime"
	"strings"
	"sync/atomic"
	"time"

	"verif/harness/vdisk"
)

// P is a directed scenario against a fresh server; every call goes to the trace.
type P struct {
	S    *Srv
	T    *Trace
	i    int
	Root string
	tag  int
	Unst bool
}

func (p *P) do(c *Call) *Call {
	c.I = p.i
	p.i++
	c.NLen, c.NLen2 = len(c.Name), len(c.Name2)
	c = p.S.Do(c)
	p.T.Emit(c)
	return c
}

func (p *P) Call(proc, fh string) *Call { c := NewCall(proc); c.Fh = fh; return c }

func (p *P) Limits() {
	p.do(p.Call("FSINFO", p.Root))
	p.do(p.Call("PATHCONF", p.Root))
}

func (p *P) Create(d, name string) *Call { c := p.Call("CREATE", d); c.Name = name; return p.do(c) }
func (p *P) Mkdir(d, name string) *Call  { c := p.Call("MKDIR", d); c.Name = name; return p.do(c) }
func (p *P) Symlink(d, name, target string) *Call {
	c := p.Call("SYMLINK", d)
	c.Name, c.Target, c.TLen = name, target, len(target)
	return p.do(c)
}
func (p *P) Remove(d, name string) *Call { c := p.Call("REMOVE", d); c.Name = name; return p.do(c) }
func (p *P) Rmdir(d, name string) *Call  { c := p.Call("RMDIR", d); c.Name = name; return p.do(c) }
func (p *P) Lookup(d, name string) *Call { c := p.Call("LOOKUP", d); c.Name = name; return p.do(c) }
func (p *P) Getattr(fh string) *Call     { return p.do(p.Call("GETATTR", fh)) }
func (p *P) Rename(d, n, d2, n2 string) *Call {
	c := p.Call("RENAME", d)
	c.Name, c.Fh2, c.Name2 = n, d2, n2
	return p.do(c)
}
func (p *P) Write(fh string, off, n, stable int) *Call {
	c := p.Call("WRITE", fh)
	p.tag++
	c.Off, c.Cnt, c.DLen, c.Stable = off, n, n, stable
	if n > 0 {
		c.Data = []Run{{n, 1 + p.tag%250}}
	}
	return p.do(c)
}
func (p *P) Read(fh string, off, n int) *Call {
	c := p.Call("READ", fh)
	c.Off, c.Cnt = off, n
	return p.do(c)
}
func (p *P) Trunc(fh string, size int) *Call {
	c := p.Call("SETATTR", fh)
	c.SetSize, c.Size = true, size
	return p.do(c)
}
func (p *P) Commit(fh string) *Call { return p.do(p.Call("COMMIT", fh)) }
func (p *P) Readdir(fh string, cookie, count int) *Call {
	c := p.Call("READDIR", fh)
	c.Cookie, c.Cnt = cookie, count
	return p.do(c)
}
func (p *P) ReaddirPlus(fh string, cookie, dircount, maxcount int) *Call {
	c := p.Call("READDIRPLUS", fh)
	c.Cookie, c.DirCount, c.MaxCount = cookie, dircount, maxcount
	return p.do(c)
}

// Enumerate reads directory fh page by page with the given budget.
func (p *P) Enumerate(fh string, plus bool, budget int, maxPages int) {
	cookie := 0
	for i := 0; i < maxPages; i++ {
		var c *Call
		if plus {
			c = p.ReaddirPlus(fh, cookie, budget, budget*4)
		} else {
			c = p.Readdir(fh, cookie, budget)
		}
		if c.St != "OK" || c.REof || len(c.Ents) == 0 {
			return
		}
		cookie = c.Ents[len(c.Ents)-1].Cookie
	}
}

// Bulk creates n new files prefix0..prefix(n-1) in directory d with one trace event for all of them (event "bulk":
// the reference adds n empty regular files). Every CREATE must be acknowledged NFS3_OK with a handle.
func (p *P) Bulk(d, prefix string, n int) []string {
	m := map[string]int{}
	fhs := make([]string, 0, n)
	ids := make([]int, 0, n)
	for i := 0; i < n; i++ {
		c := NewCall("CREATE")
		c.Fh, c.Name = d, fmt.Sprintf("%s%d", prefix, i)
		c.NLen = len(c.Name)
		c.ExecRaw(p.S.API)
		if c.St != "OK" || !c.HasFh {
			panic(fmt.Sprintf("bulk CREATE %s: %s %d", c.Name, c.St, c.Code))
		}
		m[c.Name] = i + 1
		fhs = append(fhs, c.RFh)
		ids = append(ids, c.RId)
	}
	p.T.Emit(map[string]interface{}{"ev": "bulk", "fh": d, "map": m, "fhs": fhs, "ids": ids})
	return fhs
}

// Idle waits for the background shrinker threads; one that is still running 20 s after the last request never ends.
func (p *P) Idle() bool {
	for i := 0; i < 5; i++ {
		if p.S.WaitIdle() {
			return true
		}
	}
	p.T.Emit(map[string]interface{}{"ev": "fatal", "what": "a background shrinker thread is still running 20 s after the last request"})
	p.S.Wedged = true
	return false
}

// CreateSized is CREATE with an initial size among the attributes of the new file.
func (p *P) CreateSized(d, name string, size uint64) *Call {
	c := p.Call("CREATE", d)
	c.Name, c.SetSize = name, true
	if size > 1500000000 {
		c.Size, c.SizeSat, c.RawSize = HUGE, true, size
	} else {
		c.Size = int(size)
	}
	return p.do(c)
}

func (p *P) Dump() {
	// a READ of a hole maps a block: on a nearly full disk the dump's own reads may come back short (see srv.go)
	DumpTolerantShort = func() bool { fb, _ := p.S.Free(); return fb < 64 }
	p.T.Emit(DumpAPI(p.S.API, "run"))
	DumpTolerantShort = nil
}

func (p *P) Restart() bool {
	p.S.WaitIdle()
	p.S.Shutdown()
	s, err := Start(p.S.D, p.Unst)
	if err != nil {
		p.T.Emit(map[string]interface{}{"ev": "fatal", "what": err.Error()})
		return false
	}
	s.Sequential = true
	s.wtmax, s.maxfs = p.S.wtmax, p.S.maxfs
	p.S = s
	DumpTolerantShort = func() bool { fb, _ := s.Free(); return fb < 64 }
	p.T.Emit(Restart{Ev: "restart", Kind: "clean", Dump: DumpAPI(s.API, "restarted")})
	DumpTolerantShort = nil
	return true
}

// Tail issues a few ordinary operations: the server must keep serving correctly.
func (p *P) Tail() {
	if p.S.Wedged {
		return
	}
	c := p.Create(p.Root, "tail-file")
	if c.St == "OK" && c.HasFh {
		p.Write(c.RFh, 0, 5000, 2)
		p.Read(c.RFh, 0, 8192)
	}
	p.Lookup(p.Root, "tail-file")
	p.Remove(p.Root, "tail-file")
	p.Dump()
	if !p.S.Wedged {
		p.S.WaitIdle()
		p.T.Emit(TakeSnap(p.S, "run", true))
	}
}

type Probe struct {
	Name  string
	Props []string
	Disk  uint64
	Run   func(p *P)
}

func seqInts(a, b int) []int {
	var l []int
	for i := a; i <= b; i++ {
		l = append(l, i)
	}
	return l
}

func raw(c *Call, b []byte) *Call { c.RawFh = b; c.Fh = Hex(b); return c }

// Probes are directed scenarios, one per defect found on the original tree (see
// known_findings.json, "fixed" and "findings") and per corner the random
// generator reaches rarely.
var Probes = []Probe{
	{"remove-dot", []string{"C11"}, 0, func(p *P) {
		p.Mkdir(p.Root, "d")
		p.Remove(p.Root, ".")
		p.Rmdir(p.Root, "..")
		p.Remove(p.Root, "..")
		p.Rmdir(p.Root, ".")
		p.Tail()
	}},
	{"malformed-handles", []string{"C11"}, 0, func(p *P) {
		for _, n := range []int{0, 1, 3, 8, 15, 17, 32, 64} {
			for _, proc := range []string{"GETATTR", "READ", "LOOKUP", "READDIR", "WRITE", "ACCESS", "FSINFO", "COMMIT", "SETATTR"} {
				c := raw(NewCall(proc), make([]byte, n))
				c.Name, c.Cnt = "a", 0
				if p.do(c).St == "PANIC" {
					return
				}
			}
			c := raw(NewCall("RENAME"), make([]byte, n))
			c.RawFh2, c.Fh2, c.Name, c.Name2 = make([]byte, n), Hex(make([]byte, n)), "a", "b"
			if p.do(c).St == "PANIC" {
				return
			}
		}
		p.Tail()
	}},
	{"handle-inum-out-of-range", []string{"C11"}, 0, func(p *P) {
		for _, ino := range []uint64{0, 32768, 32769, 40000, 1 << 20, 1 << 40, 1<<64 - 1} {
			b := make([]byte, 16)
			for i := 0; i < 8; i++ {
				b[i] = byte(ino >> (8 * uint(i)))
			}
			b[8] = 1
			for _, proc := range []string{"GETATTR", "READ", "LOOKUP", "READDIRPLUS", "CREATE"} {
				c := raw(NewCall(proc), b)
				c.Name, c.Cnt = "a", 10
				if p.do(c).St == "PANIC" {
					return
				}
			}
		}
		p.Tail()
	}},
	{"write-count-mismatch", []string{"C11"}, 0, func(p *P) {
		f := p.Create(p.Root, "f").RFh
		for _, d := range [][2]int{{100, 101}, {100, 99}, {0, 1}, {4096, 8192}, {10, 100000}, {5000, 0}} {
			c := p.Call("WRITE", f)
			c.Data, c.DLen, c.Cnt, c.Stable = []Run{{d[0], 7}}, d[0], d[1], 2
			if d[0] == 0 {
				c.Data = []Run{}
			}
			if p.do(c).St == "PANIC" {
				return
			}
		}
		p.Read(f, 0, 10000)
		p.Tail()
	}},
	{"write-offset-overflow", []string{"C11", "C19"}, 0, func(p *P) {
		f := p.Create(p.Root, "f").RFh
		for _, off := range []uint64{1<<64 - 1, 1<<64 - 10, 1<<64 - 4096, 1 << 63, 1 << 40} {
			c := p.Call("WRITE", f)
			c.Off, c.OffSat, c.RawOff = HUGE, true, off
			c.Data, c.DLen, c.Cnt, c.Stable = []Run{{20, 7}}, 20, 20, 2
			if p.do(c).St == "PANIC" {
				return
			}
			r := p.Call("READ", f)
			r.Off, r.OffSat, r.RawOff, r.Cnt = HUGE, true, off, 100
			p.do(r)
		}
		p.Getattr(f)
		p.Tail()
	}},
	{"setattr-size-on-directory", []string{"C02", "C04", "C10"}, 0, func(p *P) {
		d := p.Mkdir(p.Root, "d").RFh
		p.Create(d, "x")
		l := p.Symlink(p.Root, "l", "/target").RFh
		p.Trunc(d, 0)
		p.Trunc(p.Root, 32769)
		p.Trunc(l, 2)
		p.Lookup(d, "x")
		p.do(p.Call("READLINK", l))
		p.Enumerate(p.Root, true, 4096, 10)
		p.Tail()
		p.Restart()
	}},
	{"setattr-beyond-maxfilesize", []string{"C19", "C02"}, 0, func(p *P) {
		f := p.Create(p.Root, "f").RFh
		p.Write(f, 0, 100, 2)
		for _, sz := range []int{1073774592 + 1, 1073774592 + 4096, 1500000000} {
			p.Trunc(f, sz)
		}
		c := p.Call("SETATTR", f)
		c.SetSize, c.Size, c.SizeSat, c.RawSize = true, HUGE, true, 1<<64-1
		p.do(c)
		p.Getattr(f)
		p.Read(f, 0, 200)
		p.Trunc(f, 1073774592)
		p.Getattr(f)
		p.Read(f, 1073774592-10, 100)
		p.Tail()
	}},
	{"name-length-limits", []string{"C19", "C02"}, 0, func(p *P) {
		for _, n := range []int{1, 110, 111, 112, 113, 114, 255, 256, 1000} {
			nm := strings.Repeat("k", n)
			c := p.Create(p.Root, nm)
			p.Lookup(p.Root, nm)
			if c.St == "OK" {
				p.Rename(p.Root, nm, p.Root, strings.Repeat("r", n))
				p.Remove(p.Root, strings.Repeat("r", n))
			}
			p.Mkdir(p.Root, nm)
			p.Rmdir(p.Root, nm)
			p.Symlink(p.Root, nm, "/t")
			p.Remove(p.Root, nm)
		}
		p.Tail()
	}},
	{"rename-to-too-long-name", []string{"C09", "C02"}, 0, func(p *P) {
		f := p.Create(p.Root, "src").RFh
		p.Write(f, 0, 100, 2)
		d := p.Mkdir(p.Root, "d").RFh
		p.Rename(p.Root, "src", p.Root, strings.Repeat("z", 113))
		p.Lookup(p.Root, "src")
		p.Rename(p.Root, "src", d, strings.Repeat("z", 300))
		p.Lookup(p.Root, "src")
		p.Read(f, 0, 200)
		p.Enumerate(p.Root, false, 4096, 10)
		p.Dump()
		p.Restart()
		p.Lookup(p.Root, "src")
		p.Tail()
	}},
	{"rmdir-gives-back-parent-link", []string{"C05", "C08"}, 0, func(p *P) {
		d := p.Mkdir(p.Root, "d").RFh
		p.Mkdir(d, "s1")
		p.Mkdir(d, "s2")
		p.Rmdir(d, "s1")
		p.Rmdir(d, "s2")
		p.Rmdir(p.Root, "d")
		p.Getattr(d)
		p.Lookup(d, ".")
		p.Readdir(d, 0, 4096)
		// rename over an empty directory
		e := p.Mkdir(p.Root, "e").RFh
		p.Mkdir(e, "t1")
		p.Mkdir(e, "t2")
		p.Rename(e, "t1", e, "t2")
		p.Rmdir(e, "t2")
		p.Rmdir(p.Root, "e")
		p.Getattr(e)
		p.Tail()
	}},
	{"remove-on-nonempty-directory", []string{"C02", "C04", "C05"}, 0, func(p *P) {
		d := p.Mkdir(p.Root, "d").RFh
		f := p.Create(d, "child").RFh
		p.Write(f, 0, 10000, 2)
		p.Remove(p.Root, "d")
		p.Lookup(p.Root, "d")
		p.Lookup(d, "child")
		p.Read(f, 0, 100)
		p.Tail()
	}},
	{"readdir-one-entry-pages", []string{"C13"}, 0, func(p *P) {
		d := p.Mkdir(p.Root, "d").RFh
		for _, n := range []string{"a", "b", "c", "dd", "eee"} {
			p.Create(d, n)
		}
		p.Remove(d, "b")
		for _, b := range []int{0, 1, 60, 90, 100, 120, 150, 200, 260} {
			p.Enumerate(d, false, b, 12)
		}
		for _, b := range []int{0, 1, 8, 9, 10, 20, 40, 100, 300} {
			p.Enumerate(d, true, b, 12)
		}
		p.Enumerate(p.Root, false, 100, 12)
		p.Tail()
	}},
	{"rename-duplicate-inodes", []string{"C06", "C11"}, 0, func(p *P) {
		d := p.Mkdir(p.Root, "d").RFh
		p.Create(d, "x")
		p.Mkdir(d, "sub")
		p.Create(p.Root, "f")
		p.Rename(p.Root, "f", d, "x") // 4 distinct
		p.Create(p.Root, "f")
		p.Rename(d, "x", p.Root, "d")   // target is the source's own parent
		p.Rename(d, "sub", p.Root, "d") // directory onto its own (non-empty) parent
		p.Rename(p.Root, "f", p.Root, "f")
		p.Tail()
	}},
	{"rename-illegal-target-names", []string{"C06", "C02", "C04"}, 0, func(p *P) {
		d := p.Mkdir(p.Root, "d").RFh
		p.Create(d, "x")
		p.Mkdir(d, "sub")
		for _, t := range []string{".", "..", ""} {
			p.Rename(d, "x", d, t)
			p.Rename(d, "sub", d, t)
			p.Rename(d, "sub", p.Root, t)
		}
		p.Lookup(d, ".")
		p.Lookup(d, "..")
		p.Enumerate(d, true, 4096, 5)
		p.Tail()
	}},
	{"empty-names", []string{"C02", "C04"}, 0, func(p *P) {
		p.Create(p.Root, "")
		p.Mkdir(p.Root, "")
		p.Symlink(p.Root, "", "/t")
		p.Lookup(p.Root, "")
		p.Remove(p.Root, "")
		p.Enumerate(p.Root, false, 4096, 5)
		p.Tail()
	}},
	{"rename-stale-directory-handles", []string{"C08"}, 0, func(p *P) {
		a := p.Mkdir(p.Root, "a").RFh
		b := p.Mkdir(p.Root, "b").RFh
		p.Create(b, "f")
		p.Rmdir(p.Root, "a")
		p.Restart()                     // the allocator starts again at the lowest free number
		a2 := p.Mkdir(p.Root, "a2").RFh // reuses a's inode number
		p.Rename(b, "f", a, "g")        // stale target directory
		p.Lookup(a2, "g")
		p.Create(a2, "h")
		p.Rename(a, "h", b, "h") // stale source directory
		p.Lookup(a2, "h")
		p.Rename(a, "h", a, "h2")  // same stale handle twice
		p.Rename(a2, "h", a, "h3") // live source directory, stale target directory of the same inode number
		p.Rename(a, "h", a2, "h4") // the other way round
		p.Lookup(a2, "h")
		p.Tail()
	}},
	{"stale-handles-in-every-procedure", []string{"C08"}, 0, func(p *P) {
		d := p.Mkdir(p.Root, "d").RFh
		f := p.Create(p.Root, "f").RFh
		l := p.Symlink(p.Root, "l", "/x").RFh
		p.Write(f, 0, 100, 2)
		p.Rmdir(p.Root, "d")
		p.Remove(p.Root, "f")
		p.Remove(p.Root, "l")
		use := func() {
			for _, h := range []string{d, f, l} {
				for _, proc := range []string{"GETATTR", "SETATTR", "LOOKUP", "ACCESS", "READLINK", "READ", "WRITE", "CREATE", "MKDIR",
					"SYMLINK", "REMOVE", "RMDIR", "READDIR", "READDIRPLUS", "FSINFO", "PATHCONF", "COMMIT"} {
					c := p.Call(proc, h)
					c.Name, c.Cnt, c.DLen, c.Data, c.Target, c.TLen = "n", 3, 3, []Run{{3, 9}}, "/t", 2
					c.DirCount, c.MaxCount = 1000, 4000
					if proc == "READ" || proc == "READDIR" {
						c.Data, c.DLen = []Run{}, 0
						c.Cnt = 1000
					}
					p.do(c)
				}
				p.Rename(h, "n", p.Root, "m")
				p.Rename(p.Root, "tail-file", h, "m")
			}
		}
		use()
		// reuse the inode numbers (after a restart the allocator starts at the lowest free number) and try again
		p.Restart()
		p.Mkdir(p.Root, "d2")
		p.Create(p.Root, "f2")
		p.Symlink(p.Root, "l2", "/y")
		use()
		p.Restart()
		use()
		p.Tail()
	}},
	{"write-verifier", []string{"C07"}, 0, func(p *P) {
		f := p.Create(p.Root, "f").RFh
		p.Write(f, 0, 100, 0)
		p.Commit(f)
		p.Write(f, 100, 100, 2)
		for i := 0; i < 3; i++ {
			if !p.Restart() {
				return
			}
			p.Write(f, 0, 10, 0)
			p.Commit(f)
		}
		p.Tail()
	}},
	{"write-size-limits", []string{"C19"}, 30000, func(p *P) {
		f := p.Create(p.Root, "f").RFh
		wt := p.S.wtmax
		for _, n := range []int{wt - 4096, wt - 1, wt, wt + 1, wt + 4096, 511 * 4096, 512 * 4096} {
			if n <= 0 {
				continue
			}
			c := p.Write(f, 0, n, 2)
			if c.St == "OK" {
				p.Read(f, n-100, 200)
			}
			p.Write(f, 4097, n, 2) // unaligned
			p.Getattr(f)
		}
		p.Trunc(f, 0)
		p.Tail()
	}},
	{"file-size-limits", []string{"C19", "C02"}, 0, func(p *P) {
		f := p.Create(p.Root, "f").RFh
		mx := p.S.maxfs
		p.Write(f, mx-100, 100, 2)
		p.Read(f, mx-200, 300)
		p.Write(f, mx-50, 100, 2)
		p.Write(f, mx, 1, 2)
		p.Write(f, mx+1, 1, 2)
		p.Getattr(f)
		p.Trunc(f, mx)
		p.Trunc(f, mx+1)
		p.Read(f, mx-4096, 8192)
		p.Trunc(f, 10)
		p.Read(f, 0, 100)
		p.Tail()
	}},
}

func init() {
	Probes = append(Probes, Probe{"free-files-of-about-one-transaction", []string{"C05", "C04"}, 16000, func(p *P) {
		// removing / truncating a file whose freeing just about fills one journal transaction
		const B = 4096
		for _, nb := range []int{495, 503, 505, 507, 509, 511, 520} {
			f := p.Create(p.Root, "f").RFh
			for off := 0; off < nb; off += 400 {
				n := nb - off
				if n > 400 {
					n = 400
				}
				p.Write(f, off*B, n*B, 2)
			}
			if nb%2 == 1 {
				p.Remove(p.Root, "f")
			} else {
				p.Trunc(f, 0)
				p.Remove(p.Root, "f")
			}
			p.S.WaitIdle()
			p.T.Emit(TakeSnap(p.S, "run", true))
		}
		p.Tail()
	}})
	Probes = append(Probes, Probe{"replace-files-of-about-one-transaction", []string{"C05", "C04"}, 16000, func(p *P) {
		// RENAME over a file whose freeing just about fills one journal transaction, from another directory: the
		// transaction also carries both directories' blocks and the replaced file's inode
		const B = 4096
		d := p.Mkdir(p.Root, "d").RFh
		for _, nb := range []int{490, 496, 500, 501, 502, 503, 504, 505, 506, 507, 508, 509, 510, 512} {
			f := p.Create(p.Root, "t").RFh
			for off := 0; off < nb; off += 400 {
				n := nb - off
				if n > 400 {
					n = 400
				}
				p.Write(f, off*B, n*B, 2)
			}
			p.Create(d, "s")
			p.Rename(d, "s", p.Root, "t")
			p.Getattr(f)
			p.Remove(p.Root, "t")
			p.S.WaitIdle()
			p.T.Emit(TakeSnap(p.S, "run", true))
		}
		p.Tail()
	}})
	Probes = append(Probes, Probe{"free-file-spread-over-four-bitmap-blocks", []string{"C05", "C11"}, 3*32768 + 2000, func(p *P) {
		// a file whose blocks lie in the areas of four bitmap blocks (the default 400 MB disk has four): every
		// transaction that frees part of it writes up to four bitmap blocks on top of the blocks it zeroes
		const B = 4096
		fill := func(name string, nb int) {
			f := p.Create(p.Root, name).RFh
			for off := 0; off < nb; off += 400 {
				n := nb - off
				if n > 400 {
					n = 400
				}
				p.Write(f, off*B, n*B, 2)
			}
		}
		SnapSkipNonZero = true
		defer func() { SnapSkipNonZero = false }()
		const L = 520 + 512 + 503
		a := p.Create(p.Root, "a").RFh
		for off := 0; off < L-3; off += 400 {
			n := L - 3 - off
			if n > 400 {
				n = 400
			}
			p.Write(a, off*B, n*B, 2)
		}
		fill("b", 31500)
		p.Write(a, (L-3)*B, B, 2)
		fill("c", 32768)
		p.Write(a, (L-2)*B, B, 2)
		fill("d", 31500)
		p.Write(a, (L-1)*B, B, 2)
		p.Trunc(a, 0)
		p.S.WaitIdle()
		p.Getattr(a)
		p.Write(a, 0, 100, 2)
		p.Remove(p.Root, "a")
		for _, n := range []string{"b", "c", "d"} {
			p.Remove(p.Root, n)
		}
		p.S.WaitIdle()
		p.T.Emit(TakeSnap(p.S, "run", true))
		p.Tail()
	}})
	Probes = append(Probes, Probe{"directory-into-the-double-indirect-block", []string{"C13", "C04"}, 24000, func(p *P) {
		// a directory of more than 16640 slots (8 direct + 512 indirect blocks of 32 slots): entries added, removed and
		// renamed behind the double-indirect block, listed page by page, looked up after a restart
		d := p.Mkdir(p.Root, "big").RFh
		p.Bulk(d, "f", 16700)
		p.Create(d, "new1")
		p.Remove(d, "f16650")
		p.Rename(d, "f16660", d, "r1")
		p.Create(d, "new2") // takes a freed slot
		p.Mkdir(d, "sub")
		for _, n := range []string{"f16638", "f16639", "f16640", "f16669", "f16699", "f0", "f8000", "new1", "r1", "f16650"} {
			p.Lookup(d, n)
		}
		p.Enumerate(d, false, 60000, 40)
		p.Enumerate(d, true, 60000, 40)
		p.S.WaitIdle()
		p.T.Emit(TakeSnap(p.S, "run", true))
		if !p.Restart() {
			return
		}
		for _, n := range []string{"f16638", "f16670", "f16699", "new2", "sub", "f1"} {
			p.Lookup(d, n)
		}
		p.Remove(d, "f16698")
		p.Create(d, "new3")
		p.Enumerate(d, false, 60000, 40)
		p.S.WaitIdle()
		p.T.Emit(TakeSnap(p.S, "run", true))
	}})
	Probes = append(Probes, Probe{"truncations-in-a-row-while-shrinkers-are-slow", []string{"C06", "C05"}, 16000, func(p *P) {
		// a large sparse file cut and re-extended again and again while every background shrinker thread is held up for two
		// seconds before its first transaction: the requests must not depend on the threads they start (the threads need
		// the inode lock the request holds when it starts them). The hold-up ends by itself long before a request times out.
		const B = 4096
		f := p.Create(p.Root, "f").RFh
		p.Trunc(f, 1300*B)
		Mon.Yield = func(ev string) {
			if ev != "begin" {
				return
			}
			buf := make([]byte, 8192)
			n := runtime.Stack(buf, false)
			if strings.Contains(string(buf[:n]), "shrinker.") && !strings.Contains(string(buf[:n]), "NFSPROC3_") {
				time.Sleep(2 * time.Second)
			}
		}
		defer func() { Mon.Yield = nil }()
		for i := 0; i < 7 && !p.S.Wedged; i++ {
			p.Trunc(f, (i%2)*3*B)
			p.Trunc(f, 1300*B)
		}
		g := p.Create(p.Root, "g").RFh
		p.Trunc(g, 900*B)
		p.Remove(p.Root, "g")
		p.Remove(p.Root, "f")

		if !p.S.Wedged {
			p.S.WaitIdle()
			p.T.Emit(TakeSnap(p.S, "run", true))
		}
		p.Tail()
	}})
	Probes = append(Probes, Probe{"names-of-multi-byte-characters-around-name-max", []string{"C19", "C11", "C13"}, 0, func(p *P) {
		// name_max counts bytes (a directory slot holds 112): names of two- and three-byte characters whose byte length is
		// around the limit while their character count is far below it
		d := p.Mkdir(p.Root, "d").RFh
		mk := func(ch string, nbytes int) string {
			s := strings.Repeat(ch, nbytes/len(ch))
			for len(s) < nbytes {
				s += "x"
			}
			return s
		}
		i := 0
		for _, ch := range []string{"\u00e9", "\u20ac"} {
			for _, n := range []int{108, 111, 112, 113, 114, 117, 168} {
				name := mk(ch, n)
				switch i % 3 {
				case 0:
					p.Create(d, name)
				case 1:
					p.Mkdir(d, name)
				default:
					p.Create(d, fmt.Sprintf("t%d", i))
					p.Rename(d, fmt.Sprintf("t%d", i), d, name)
				}
				p.Lookup(d, name)
				i++
			}
		}
		p.Enumerate(d, false, 4096, 12)
		p.Enumerate(d, true, 4096, 12)
		p.Create(d, "after")
		p.S.WaitIdle()
		p.T.Emit(TakeSnap(p.S, "run", true))
		if !p.Restart() {
			return
		}
		p.Enumerate(d, false, 4096, 12)
		p.Lookup(d, mk("\u00e9", 112))
		p.Tail()
	}})
	Probes = append(Probes, Probe{"rmdir-with-entries-only-in-later-slots", []string{"C02", "C04", "C05"}, 0, func(p *P) {
		// a directory that once had many entries and keeps only a few, at every position of its second and third block
		// (slots 31..35, 63..66): it is not empty - RMDIR, REMOVE and RENAME of an empty directory onto it must be refused
		for _, keep := range [][]int{{30}, {31}, {30, 31}, {29}, {32}, {62}, {63}, {61, 64}, {33}} {
			d := p.Mkdir(p.Root, "d").RFh
			for i := 0; i < 66; i++ {
				p.Create(d, fmt.Sprintf("c%02d", i)) // entry i sits in slot i+2
			}
			kept := map[int]bool{}
			for _, k := range keep {
				kept[k] = true
			}
			for i := 0; i < 66; i++ {
				if !kept[i] {
					p.Remove(d, fmt.Sprintf("c%02d", i))
				}
			}
			p.Rmdir(p.Root, "d")
			p.Remove(p.Root, "d")
			p.Mkdir(p.Root, "e")
			p.Rename(p.Root, "e", p.Root, "d")
			p.Lookup(p.Root, "d")
			p.Enumerate(d, false, 4096, 4)
			for _, k := range keep {
				p.Remove(d, fmt.Sprintf("c%02d", k))
			}
			p.Rmdir(p.Root, "d")
			p.Rmdir(p.Root, "e")
			p.Lookup(p.Root, "d")
			p.S.WaitIdle()
			p.T.Emit(TakeSnap(p.S, "run", true))
		}
		p.Tail()
	}})
	Probes = append(Probes, Probe{"directory-number-reused-after-restart", []string{"C11", "C08", "C10"}, 0, func(p *P) {
		// a removed directory's cached inode (with its name cache) is still in the inode cache when its number is handed
		// out again - after a restart the allocator starts at the lowest free number - for a directory, a file, a symlink
		for round, kind := range []string{"MKDIR", "CREATE", "SYMLINK", "MKDIR"} {
			d := p.Mkdir(p.Root, "d").RFh
			p.Create(d, "x")
			if !p.Restart() {
				return
			}
			p.Lookup(d, "x") // builds the name cache of d in this instance
			p.Lookup(d, "nope")
			p.Remove(d, "x")
			if round == 3 {
				p.Mkdir(p.Root, "e0")
				p.Rename(p.Root, "e0", p.Root, "d") // removed by a RENAME over it
			} else {
				p.Rmdir(p.Root, "d")
			}
			var c *Call
			switch kind {
			case "MKDIR":
				c = p.Mkdir(p.Root, "e")
			case "CREATE":
				c = p.Create(p.Root, "e")
			default:
				c = p.Symlink(p.Root, "e", "/t")
			}
			p.Getattr(d)
			p.Lookup(d, ".")
			if c.St == "OK" && c.HasFh {
				p.Getattr(c.RFh)
				if kind == "MKDIR" {
					p.Create(c.RFh, "y")
					p.Lookup(c.RFh, "y")
					p.Lookup(c.RFh, "..")
					p.Enumerate(c.RFh, true, 4096, 3)
					p.Remove(c.RFh, "y")
					p.Rmdir(p.Root, "e")
				} else {
					p.Remove(p.Root, "e")
				}
			}
			if round == 3 {
				p.Rmdir(p.Root, "d")
			}
			p.S.WaitIdle()
			p.T.Emit(TakeSnap(p.S, "run", true))
		}
		p.Tail()
	}})
	Probes = append(Probes, Probe{"read-of-holes-on-a-full-disk", []string{"C02", "C12", "C09"}, 1800, func(p *P) {
		// holes read as zeros, also when the disk has no block left to put under them (READ fills holes when it can)
		const B = 4096
		h := p.Create(p.Root, "h").RFh
		p.Trunc(h, 3*B)
		k := p.Create(p.Root, "k").RFh
		p.Write(k, 0, 100, 2)
		p.Trunc(k, 600*B) // holes behind an index block
		fill := p.Create(p.Root, "fill").RFh
		off := 0
		for _, chunk := range []int{100 * B, B} {
			for !p.S.Wedged {
				c := p.Write(fill, off, chunk, 2)
				if c.St != "OK" || c.RCount == 0 {
					break
				}
				off += c.RCount
			}
		}
		p.Read(h, 0, B)
		p.Read(h, 100, 2*B)
		p.Read(k, 0, 2*B)
		p.Read(k, 10*B, B)
		p.Read(k, 598*B, 2*B)
		p.Getattr(h)
		p.S.WaitIdle()
		p.T.Emit(TakeSnap(p.S, "run", true))
		p.Remove(p.Root, "fill")
		p.Read(h, 0, 3*B)
		p.Tail()
	}})
	Probes = append(Probes, Probe{"refused-setattr-that-also-sets-times", []string{"C09", "C10"}, 0, func(p *P) {
		// a SETATTR that is refused for its size must not have applied the times it carries either (nothing of a refused
		// request may stay in the cached inode: the next request that logs the inode would make it durable)
		const B = 4096
		f := p.Create(p.Root, "f").RFh
		p.Write(f, 0, 5000, 2)
		d := p.Mkdir(p.Root, "d").RFh
		l := p.Symlink(p.Root, "l", "/t").RFh
		time.Sleep(20 * time.Millisecond) // the server's clock has moved on since the objects were created
		c := p.Call("SETATTR", f)
		c.SetSize, c.Size, c.SizeSat, c.RawSize, c.How = true, HUGE, true, 1<<62, 1
		p.do(c)
		for _, h := range []string{d, l} {
			c := p.Call("SETATTR", h)
			c.SetSize, c.Size, c.How = true, 5, 1
			p.do(c)
		}
		p.S.WaitIdle()
		p.T.Emit(TakeSnap(p.S, "run", true))
		p.Write(f, 10, 10, 2)
		p.Create(d, "x")
		p.S.WaitIdle()
		p.T.Emit(TakeSnap(p.S, "run", true))
		p.Restart()
		p.Tail()
	}})
	Probes = append(Probes, Probe{"create-through-a-dead-handle-whose-number-is-next", []string{"C06", "C11", "C08"}, 0, func(p *P) {
		// the handle of a removed directory names a free inode - after a restart exactly the one the allocator hands out
		// next: a CREATE/MKDIR/SYMLINK through it must be answered (stale), whatever it locks first
		for _, proc := range []string{"CREATE", "MKDIR", "SYMLINK"} {
			d := p.Mkdir(p.Root, "d").RFh
			p.Rmdir(p.Root, "d")
			if !p.Restart() {
				return
			}
			c := p.Call(proc, d)
			c.Name = "z"
			if proc == "SYMLINK" {
				c.Target, c.TLen = "/t", 2
			}
			p.do(c)
			if p.S.Wedged {
				return
			}
			p.Lookup(d, "z")
			// and a made-up handle for the next free number (generation 0 and 1)
			for _, gen := range []byte{0, 1} {
				b := make([]byte, 16)
				copy(b, UnHex(d))
				b[8] = gen
				for i := 9; i < 16; i++ {
					b[i] = 0
				}
				c := raw(p.Call(proc, ""), b)
				c.Name = "w"
				if proc == "SYMLINK" {
					c.Target, c.TLen = "/t", 2
				}
				p.do(c)
				if p.S.Wedged {
					return
				}
			}
			p.Mkdir(p.Root, "keep"+proc) // takes the number, so that the next round uses the following one
		}
		p.Tail()
	}})
	Probes = append(Probes, Probe{"create-with-an-initial-size", []string{"C11", "C02", "C19"}, 0, func(p *P) {
		// the size among CREATE's initial attributes may be ignored or applied, but never beyond what SETATTR accepts: a file
		// whose size the block map cannot address crashes a later READ and keeps the thread that frees it busy for ever
		const B = 4096
		for i, sz := range []uint64{0, 5000, 40 * B, 1 << 33, 1 << 50, 1<<64 - 1} {
			name := fmt.Sprintf("s%d", i)
			c := p.CreateSized(p.Root, name, sz)
			if c.St != "OK" || !c.HasFh {
				continue
			}
			f := c.RFh
			p.Getattr(f)
			p.Read(f, 0, 100)
			p.Read(f, 3*B, 2*B)
			for _, off := range []uint64{1 << 31, 1<<32 + 7, 1 << 40, 1 << 62} {
				r := p.Call("READ", f)
				r.Off, r.OffSat, r.RawOff, r.Cnt = HUGE, true, off, 100
				p.do(r)
			}
			p.Write(f, 10, 20, 2)
			p.Remove(p.Root, name)
			if !p.Idle() {
				return
			}
		}
		p.Tail()
	}})
	for _, nb := range append(seqInts(1, 32), 40, 48, 64) {
		nb := nb
		Probes = append(Probes, Probe{fmt.Sprintf("freeing-requests-behind-a-held-up-one-%d", nb), []string{"C06", "C05"}, 16000, func(p *P) {
			// the background freeing of file z is held up for 0.7 s before its first transaction; meanwhile nb other files are
			// cut (nb more requests for background freeing) and then z itself is removed - by a request that holds z's lock
			// when it asks for background freeing again. However that is organised (a thread per request, a pool, a queue of
			// some length), the request must not wait for room while the freeing in progress needs the lock it holds. One
			// variant per number of requests in between, so that a bound of any size up to 32 (and 40, 48, 64) is met exactly.
			const B = 4096
			var once int32
			Mon.Yield = func(ev string) {
				if ev != "begin" || atomic.LoadInt32(&once) != 0 {
					return
				}
				buf := make([]byte, 8192)
				n := runtime.Stack(buf, false)
				if strings.Contains(string(buf[:n]), "shrinker.") && !strings.Contains(string(buf[:n]), "NFSPROC3_") && atomic.CompareAndSwapInt32(&once, 0, 1) {
					time.Sleep(700 * time.Millisecond)
				}
			}
			defer func() { Mon.Yield = nil }()
			var fhs []string
			for i := 0; i <= nb; i++ {
				h := p.Create(p.Root, fmt.Sprintf("z%d", i)).RFh
				p.Trunc(h, 1200*B)
				fhs = append(fhs, h)
			}
			p.Trunc(fhs[0], 600*B) // the freeing that is held up
			for i := 1; i <= nb && !p.S.Wedged; i++ {
				p.Trunc(fhs[i], 600*B)
			}
			p.Remove(p.Root, "z0")
			for i := 1; i <= nb && !p.S.Wedged; i++ {
				p.Remove(p.Root, fmt.Sprintf("z%d", i))
			}
			if !p.S.Wedged && p.Idle() {
				p.T.Emit(TakeSnap(p.S, "run", true))
			}
		}})
	}
	Probes = append(Probes, Probe{"remove-while-truncation-is-in-progress", []string{"C05", "C12", "C04"}, 16000, func(p *P) {
		const B = 4096
		for round := 0; round < 3; round++ {
			f := p.Create(p.Root, "big").RFh
			for off := 0; off < 1500; off += 450 {
				p.Write(f, off*B, 450*B, 2)
			}
			p.Trunc(f, []int{0, 100, 3 * B}[round]) // handed to the background shrinker
			p.Remove(p.Root, "big")                 // while it runs
			g := p.Create(p.Root, "g").RFh          // may reuse the inode number
			p.Write(g, 5000, 100, 2)
			p.Trunc(g, 20*B)
			p.Read(g, 0, 16*B)
			p.Remove(p.Root, "g")
			p.S.WaitIdle()
			p.T.Emit(TakeSnap(p.S, "run", true))
		}
		p.Tail()
	}})
	Probes = append(Probes, Probe{"remove-procedure-on-empty-directories", []string{"C05", "C04", "C08"}, 0, func(p *P) {
		d := p.Mkdir(p.Root, "p").RFh
		p.Mkdir(d, "c1")
		p.Mkdir(d, "c2")
		p.Remove(d, "c1") // REMOVE (not RMDIR) of an empty directory: the server may accept it
		p.Rmdir(d, "c2")
		p.Remove(p.Root, "p")
		p.Getattr(d)
		e := p.Mkdir(p.Root, "q").RFh
		p.Mkdir(e, "c")
		p.Remove(e, "c")
		p.Rmdir(p.Root, "q")
		p.Getattr(e)
		p.Tail()
	}})
	Probes = append(Probes, Probe{"transaction-larger-than-the-journal", []string{"C09", "C10"}, 0, func(p *P) {
		// a request that dirties more blocks than one journal transaction holds is refused at commit: no trace may remain
		p.Symlink(p.Root, "huge", strings.Repeat("t", 2200000))
		p.Lookup(p.Root, "huge")
		p.Create(p.Root, "huge")
		p.Remove(p.Root, "huge")
		p.Symlink(p.Root, "huge2", strings.Repeat("t", 2100000))
		p.Lookup(p.Root, "huge2")
		p.Enumerate(p.Root, false, 4096, 5)
		p.Dump()
		p.S.WaitIdle()
		p.T.Emit(TakeSnap(p.S, "run", true))
		p.Restart()
		p.Lookup(p.Root, "huge2")
		p.Tail()
	}})
	Probes = append(Probes, Probe{"directory-of-several-blocks-after-restart", []string{"C02", "C04", "C10", "C13"}, 0, func(p *P) {
		d := p.Mkdir(p.Root, "d").RFh
		for i := 0; i < 75; i++ {
			p.Create(d, fmt.Sprintf("n%02d", i))
		}
		p.Mkdir(d, "sub")
		p.Restart() // name caches are rebuilt from the disk
		for _, i := range []int{70, 33, 31, 32, 64, 0, 74} {
			p.Remove(d, fmt.Sprintf("n%02d", i))
			p.Lookup(d, fmt.Sprintf("n%02d", i))
		}
		p.Rename(d, "n40", d, "n41")
		p.Rename(d, "n66", p.Root, "moved")
		p.Rmdir(d, "sub")
		p.Create(d, "new1")
		p.Lookup(d, ".")
		p.Lookup(d, "..")
		p.Enumerate(d, false, 1000, 20)
		p.Enumerate(d, true, 700, 20)
		p.Tail()
		// the same through cache eviction: touch more inodes than the inode cache holds
		for i := 0; i < 110; i++ {
			p.Create(p.Root, fmt.Sprintf("e%03d", i))
		}
		for _, i := range []int{45, 34, 71} {
			p.Remove(d, fmt.Sprintf("n%02d", i))
			p.Lookup(d, fmt.Sprintf("n%02d", i))
		}
		p.Tail()
	}})
	Probes = append(Probes, Probe{"read-beyond-rtmax", []string{"C11", "C19"}, 0, func(p *P) {
		f := p.Create(p.Root, "f").RFh
		p.Write(f, 0, 300000, 2)
		p.Read(f, 0, 65536)
		p.Read(f, 0, 65537)
		p.Read(f, 100, 1<<20)
		p.Tail()
	}})
	Probes = append(Probes, Probe{"readdir-bad-cookies", []string{"C11", "C13"}, 0, func(p *P) {
		d := p.Mkdir(p.Root, "d").RFh
		for _, n := range []string{"a", "b", "c"} {
			p.Create(d, n)
		}
		for _, ck := range []int{1, 64, 127, 129, 200, 383, 385, 640, 641, 100000, HUGE} {
			if p.Readdir(d, ck, 4096).St == "PANIC" {
				return
			}
			if p.ReaddirPlus(d, ck, 4096, 16384).St == "PANIC" {
				return
			}
		}
		p.Enumerate(d, false, 4096, 5)
		p.Tail()
	}})
	// The background shrinker is parked before its first transaction: whatever a client does to the file whose
	// truncation is still pending must look exactly as if the truncation were complete (requests complete it themselves).
	for _, variant := range []string{"write-over-eof", "write-at-eof", "grow", "remove-recreate", "shrink-again"} {
		variant := variant
		Probes = append(Probes, Probe{"shrinker-parked-" + variant, []string{"C03", "C12", "C05", "C02"}, 16000, func(p *P) {
			const B = 4096
			f := p.Create(p.Root, "f").RFh
			for i := 0; i < 6; i++ {
				p.Write(f, i*100*B, 100*B, 2)
			}
			release := make(chan struct{})
			Mon.Yield = func(ev string) {
				if ev != "begin" {
					return
				}
				buf := make([]byte, 8192)
				n := runtime.Stack(buf, false)
				if strings.Contains(string(buf[:n]), "shrinker.") && !strings.Contains(string(buf[:n]), "NFSPROC3_") {
					select {
					case <-release:
					case <-time.After(60 * time.Second):
					}
				}
			}
			defer func() { Mon.Yield = nil }()
			p.Trunc(f, B+100) // more than a journal's worth of blocks is cut: handed to the (parked) shrinker
			switch variant {
			case "write-over-eof":
				p.Write(f, 4000, 5000, 2) // starts inside the new size, ends in a block that is still being freed
				p.Trunc(f, 5*B)
				p.Read(f, 0, 5*B)
			case "write-at-eof":
				p.Write(f, B+100, 3*B, 2)
				p.Trunc(f, 8*B)
				p.Read(f, 0, 8*B)
			case "grow":
				p.Trunc(f, 16*B)
				p.Read(f, 0, 16*B)
				p.Trunc(f, 592*B)
				p.Read(f, 590*B, 2*B)
			case "remove-recreate":
				p.Remove(p.Root, "f")
				g := p.Create(p.Root, "g").RFh
				p.Write(g, 3*B+7, 100, 2)
				p.Trunc(g, 16*B)
				p.Read(g, 0, 16*B)
			case "shrink-again":
				p.Trunc(f, 100)
				p.Write(f, 50, 2*B, 2)
				p.Trunc(f, 10*B)
				p.Read(f, 0, 10*B)
			}
			close(release)
			p.S.WaitIdle()
			p.T.Emit(TakeSnap(p.S, "run", true))
			p.Dump()
			p.Restart()
			p.Tail()
		}})
	}
	// Known finding KF-D20 (not repaired: needs an ancestor check under a rename-wide lock and the update of ".." and of
	// both parents' link counts): a directory renamed into another parent. Reproduced here so that the finding stays
	// visible; the generators keep directory renames inside one parent.
	Probes = append(Probes, Probe{"rename-directory-across-parents", []string{"C04", "C02", "C11"}, 0, func(p *P) {
		x := p.Mkdir(p.Root, "x").RFh
		y := p.Mkdir(p.Root, "y").RFh
		p.Mkdir(x, "s")
		p.Rename(x, "s", y, "s") // a legitimate move: ".." of s and the link counts of x and y must follow
		p.Lookup(y, "s")
		p.S.WaitIdle()
		p.T.Emit(TakeSnap(p.S, "run", true))
		a := p.Mkdir(p.Root, "a").RFh
		b := p.Mkdir(a, "b").RFh
		p.Rename(p.Root, "a", b, "c") // into its own subtree: must be refused
		p.Lookup(p.Root, "a")
		p.S.WaitIdle()
		p.T.Emit(TakeSnap(p.S, "run", true))
		// the old parent of the moved directory is removed: whatever the moved directory's ".." says by now, every
		// request must still be answered
		sh := p.Lookup(y, "s").RFh
		p.Rmdir(p.Root, "x")
		p.Lookup(sh, "..")
		p.Getattr(x)
		p.Lookup(sh, ".")
		p.Enumerate(sh, true, 4096, 3)
		p.Mkdir(p.Root, "x2")
		p.Lookup(sh, "..")
		p.S.WaitIdle()
		p.T.Emit(TakeSnap(p.S, "run", true))
		// a moved directory moved on, over an empty directory of a third parent: the link counts are stale by now (the
		// finding), but no count of a live directory may reach zero - every directory must still answer
		e := p.Mkdir(p.Root, "e").RFh
		f := p.Mkdir(p.Root, "f").RFh
		g := p.Mkdir(p.Root, "g").RFh
		p.Mkdir(e, "m")
		p.Mkdir(g, "n")
		p.Rename(e, "m", f, "m")
		p.Rename(f, "m", g, "n")
		for _, d := range []string{e, f, g} {
			p.Getattr(d)
			p.Lookup(d, ".")
		}
		p.Lookup(g, "n")
		p.Enumerate(p.Root, true, 8192, 6)
		p.Create(f, "file")
		p.S.WaitIdle()
		p.T.Emit(TakeSnap(p.S, "run", true))
	}})
	// A crash in the middle of freeing leaves a half-freed inode; the number is handed out again by the next CREATE,
	// which must complete the freeing first (getAlloc: abort, DoShrink, retry) without losing the number or any block.
	Probes = append(Probes, Probe{"create-on-half-freed-inode", []string{"C05", "C10"}, 16000, func(p *P) {
		const B = 4096
		f := p.Create(p.Root, "big").RFh
		for i := 0; i < 6; i++ {
			p.Write(f, i*100*B, 100*B, 2)
		}
		release := make(chan struct{})
		Mon.Yield = func(ev string) {
			if ev != "begin" {
				return
			}
			buf := make([]byte, 8192)
			n := runtime.Stack(buf, false)
			if strings.Contains(string(buf[:n]), "shrinker.") && !strings.Contains(string(buf[:n]), "NFSPROC3_") {
				select {
				case <-release:
				case <-time.After(60 * time.Second):
				}
			}
		}
		p.Remove(p.Root, "big") // the inode is free, its blocks are still to be freed by the (parked) shrinker
		// crash: the disk as it is (every call so far was acknowledged stable), a new instance on a copy of it
		old := p.S
		img := p.S.D.Clone()
		s2, err := Start(img, p.Unst)
		if err != nil {
			p.T.Emit(map[string]interface{}{"ev": "fatal", "what": err.Error()})
			close(release)
			return
		}
		s2.Sequential = true
		s2.wtmax, s2.maxfs = old.wtmax, old.maxfs
		p.S = s2
		p.T.Emit(Restart{Ev: "restart", Kind: "crash", Dump: DumpAPI(s2.API, "restarted")})
		p.T.Emit(TakeSnap(p.S, "recovered", true)) // a half-freed inode is legitimate here
		for _, n := range []string{"a", "b", "c"} {
			c := p.Create(p.Root, n)
			if c.St == "OK" {
				p.Write(c.RFh, 0, 5000, 2)
			}
		}
		p.S.WaitIdle()
		p.T.Emit(TakeSnap(p.S, "run", true))
		for _, n := range []string{"a", "b", "c"} {
			p.Remove(p.Root, n)
		}
		p.S.WaitIdle()
		p.T.Emit(TakeSnap(p.S, "run", true))
		p.Dump()
		p.Tail()
		Mon.Yield = nil
		close(release) // the abandoned instance may finish its freeing on the old disk
		old.WaitIdle()
	}})
	// The server is shut down and restarted while the background shrinker is at work: nothing observable changes, the
	// truncation left half-way is completed by the next request that touches the file, and no block is lost.
	for _, variant := range []string{"trunc", "remove"} {
		variant := variant
		Probes = append(Probes, Probe{"restart-while-shrinking-" + variant, []string{"C10", "C05", "C12"}, 16000, func(p *P) {
			const B = 4096
			f := p.Create(p.Root, "f").RFh
			for i := 0; i < 6; i++ {
				p.Write(f, i*100*B, 100*B, 2)
			}
			g := p.Create(p.Root, "g").RFh
			p.Write(g, 0, 5000, 2)
			if variant == "trunc" {
				p.Trunc(f, B+100)
			} else {
				p.Remove(p.Root, "f")
			}
			// no WaitIdle: the shrinker thread is (most likely) still freeing
			old := p.S
			old.Shutdown()
			s2, err := Start(old.D, p.Unst)
			if err != nil {
				p.T.Emit(map[string]interface{}{"ev": "fatal", "what": err.Error()})
				return
			}
			s2.Sequential = true
			s2.wtmax, s2.maxfs = old.wtmax, old.maxfs
			p.S = s2
			p.T.Emit(Restart{Ev: "restart", Kind: "clean", Dump: DumpAPI(s2.API, "restarted")})
			p.T.Emit(TakeSnap(p.S, "recovered", true)) // a half-freed inode is legitimate here
			if variant == "trunc" {
				p.Write(f, B, 300, 2) // completes the truncation first
				p.Trunc(f, 8*B)
				p.Read(f, 0, 8*B)
			} else {
				h := p.Create(p.Root, "h").RFh // is handed the half-freed number
				p.Write(h, 3*B, 100, 2)
				p.Trunc(h, 8*B)
				p.Read(h, 0, 8*B)
			}
			p.S.WaitIdle()
			p.T.Emit(TakeSnap(p.S, "run", true))
			p.Dump()
			p.Tail()
		}})
	}
	// A truncation cut short by a crash (the background thread never ran), then the file is removed, renamed over or cut
	// again on the recovered server: nobody is freeing it any more, so these requests have to see to all of its blocks.
	for _, variant := range []string{"remove", "rename-over", "trunc-again", "trunc-zero-remove"} {
		variant := variant
		Probes = append(Probes, Probe{"crash-before-background-freeing-then-" + variant, []string{"C05", "C12", "C10"}, 16000, func(p *P) {
			const B = 4096
			f := p.Create(p.Root, "f").RFh
			for i := 0; i < 13; i++ {
				p.Write(f, i*100*B, 100*B, 2)
			}
			p.Create(p.Root, "g")
			hold := make(chan struct{})
			Mon.Yield = func(ev string) {
				if ev != "begin" {
					return
				}
				buf := make([]byte, 8192)
				n := runtime.Stack(buf, false)
				if strings.Contains(string(buf[:n]), "shrinker.") && !strings.Contains(string(buf[:n]), "NFSPROC3_") {
					select {
					case <-hold:
					case <-time.After(60 * time.Second):
					}
				}
			}
			if variant == "trunc-zero-remove" {
				p.Trunc(f, 0)
			} else {
				p.Trunc(f, 2*B+100) // the rest is for the background thread, which is held
			}
			img := p.S.D.Clone() // the crash: everything acknowledged is in the journal, the thread has done nothing
			old := p.S
			Mon.Yield = nil
			close(hold)
			old.WaitIdle()
			func() { defer func() { recover() }(); old.Shutdown() }()
			s2, err := Start(img, p.Unst)
			if err != nil {
				p.T.Emit(map[string]interface{}{"ev": "fatal", "what": err.Error()})
				return
			}
			s2.Sequential = true
			s2.wtmax, s2.maxfs = old.wtmax, old.maxfs
			p.S = s2
			p.T.Emit(Restart{Ev: "restart", Kind: "clean", Dump: DumpAPI(s2.API, "restarted")})
			p.T.Emit(TakeSnap(p.S, "recovered", true)) // a half-freed inode is legitimate here
			switch variant {
			case "trunc-zero-remove":
				// the file has size 0 already: REMOVE has nothing to cut and may leave the rest to whoever is handed the number next
				p.Remove(p.Root, "f")
				h := p.Create(p.Root, "h").RFh // after a restart the lowest free number is handed out: f's
				p.Write(h, 0, 100, 2)
				p.Read(h, 0, 2*B)
			case "remove":
				p.Remove(p.Root, "f")
			case "rename-over":
				p.Rename(p.Root, "g", p.Root, "f")
			default:
				p.Trunc(f, B)
				p.Read(f, 0, 3*B)
				p.Trunc(f, 3*B)
				p.Read(f, 0, 3*B)
			}
			if p.Idle() {
				p.T.Emit(TakeSnap(p.S, "run", true))
				p.Dump()
				p.Tail()
			}
		}})
	}
	// A SYMLINK whose target needs two blocks when one is free: refused without effect, or stored completely.
	Probes = append(Probes, Probe{"symlink-target-with-one-block-free", []string{"C09", "C02", "C05"}, 1700, func(p *P) {
		filler := p.Create(p.Root, "filler").RFh
		off := 0
		for i := 0; i < 400; i++ {
			fb, _ := p.S.Free()
			if fb <= 1 {
				break
			}
			p.Write(filler, off, 4096, 2)
			off += 4096
		}
		if fb, _ := p.S.Free(); fb != 1 {
			return
		}
		p.Symlink(p.Root, "l", strings.Repeat("t", 5000))
		p.Lookup(p.Root, "l")
		p.S.WaitIdle()
		p.T.Emit(TakeSnap(p.S, "run", true))
		p.Symlink(p.Root, "m", strings.Repeat("u", 3000)) // fits in the one block
		c := p.Lookup(p.Root, "m")
		if c.St == "OK" {
			rl := p.Call("READLINK", c.RFh)
			p.do(rl)
		}
		p.Dump()
		p.Restart()
		p.Tail()
	}})
	// An operation that allocates an index block and then fails for lack of a second block must give the first one
	// back everywhere (allocator, cached inode); the number must not stay in the cached inode and reach the disk later.
	for _, variant := range []string{"write", "read", "writespan", "writegrow"} {
		variant := variant
		Probes = append(Probes, Probe{"indirect-" + variant + "-with-one-block-free", []string{"C04", "C05", "C09", "C10"}, 1700, func(p *P) {
			g := p.Create(p.Root, "g").RFh // no indirect block yet
			p.Write(g, 0, 100, 2)
			if variant == "read" {
				p.Trunc(g, 20*4096) // sparse: reading a hole maps a block
			}
			if variant == "writegrow" { // blocks 0..7 mapped, the file ends there
				p.Write(g, 0, 8*4096, 2)
			}
			if variant == "writespan" { // blocks 0..7 mapped, the size covers a hole in the indirect range
				p.Write(g, 0, 8*4096, 2)
				p.Trunc(g, 20*4096)
			}
			filler := p.Create(p.Root, "filler").RFh
			off := 0
			for i := 0; i < 400; i++ {
				fb, _ := p.S.Free()
				if fb <= 1 {
					break
				}
				p.Write(filler, off, 4096, 2)
				off += 4096
			}
			fb, _ := p.S.Free()
			if fb != 1 {
				return
			}
			if variant == "read" {
				p.Read(g, 8*4096, 100)
			} else if variant == "writegrow" {
				p.Write(g, 7*4096+100, 2*4096, 2) // grows across the boundary of the indirect range: short write
				p.Remove(p.Root, "g")             // the index block allocated beyond the new size must go too
				p.S.WaitIdle()
				p.T.Emit(TakeSnap(p.S, "run", true))
				g = p.Create(p.Root, "g").RFh
			} else if variant == "writespan" {
				p.Write(g, 7*4096, 2*4096, 2) // starts in a mapped block and runs into the hole: short write
			} else {
				p.Write(g, 8*4096, 100, 2) // needs the index block and a data block: fails
			}
			p.S.WaitIdle()
			p.T.Emit(TakeSnap(p.S, "run", true))
			p.Trunc(filler, off-6*4096) // room again
			p.S.WaitIdle()
			p.T.Emit(TakeSnap(p.S, "run", true))
			p.Write(g, 9*4096, 100, 2)
			p.Getattr(g)
			p.S.WaitIdle()
			p.T.Emit(TakeSnap(p.S, "run", true))
			h := p.Create(p.Root, "h").RFh
			p.Write(h, 0, 3*4096, 2)
			p.Read(g, 8*4096, 8192)
			p.Read(h, 0, 3*4096)
			p.S.WaitIdle()
			p.T.Emit(TakeSnap(p.S, "run", true))
			p.Dump()
			p.Restart()
			p.Tail()
		}})
	}
	// systematic shrink/grow matrix around the block-map boundaries (direct 0..7, indirect 8..519, double 520..)
	const B = 4096
	Probes = append(Probes, Probe{"shrink-grow-matrix", []string{"C12", "C02", "C05"}, 16000, func(p *P) {
		n := 0
		for _, k := range []int{0, 7, 8, 9, 519, 520, 521, 1031, 1032} { // block that holds data
			for _, grow := range []int{0, 1, 600, 1100} { // sparse growth (blocks beyond k), 0 = none
				for _, cut := range []int{0, 1, 8, 9, 100, 519, 520, 521, 1032} { // shrink to this many blocks
					for _, odd := range []int{0, 1000} { // ... plus this many bytes
						if cut > k+1+grow {
							continue
						}
						n++
						name := "f"
						f := p.Create(p.Root, name).RFh
						p.Write(f, k*B+17, 3000, 2)
						if grow > 0 {
							p.Trunc(f, (k+1+grow)*B)
						}
						p.Trunc(f, cut*B+odd)
						p.Trunc(f, (k+2)*B)
						p.Read(f, k*B, B)
						if cut > 0 {
							p.Read(f, (cut-1)*B, 2*B)
						}
						p.Remove(p.Root, name)
						if n%40 == 0 {
							p.S.WaitIdle()
							p.T.Emit(TakeSnap(p.S, "run", true))
						}
					}
				}
			}
		}
		p.S.WaitIdle()
		p.T.Emit(TakeSnap(p.S, "run", true))
		p.Tail()
	}})
	// Known finding KF-D20 continued (reported by a seeding sub-agent): the moved directory's ".." still names its old
	// parent; once that parent's stale link count has been brought down (another directory moved in and removed there) the
	// old parent can be removed and its inode is freed - LOOKUP of ".." in the moved directory then finds an entry that names
	// a free inode and getInodesLocked retries for ever. Last in the list: the request keeps one goroutine spinning.
	Probes = append(Probes, Probe{"lookup-dotdot-of-a-moved-directory-whose-old-parent-was-freed", []string{"C11", "C06"}, 0, func(p *P) {
		a := p.Mkdir(p.Root, "a").RFh
		sub := p.Mkdir(a, "sub").RFh
		b := p.Mkdir(p.Root, "b").RFh
		p.Mkdir(b, "t")
		p.Rename(a, "sub", b, "sub") // a keeps the link of sub's ".."
		p.Rename(b, "t", a, "t")     // t's link stays with b
		p.Rmdir(a, "t")              // gives a link of a back: a's count is 1 again although sub's ".." names it
		p.Rmdir(p.Root, "a")         // a is freed
		p.Getattr(a)
		p.Lookup(sub, "..")
	}})
}

// RunProbes runs every probe that lists prop (all when prop is empty).
func RunProbes(prop string, t *Trace, unstable bool) {
	seg := 0
	for _, pr := range Probes {
		ok := prop == "" || prop == "name:"+pr.Name // name:<probe> runs one probe (debugging)
		for _, x := range pr.Props {
			if x == prop {
				ok = true
			}
		}
		if !ok {
			continue
		}
		sz := pr.Disk
		if sz == 0 {
			sz = 12000
		}
		s, err := Start(vdisk.New(sz), unstable)
		if err != nil {
			panic(err)
		}
		s.Sequential = true
		p := &P{S: s, T: t, Root: RootFh(), Unst: unstable}
		t.Emit(Reset{Ev: "reset", Seg: seg, Driver: "probe/" + pr.Name, Seed: 0, DiskSz: int(sz), Unstable: unstable, Root: p.Root})
		seg++
		lim := p.Call("FSINFO", p.Root)
		p.do(lim)
		s.wtmax, s.maxfs = lim.Wtmax, lim.MaxFs
		p.do(p.Call("PATHCONF", p.Root))
		pr.Run(p)
		if !p.S.Wedged {
			p.S.WaitIdle()
			p.S.Shutdown()
		} else {
			Mon.Reset()
		}
	}
}
