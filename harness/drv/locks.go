package drv

import (
	"reflect"
	"runtime"
	"sort"
	"strings"
	"sync"
	"unsafe"

	"github.com/mit-pdos/go-nfsd/fstxn"
)

// LockEv is one transaction / inode-lock event observed through fstxn.VerifHook.
type LockEv struct {
	Seq  int
	Ev   string // begin want got rel precommit committed abort
	Txn  int
	Inum uint64
	G    int64  // goroutine id (only when wanted)
	What string // acc: the inode method entered
	Ctx  string // want/got: "apply" when issued from dir.Apply (children listed under the directory lock)
}

// LockMon observes lock events of all servers in this process (the hook is a
// package-level variable of fstxn).
type LockMon struct {
	mu     sync.Mutex
	seq    int
	txnIds map[uintptr]int // keyed by the transaction's address, not by a pointer: the monitor must not keep finished transactions (and through them whole server instances) alive
	nextT  int
	held   map[uint64]int // inum -> txn id
	rec    bool
	evs    []LockEv
	NBegin int
	// optional gate called (without mu) before an acquisition; may block
	Gate func(txn int, inum uint64)
	// optional yield injection at hook points
	Yield   func(ev string)
	WantG   bool
	WantCtx bool
	// TxnSizes, when non-nil, collects for every transaction that reaches its commit the number of blocks it
	// holds after PreCommit (what the journal has to take) and whether it is one of shrinker.DoShrink
	TxnSizes *[]TxnSize
}

// TxnSize: one committing transaction: K = "bg" (a transaction of shrinker.DoShrink) | "rpc"; N = blocks it holds
type TxnSize struct {
	K string `json:"k"`
	N int    `json:"n"`
}

// txnBlocks counts the distinct disk blocks among the transaction's dirty buffers: what the journal has to hold
// (Op.NDirty() counts buffers - a bitmap bit, an inode and a block are one buffer each). The buffers are
// unexported state of go-journal's jrnl.Op, read here by reflection.
func txnBlocks(op *fstxn.FsTxn) int {
	bufs := reflect.ValueOf(op.Atxn.Op).Elem().FieldByName("bufs")
	if !bufs.IsValid() || bufs.IsNil() {
		return -1
	}
	addrs := bufs.Elem().FieldByName("addrs")
	blks := map[uint64]bool{}
	it := addrs.MapRange()
	for it.Next() {
		b := it.Value().Elem()
		if b.FieldByName("dirty").Bool() {
			blks[b.FieldByName("Addr").FieldByName("Blkno").Uint()] = true
		}
	}
	return len(blks)
}

func inDoShrink() bool {
	pc := make([]uintptr, 32)
	n := runtime.Callers(3, pc)
	fr := runtime.CallersFrames(pc[:n])
	for {
		f, more := fr.Next()
		if strings.HasSuffix(f.Function, ".DoShrink") {
			return true
		}
		if !more {
			return false
		}
	}
}

var Mon = &LockMon{txnIds: map[uintptr]int{}, held: map[uint64]int{}}

func init() {
	fstxn.VerifHook = Mon.hook
}

func (m *LockMon) hook(ev string, op *fstxn.FsTxn, inum uint64) {
	m.mu.Lock()
	key := uintptr(unsafe.Pointer(op))
	id, ok := m.txnIds[key]
	if !ok || ev == "begin" { // an address can be reused by a later transaction: "begin" always starts a new one
		m.nextT++
		id = m.nextT
		m.txnIds[key] = id
	}
	m.seq++
	switch ev {
	case "begin":
		m.NBegin++
	case "got":
		m.held[inum] = id
	case "rel":
		delete(m.held, inum)
	case "abort", "committed":
	case "precommit":
		if m.TxnSizes != nil {
			k := "rpc"
			if inDoShrink() {
				k = "bg"
			}
			*m.TxnSizes = append(*m.TxnSizes, TxnSize{k, txnBlocks(op)})
		}
	}
	if m.rec {
		e := LockEv{Seq: m.seq, Ev: ev, Txn: id, Inum: inum}
		if m.WantG {
			e.G = goid()
		}
		if m.WantCtx && (ev == "want" || ev == "got") {
			e.Ctx = applyCtx()
		}
		m.evs = append(m.evs, e)
	}
	gate, yield := m.Gate, m.Yield
	m.mu.Unlock()
	if ev == "want" && gate != nil {
		gate(id, inum)
	}
	if yield != nil {
		yield(ev)
	}
}

// Acc records an access to a cached inode (inode.VerifAccess) in the same sequence as the lock events.
func (m *LockMon) Acc(inum uint64, what string) {
	g := goid()
	m.mu.Lock()
	if m.rec {
		m.seq++
		m.evs = append(m.evs, LockEv{Seq: m.seq, Ev: "acc", Inum: inum, G: g, What: what})
	}
	m.mu.Unlock()
}

// applyCtx: "apply" when the acquisition comes from dir.Apply on behalf of READDIRPLUS (nfs.Ls3: known finding KF-D13),
// "apply-other" when dir.Apply is reached from anywhere else, "" otherwise.
func applyCtx() string {
	pc := make([]uintptr, 32)
	n := runtime.Callers(3, pc)
	fr := runtime.CallersFrames(pc[:n])
	in, ls := false, false
	for {
		f, more := fr.Next()
		if strings.HasSuffix(f.Function, "dir.Apply") {
			in = true
		}
		if strings.HasSuffix(f.Function, "nfs.Ls3") {
			ls = true
		}
		if !more {
			break
		}
	}
	if in && ls {
		return "apply"
	}
	if in {
		return "apply-other"
	}
	return ""
}

// Reset forgets all state (call when starting a fresh server after abandoning a wedged one).
func (m *LockMon) Reset() {
	m.mu.Lock()
	m.txnIds = map[uintptr]int{}
	m.held = map[uint64]int{}
	m.evs = nil
	m.NBegin = 0
	m.mu.Unlock()
}

// Held returns the inums currently locked.
func (m *LockMon) Held() []int {
	m.mu.Lock()
	defer m.mu.Unlock()
	r := []int{}
	for i := range m.held {
		r = append(r, int(i))
	}
	sort.Ints(r)
	// transactions that ended cannot be told apart from running ones here; forget ids of idle maps lazily
	if len(m.held) == 0 && len(m.txnIds) > 4096 {
		m.txnIds = map[uintptr]int{}
	}
	return r
}

func (m *LockMon) Record(on bool) []LockEv {
	m.mu.Lock()
	defer m.mu.Unlock()
	ev := m.evs
	m.evs = nil
	m.rec = on
	return ev
}

func (m *LockMon) Begins() int {
	m.mu.Lock()
	defer m.mu.Unlock()
	return m.NBegin
}
