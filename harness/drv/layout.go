package drv

import (
	"fmt"

	"verif/harness/vdisk"
)

// SnapSkipNonZero skips the scan of the data region for non-zero blocks (large disks).
var SnapSkipNonZero bool

// RunLayout formats a disk of every size in sizes (increasing) with the real MakeNfs and
// records whether the size is accepted and, if so, the decoded structure. For the sizes in
// fill the disk is then filled completely through WRITE/CREATE, checked, emptied and checked.
func RunLayout(sizes []uint64, fill map[uint64]bool, t *Trace, seg int) int {
	t.Emit(Reset{Ev: "reset", Seg: seg, Driver: "layout", Root: RootFh(), Unstable: true})
	seg++
	SnapSkipNonZero = true
	defer func() { SnapSkipNonZero = false }()
	for _, sz := range sizes {
		s, err := Start(vdisk.New(sz), true)
		ev := map[string]interface{}{"ev": "layout", "size": int(sz), "accepted": err == nil}
		if err != nil {
			t.Emit(ev)
			continue
		}
		fb, fi := s.Free()
		ev["freeb"], ev["freei"] = fb, fi
		t.Emit(ev)
		t.Emit(TakeSnap(s, "mkfs", true))
		if fill[sz] {
			s = fillDisk(s, t, int(sz), fb, fi)
		}
		s.Shutdown()
	}
	return seg
}

func fillDisk(s *Srv, t *Trace, sz, fb0, fi0 int) *Srv {
	s.Sequential = true
	i := 0
	do := func(c *Call) *Call {
		c.I = i
		i++
		c.NLen = len(c.Name)
		c = s.Do(c)
		return c
	}
	root := RootFh()
	mk := func(name string) string {
		c := NewCall("CREATE")
		c.Fh, c.Name = root, name
		c = do(c)
		if c.St != "OK" {
			return ""
		}
		return c.RFh
	}
	write := func(fh string, off, n int) *Call {
		c := NewCall("WRITE")
		c.Fh, c.Off, c.Cnt, c.DLen, c.Stable = fh, off, n, n, 2
		c.Data = []Run{{n, 0x5a}}
		return do(c)
	}
	// one big file first, in large writes, then block by block, then small files for the last blocks
	nfile := 0
	big := mk("big")
	off := 0
	if big != "" {
		for _, chunk := range []int{400 * 4096, 4096} {
			for {
				c := write(big, off, chunk)
				if c.St != "OK" || c.RCount == 0 {
					break
				}
				off += c.RCount
			}
		}
	}
	// the large file has taken what it could (its last write may have been cut short in front of an index block): the
	// structure must be right at this point too, and - for every other size - also for a server restarted here, whose
	// allocator is what the disk says
	s.WaitIdle()
	t.Emit(TakeSnap(s, "fill", true)) // (not "run": the reference state of this trace does not follow the fill's calls)
	if sz%2 == 1 {
		s.Shutdown()
		s2, err := Start(s.D, true)
		if err != nil {
			t.Emit(map[string]interface{}{"ev": "fatal", "what": err.Error()})
			return s
		}
		s2.Sequential = true
		s = s2
	}
	for n := 0; n < 64; n++ {
		f := mk(fmt.Sprintf("s%d", n))
		if f == "" {
			break
		}
		nfile++
		if c := write(f, 0, 4096); c.St != "OK" {
			break
		}
	}
	s.WaitIdle()
	fb, fi := s.Free()
	t.Emit(map[string]interface{}{"ev": "fill", "size": sz, "freeb": fb, "freei": fi, "written": off, "snap": TakeSnap(s, "run", true)})
	// empty the disk again
	for _, name := range append([]string{"big"}, func() []string {
		l := []string{}
		for n := 0; n <= nfile+1; n++ {
			l = append(l, fmt.Sprintf("s%d", n))
		}
		return l
	}()...) {
		c := NewCall("REMOVE")
		c.Fh, c.Name = root, name
		do(c)
	}
	s.WaitIdle()
	fb2, fi2 := s.Free()
	sn := TakeSnap(s, "run", true)
	rootblocks := 0
	for _, in := range sn.Inodes {
		if in.Inum == 1 {
			rootblocks = len(in.Data) + len(in.Ind)
		}
	}
	t.Emit(map[string]interface{}{"ev": "emptied", "size": sz, "freeb0": fb0, "freei0": fi0, "freeb": fb2, "freei": fi2,
		"rootblocks": rootblocks, "snap": sn})
	return s
}
