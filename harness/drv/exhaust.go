package drv

import (
	"fmt"

	"verif/harness/vdisk"
)

// Inode-table exhaustion (C09: "nearly-exhausted inode tables"; C15: every inode number but the two reserved ones is
// usable). The reference model with 32 766 live objects is far too large for TLC, so this scenario has its own small
// specification (spec/ExhaustTrace.tla) over counts: the table is filled, requests that need an inode must fail and
// leave nothing behind (free counts equal and the decoded logical disk + allocators byte-identical, compared
// here and reported as one boolean), one number is given back and must be usable again, and a restart must see the
// same counts.

func RunExhaust(seed int, t *Trace, seg int) int {
	d := vdisk.New(60000)
	s, err := Start(d, true)
	if err != nil {
		panic(err)
	}
	root := RootFh()
	t.Emit(map[string]interface{}{"ev": "reset", "seg": seg, "driver": "exhaust", "seed": seed, "disksz": 60000, "unstable": true, "root": root, "keephist": false})
	seg++
	mkc := func(proc, dir, name string) *Call {
		c := NewCall(proc)
		c.Fh, c.Name, c.NLen = dir, name, len(name)
		if proc == "SYMLINK" {
			c.Target, c.TLen = "target-of-the-link", 18
		}
		c.ExecRaw(s.API)
		return c
	}
	sub := mkc("MKDIR", root, "sub")
	n := 0
	last := ""
	for i := 0; i < 40000; i++ {
		dir := root
		if i%5 == 0 && sub.St == "OK" {
			dir = sub.RFh
		}
		c := mkc("CREATE", dir, fmt.Sprintf("f%05d", i))
		if c.St != "OK" {
			last = fmt.Sprintf("%s/%d", c.St, c.Code)
			break
		}
		n++
	}
	s.WaitIdle()
	fb, fi := s.Free()
	st := s.N.VerifState()
	t.Emit(map[string]interface{}{"ev": "exhfill", "created": n + 1, "ninode": int(st.Super.NInode()), "freei": fi, "freeb": fb, "last": last})
	// what a failed request must leave as it was: the logical disk and the allocators (FsStruct's Frame). Which inodes are
	// cached is not part of it: a lookup fills the cache, an abort may drop what it touched.
	frame := func() string {
		sn := TakeSnap(s, "run", true)
		sn.Icache = nil
		return hashOf(sn)
	}
	fail := func(proc, dir, name string) {
		b0, i0 := s.Free()
		h0 := frame()
		c := mkc(proc, dir, name)
		s.WaitIdle()
		b1, i1 := s.Free()
		h1 := frame()
		t.Emit(map[string]interface{}{"ev": "exhfail", "proc": proc, "st": c.St, "code": c.Code, "same": h0 == h1,
			"freei0": i0, "freei1": i1, "freeb0": b0, "freeb1": b1})
	}
	for _, pr := range []string{"CREATE", "MKDIR", "SYMLINK"} {
		fail(pr, root, "one-more")
		fail(pr, sub.RFh, "one-more")
	}
	// give one number back: it must be usable again, and only it
	r := mkc("REMOVE", root, "f00007")
	s.WaitIdle()
	_, fi = s.Free()
	t.Emit(map[string]interface{}{"ev": "exhfree", "st": r.St, "freei": fi})
	c := mkc("MKDIR", root, "again")
	_, fi = s.Free()
	l1 := mkc("LOOKUP", root, "f00007")
	l2 := mkc("LOOKUP", root, "again")
	t.Emit(map[string]interface{}{"ev": "exhcreate", "st": c.St, "freei": fi, "oldname": l1.St, "newname": l2.St, "newtype": l2.RType})
	fail("CREATE", root, "one-more")
	// restart: the allocator is rebuilt from the bitmap
	b0, i0 := s.Free()
	s.WaitIdle()
	s.Shutdown()
	s, err = Start(d, true)
	if err != nil {
		t.Emit(map[string]interface{}{"ev": "fatal", "what": err.Error()})
		return seg
	}
	b1, i1 := s.Free()
	t.Emit(map[string]interface{}{"ev": "exhrestart", "freei0": i0, "freei1": i1, "freeb0": b0, "freeb1": b1})
	fail("SYMLINK", root, "one-more")
	// remove a few hundred: exactly that many numbers come back
	rem := 0
	for i := 100; i < 400; i++ {
		if i%5 == 0 {
			continue
		}
		if mkc("REMOVE", root, fmt.Sprintf("f%05d", i)).St == "OK" {
			rem++
		}
	}
	s.WaitIdle()
	_, fi = s.Free()
	t.Emit(map[string]interface{}{"ev": "exhremoved", "removed": rem, "freei": fi})
	s.Shutdown()
	return seg
}
