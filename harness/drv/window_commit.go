package drv

import (
	"fmt"
	"strings"
	"sync"
	"sync/atomic"
	"time"

	"verif/harness/vdisk"
)

// Fourth family of directed schedules: commit windows. A victim RPC is held inside its commit (at the "precommit" or
// the "committed" hook event, i.e. around the journal append / flush and before its locks are released) while an
// intruder completes RPCs on OTHER inodes; then the victim resumes, a few follow-up calls run, and the server is
// CRASHED (no shutdown): the recovered tree must be one the durability model allows for some linearization of the
// history (NfsLin.FinalCrash: the durable state or a later acknowledged-unstable prefix of the state reached).
// This is where per-server bookkeeping shared by concurrent commits (flush flags, bitmap bytes, allocators) races.

type cwExp struct {
	victim string   // COMMITF | WRITEF2 (FILE_SYNC) | WRITEF0 (UNSTABLE) | CREATE | SETATTRF | REMOVEX
	hold   string   // precommit | committed
	intr   []string // WG0 (UNSTABLE write g) | WG2 | COMMITG | CREATEK | WK0
	after  []string // COMMITG | COMMITF | none
	full   bool     // the disk is filled completely first: what the victim frees is all there is to allocate
	many   bool     // 130 more files exist: the intruder can push every inode out of the inode cache (EVICT)
}

func commitWindowExps() []cwExp {
	var out []cwExp
	for _, v := range []string{"COMMITF", "WRITEF2", "WRITEF0", "CREATE", "SETATTRF", "REMOVEX"} {
		for _, h := range []string{"precommit", "committed"} {
			out = append(out,
				cwExp{v, h, []string{"WG0"}, []string{"COMMITG"}, false, false},
				cwExp{v, h, []string{"WG0"}, nil, false, false},
				cwExp{v, h, []string{"WG0", "COMMITG"}, nil, false, false},
				cwExp{v, h, []string{"WG2"}, nil, false, false},
				cwExp{v, h, []string{"WG0", "WG0b"}, []string{"COMMITG"}, false, false},
				cwExp{v, h, []string{"WG0"}, []string{"COMMITF"}, false, false},
			)
		}
	}
	// a request the journal refuses as too large, inside another request's commit (flush positions, shared commit state)
	for _, v := range []string{"COMMITF", "WRITEF2", "WRITEF1", "CREATE", "SETATTRF", "REMOVEX"} {
		for _, h := range []string{"precommit", "committed"} {
			out = append(out, cwExp{v, h, []string{"BIGSYM"}, nil, false, false}, cwExp{v, h, []string{"WG0", "BIGSYM"}, []string{"COMMITG"}, false, false})
		}
	}
	// the victim waits for its first inode lock ("want") while the intruder uses more inodes than the inode cache holds and
	// changes the victim's file: whatever the victim looked up before it got the lock is stale by then
	for _, v := range []string{"WRITEF2", "WRITEF0", "SETATTRF", "COMMITF"} {
		out = append(out,
			cwExp{v, "want", []string{"EVICT", "TRUNCF0"}, []string{"RF"}, false, true},
			cwExp{v, "want", []string{"TRUNCF0", "EVICT"}, []string{"RF"}, false, true},
			cwExp{v, "want", []string{"EVICT", "WF2b", "EVICT"}, []string{"RF"}, false, true},
		)
	}
	// the victim misses in the inode cache (the server was restarted) and is held between reading its inode from the disk
	// and putting it into its cache slot, while the intruder pushes everything - that slot too - out of the cache
	for _, v := range []string{"GETATTRF", "WRITEF2", "SETATTRF"} {
		out = append(out,
			cwExp{v, "inoread", []string{"EVICT"}, []string{"CHECKALL"}, false, true},
			cwExp{v, "inoread", []string{"EVICT", "EVICT"}, []string{"RF", "CHECKALL"}, false, true},
		)
	}
	// LOOKUP of ".." gives up the directory's lock to take both locks in order: the directory is removed and pushed out of
	// the inode cache before the victim gets its second lock; the removed directory's handle must be dead afterwards
	for _, in := range [][]string{{"RMDIRE", "EVICT"}, {"EVICT", "RMDIRE", "EVICT"}, {"RMDIRE"}} {
		out = append(out, cwExp{"LOOKUPE", "want2", in, []string{"GETATTRE", "LOOKUPE2"}, false, true})
	}
	// full disk: the victim frees blocks, the intruder needs blocks while the victim is inside its commit
	for _, v := range []string{"REMOVEB", "TRUNCB", "RENOVB"} {
		for _, h := range []string{"precommit", "committed"} {
			out = append(out,
				cwExp{v, h, []string{"WG2"}, []string{"RG"}, true, false},
				cwExp{v, h, []string{"WG2", "RG"}, []string{"RG"}, true, false},
				cwExp{v, h, []string{"WG0", "COMMITG"}, []string{"RG"}, true, false},
				cwExp{v, h, []string{"CREATEK", "WG2"}, []string{"RG"}, true, false},
			)
		}
	}
	return out
}

func RunCommitWindows(part, parts int, t *Trace, seg int) int {
	for k, e := range commitWindowExps() {
		if parts > 1 && k%parts != part {
			continue
		}
		seg = runCommitWindow(k, e, t, seg)
	}
	return seg
}

// holdVictim keeps the victim where it is until the intruder is done (resume is closed) - or, under the race detector,
// for a fixed time, so that no synchronisation of the harness orders the intruder's accesses before the victim's.
func holdVictim(resume chan struct{}) {
	if RaceBuild {
		time.Sleep(700 * time.Millisecond)
		return
	}
	select {
	case <-resume:
	case <-time.After(30 * time.Second):
	}
}

func runCommitWindow(k int, e cwExp, t *Trace, seg int) int {
	dsz := uint64(8000)
	if e.full {
		dsz = 1800
	}
	d := vdisk.New(dsz)
	s, err := Start(d, true)
	if err != nil {
		panic(err)
	}
	root := RootFh()
	t.Emit(Reset{Ev: "reset", Seg: seg, Driver: "window-commit", Seed: k, DiskSz: int(dsz), Unstable: true, Root: root})
	seg++
	var seq int64
	idx := 0
	var mu sync.Mutex
	var hist []HEv
	var victimG int64
	var fired int32
	inWin := make(chan struct{}, 1)
	resume := make(chan struct{})
	holdEv, holdN := e.hold, int32(1)
	if e.hold == "want2" { // the victim's second lock request: it has looked something up under its first lock already
		holdEv, holdN = "want", 2
	}
	var nhold int32
	Mon.Yield = func(ev string) {
		if ev == holdEv && goid() == atomic.LoadInt64(&victimG) && atomic.AddInt32(&nhold, 1) == holdN && atomic.CompareAndSwapInt32(&fired, 0, 1) {
			inWin <- struct{}{}
			holdVictim(resume)
		}
	}
	defer func() { Mon.Yield = nil }()
	do := func(cl int, c *Call) *Call {
		c.I = idx
		idx++
		c.Cl = cl
		c.NLen, c.NLen2 = len(c.Name), len(c.Name2)
		if e.full {
			c.FreeB, c.FreeI = s.Free() // on a full disk a request may be refused for lack of space
		}
		a := atomic.AddInt64(&seq, 1)
		done := make(chan struct{})
		go func() { defer close(done); c.ExecRaw(s.API) }()
		select {
		case <-done:
		case <-time.After(15 * time.Second):
			cc := *c
			cc.St, cc.Wedge = "TIMEOUT", wedgeKind()
			c = &cc
		}
		b := atomic.AddInt64(&seq, 1)
		mu.Lock()
		hist = append(hist, HEv{Ev: "inv", Seq: a, Cl: cl, Call: c},
			HEv{Ev: "ret", Seq: b, Cl: cl, Call: &Call{I: c.I, Data: []Run{}, RData: []Run{}, Ents: []Ent{}, Leaked: []int{}}})
		mu.Unlock()
		return c
	}
	mk := func(cl int, proc, dir, name string) *Call {
		c := NewCall(proc)
		c.Fh, c.Name = dir, name
		return do(cl, c)
	}
	wr := func(cl int, fh string, off, n, val, stable int) *Call {
		c := NewCall("WRITE")
		c.Fh, c.Off, c.Cnt, c.DLen, c.Data, c.Stable = fh, off, n, n, []Run{{n, val}}, stable
		return do(cl, c)
	}
	commit := func(cl int, fh string) *Call {
		c := NewCall("COMMIT")
		c.Fh = fh
		return do(cl, c)
	}
	l := NewCall("FSINFO")
	l.Fh = root
	do(0, l)
	pc := NewCall("PATHCONF")
	pc.Fh = root
	do(0, pc)
	dd := mk(0, "MKDIR", root, "d").RFh
	fhF := mk(0, "CREATE", root, "f").RFh
	fhG := mk(0, "CREATE", dd, "g").RFh
	fhK := mk(0, "CREATE", dd, "k").RFh
	mk(0, "CREATE", root, "x")
	wr(0, fhF, 0, 3000, 40, 2)
	wr(0, fhF, 3000, 3000, 41, 0) // an unstable write is outstanding when the victim starts
	var manyFhs []string
	fhE := ""
	if e.many {
		fhE = mk(0, "MKDIR", root, "e").RFh
		for i := 0; i < 130; i++ {
			manyFhs = append(manyFhs, mk(0, "CREATE", dd, fmt.Sprintf("m%d", i)).RFh)
		}
	}
	if e.full {
		fhB := mk(0, "CREATE", root, "b").RFh
		wr(0, fhB, 0, 3*4096, 43, 2)
		fill := mk(0, "CREATE", dd, "filler").RFh
		off := 0
		for _, chunk := range []int{100 * 4096, 4096} {
			for {
				c := wr(0, fill, off, chunk, 44, 2)
				if c.St != "OK" || c.RCount == 0 {
					break
				}
				off += c.RCount
			}
		}
		_ = fhB
	}
	if e.hold == "inoread" {
		// cold caches: restart (everything so far was acknowledged stable, except f's last UNSTABLE write: commit it first)
		commit(0, fhF)
		s.WaitIdle()
		s.Shutdown()
		s2, err := Start(d, true)
		if err != nil {
			panic(err)
		}
		s = s2
		mu.Lock()
		hist = append(hist, HEv{Ev: "restart", Seq: atomic.AddInt64(&seq, 1)})
		mu.Unlock()
		sup := s.N.VerifState().Super
		lo, hi := uint64(sup.InodeStart()), uint64(sup.DataStart())
		d.Yield = func(kind string, a uint64) {
			if kind == "read" && a >= lo && a < hi && goid() == atomic.LoadInt64(&victimG) && atomic.CompareAndSwapInt32(&fired, 0, 1) {
				inWin <- struct{}{}
				holdVictim(resume)
			}
		}
		defer func() { d.Yield = nil }()
	}
	// victim
	var v *Call
	switch e.victim {
	case "GETATTRF":
		v = NewCall("GETATTR")
		v.Fh = fhF
	case "COMMITF":
		v = NewCall("COMMIT")
		v.Fh = fhF
	case "WRITEF2", "WRITEF1", "WRITEF0":
		v = NewCall("WRITE")
		st := 2
		if e.victim == "WRITEF0" {
			st = 0
		}
		if e.victim == "WRITEF1" { // DATA_SYNC
			st = 1
		}
		v.Fh, v.Off, v.Cnt, v.DLen, v.Data, v.Stable = fhF, 100, 5000, 5000, []Run{{5000, 42}}, st
	case "CREATE":
		v = NewCall("CREATE")
		v.Fh, v.Name, v.NLen = root, "h", 1
	case "SETATTRF":
		v = NewCall("SETATTR")
		v.Fh, v.SetSize, v.Size = fhF, true, 1000
	case "LOOKUPE":
		v = NewCall("LOOKUP")
		v.Fh, v.Name, v.NLen = fhE, "..", 2
	case "REMOVEB":
		v = NewCall("REMOVE")
		v.Fh, v.Name, v.NLen = root, "b", 1
	case "TRUNCB":
		lb := mk(0, "LOOKUP", root, "b")
		v = NewCall("SETATTR")
		v.Fh, v.SetSize, v.Size = lb.RFh, true, 0
	case "RENOVB":
		v = NewCall("RENAME")
		v.Fh, v.Name, v.NLen, v.Fh2, v.Name2, v.NLen2 = root, "x", 1, root, "b", 1
	default:
		v = NewCall("REMOVE")
		v.Fh, v.Name, v.NLen = root, "x", 1
	}
	if e.full {
		v.FreeB, v.FreeI = s.Free()
	}
	v.Cl, v.I = 1, 1000
	vdone := make(chan struct{})
	va := atomic.AddInt64(&seq, 1)
	go func() {
		defer close(vdone)
		atomic.StoreInt64(&victimG, goid())
		v.ExecRaw(s.API)
	}()
	window := false
	select {
	case <-inWin:
		window = true
	case <-vdone:
	case <-time.After(10 * time.Second):
	}
	step := func(cl int, what string) {
		switch what {
		case "WG0":
			wr(cl, fhG, 0, 5000, 50, 0)
		case "WG0b":
			wr(cl, fhG, 5000, 4096, 51, 0)
		case "WG2":
			wr(cl, fhG, 0, 5000, 52, 2)
		case "WK0":
			wr(cl, fhK, 0, 100, 53, 0)
		case "COMMITG":
			commit(cl, fhG)
		case "COMMITF":
			commit(cl, fhF)
		case "CREATEK":
			mk(cl, "CREATE", dd, "k2")
		case "RMDIRE":
			mk(cl, "RMDIR", root, "e")
		case "GETATTRE":
			c := NewCall("GETATTR")
			c.Fh = fhE
			do(cl, c)
		case "LOOKUPE2":
			c := NewCall("LOOKUP")
			c.Fh, c.Name = fhE, "."
			do(cl, c)
		case "EVICT":
			for _, h := range manyFhs {
				c := NewCall("GETATTR")
				c.Fh = h
				do(cl, c)
			}
		case "TRUNCF0":
			c := NewCall("SETATTR")
			c.Fh, c.SetSize, c.Size = fhF, true, 0
			do(cl, c)
		case "WF2b":
			wr(cl, fhF, 8192, 4096, 54, 2)
		case "CHECKALL":
			// newest first: what is still in the cache is looked at before this walk pushes it out
			var hs []string
			for i := len(manyFhs) - 1; i >= 0; i-- {
				hs = append(hs, manyFhs[i])
			}
			for _, h := range append(hs, fhF, fhG, fhK) {
				c := NewCall("GETATTR")
				c.Fh = h
				do(cl, c)
			}
		case "RF":
			c := NewCall("READ")
			c.Fh, c.Off, c.Cnt = fhF, 0, 16384
			do(cl, c)
		case "RG":
			c := NewCall("READ")
			c.Fh, c.Off, c.Cnt = fhG, 0, 8192
			do(cl, c)
		case "BIGSYM": // refused by the journal: larger than one transaction
			c := NewCall("SYMLINK")
			c.Fh, c.Name, c.Target, c.TLen = dd, "huge", strings.Repeat("t", 2200000), 2200000
			do(cl, c)
		}
	}
	if window {
		for _, w := range e.intr {
			step(2, w)
		}
		close(resume)
	}
	wedged := false
	select {
	case <-vdone:
	case <-time.After(20 * time.Second):
		vv := *v
		vv.St, vv.Wedge = "TIMEOUT", wedgeKind()
		v = &vv
		wedged = true
	}
	vb := atomic.AddInt64(&seq, 1)
	mu.Lock()
	hist = append(hist, HEv{Ev: "inv", Seq: va, Cl: 1, Call: v},
		HEv{Ev: "ret", Seq: vb, Cl: 1, Call: &Call{I: v.I, Data: []Run{}, RData: []Run{}, Ents: []Ent{}, Leaked: []int{}}})
	mu.Unlock()
	if !wedged && v.St != "PANIC" {
		for _, w := range e.after {
			step(2, w)
		}
	}
	sortHist(hist)
	for _, h := range hist {
		t.Emit(h)
	}
	for _, h := range hist {
		if h.Ev == "inv" && (h.Call.St == "TIMEOUT" || h.Call.St == "PANIC") {
			wedged = true
		}
	}
	if wedged {
		Mon.Reset()
		return seg
	}
	// crash: the disk as it is now (everything written so far reached it), no shutdown, no flush
	img := d.Clone()
	ok, errs, dump, snap := recoverOn(img, true, Extents{})
	t.Emit(map[string]interface{}{"ev": "crashfinal", "ok": ok, "err": errs, "dump": dump})
	if ok {
		t.Emit(snap) // the structure of the recovered image: bitmaps rebuilt from disk must agree with what is owned
	}
	func() {
		defer func() { recover() }()
		s.Shutdown()
	}()
	return seg
}
