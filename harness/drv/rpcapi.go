package drv

import (
	"fmt"
	"net"
	"sync"

	"github.com/zeldovich/go-rpcgen/rfc1057"
	"github.com/zeldovich/go-rpcgen/xdr"

	"github.com/mit-pdos/go-nfsd/nfstypes"
)

// RpcAPI puts the repository's own RPC path in front of a server: every call is XDR-encoded by nfstypes, framed as
// an ONC RPC record (rfc1057 client), sent over an in-process pipe, dispatched by the rfc1057 server through the
// registration tables nfstypes generates (the same RegisterMany calls as cmd/go-nfsd), decoded, handled, and the
// reply comes back the same way. A run through it is validated against the same reference as direct calls.
//
// A handler panic would kill the process (the RPC server runs handlers in goroutines without recover): each
// registered handler is wrapped so that the panic is reported to the calling client goroutine instead, where
// Call.ExecRaw records it as "no reply".
type RpcAPI struct {
	mu    sync.Mutex
	nfs   *rfc1057.Client
	mnt   *rfc1057.Client
	pmu   sync.Mutex
	pval  interface{}
	none  rfc1057.Opaque_auth
	close func()
}

type rpcTarget interface {
	nfstypes.NFS_PROGRAM_NFS_V3_handler
	nfstypes.MOUNT_PROGRAM_MOUNT_V3_handler
}

func NewRpcAPI(target rpcTarget) *RpcAPI {
	r := &RpcAPI{}
	r.none.Flavor = rfc1057.AUTH_NONE
	wrap := func(regs []xdr.ProcRegistration) []xdr.ProcRegistration {
		for i := range regs {
			h := regs[i].Handler
			regs[i].Handler = func(a *xdr.XdrState) (res xdr.Xdrable, err error) {
				defer func() {
					if p := recover(); p != nil {
						r.pmu.Lock()
						r.pval = p
						r.pmu.Unlock()
						res, err = nil, fmt.Errorf("handler panic: %v", p)
					}
				}()
				return h(a)
			}
		}
		return regs
	}
	srv := rfc1057.MakeServer()
	srv.RegisterMany(wrap(nfstypes.MOUNT_PROGRAM_MOUNT_V3_regs(target)))
	srv.RegisterMany(wrap(nfstypes.NFS_PROGRAM_NFS_V3_regs(target)))
	c1, s1 := net.Pipe()
	c2, s2 := net.Pipe()
	go srv.Run(s1)
	go srv.Run(s2)
	r.nfs = rfc1057.MakeClient(c1, nfstypes.NFS_PROGRAM, nfstypes.NFS_V3)
	r.mnt = rfc1057.MakeClient(c2, nfstypes.MOUNT_PROGRAM, nfstypes.MOUNT_V3)
	r.close = func() { c1.Close(); c2.Close(); s1.Close(); s2.Close() }
	return r
}

func (r *RpcAPI) Close() { r.close() }

func (r *RpcAPI) call(cl *rfc1057.Client, proc uint32, args, res xdr.Xdrable) {
	r.mu.Lock()
	err := cl.Call(proc, r.none, r.none, args, res)
	r.mu.Unlock()
	if err != nil {
		r.pmu.Lock()
		p := r.pval
		r.pval = nil
		r.pmu.Unlock()
		if p != nil {
			panic(p)
		}
		// the message could not be encoded (e.g. a handle longer than NFS3_FHSIZE) or the server answered with an RPC-level
		// error (GARBAGE_ARGS...): the request was refused without reaching a handler
		panic(RpcRefused{err.Error()})
	}
}

// RpcRefused is what a call through RpcAPI panics with when the RPC layer itself refused the request.
type RpcRefused struct{ Msg string }

func (r *RpcAPI) NFSPROC3_NULL() {
	var a, res xdr.Void
	r.call(r.nfs, nfstypes.NFSPROC3_NULL, &a, &res)
}
func (r *RpcAPI) NFSPROC3_GETATTR(a nfstypes.GETATTR3args) (res nfstypes.GETATTR3res) {
	r.call(r.nfs, nfstypes.NFSPROC3_GETATTR, &a, &res)
	return
}
func (r *RpcAPI) NFSPROC3_SETATTR(a nfstypes.SETATTR3args) (res nfstypes.SETATTR3res) {
	r.call(r.nfs, nfstypes.NFSPROC3_SETATTR, &a, &res)
	return
}
func (r *RpcAPI) NFSPROC3_LOOKUP(a nfstypes.LOOKUP3args) (res nfstypes.LOOKUP3res) {
	r.call(r.nfs, nfstypes.NFSPROC3_LOOKUP, &a, &res)
	return
}
func (r *RpcAPI) NFSPROC3_ACCESS(a nfstypes.ACCESS3args) (res nfstypes.ACCESS3res) {
	r.call(r.nfs, nfstypes.NFSPROC3_ACCESS, &a, &res)
	return
}
func (r *RpcAPI) NFSPROC3_READLINK(a nfstypes.READLINK3args) (res nfstypes.READLINK3res) {
	r.call(r.nfs, nfstypes.NFSPROC3_READLINK, &a, &res)
	return
}
func (r *RpcAPI) NFSPROC3_READ(a nfstypes.READ3args) (res nfstypes.READ3res) {
	r.call(r.nfs, nfstypes.NFSPROC3_READ, &a, &res)
	return
}
func (r *RpcAPI) NFSPROC3_WRITE(a nfstypes.WRITE3args) (res nfstypes.WRITE3res) {
	r.call(r.nfs, nfstypes.NFSPROC3_WRITE, &a, &res)
	return
}
func (r *RpcAPI) NFSPROC3_CREATE(a nfstypes.CREATE3args) (res nfstypes.CREATE3res) {
	r.call(r.nfs, nfstypes.NFSPROC3_CREATE, &a, &res)
	return
}
func (r *RpcAPI) NFSPROC3_MKDIR(a nfstypes.MKDIR3args) (res nfstypes.MKDIR3res) {
	r.call(r.nfs, nfstypes.NFSPROC3_MKDIR, &a, &res)
	return
}
func (r *RpcAPI) NFSPROC3_SYMLINK(a nfstypes.SYMLINK3args) (res nfstypes.SYMLINK3res) {
	r.call(r.nfs, nfstypes.NFSPROC3_SYMLINK, &a, &res)
	return
}
func (r *RpcAPI) NFSPROC3_MKNOD(a nfstypes.MKNOD3args) (res nfstypes.MKNOD3res) {
	r.call(r.nfs, nfstypes.NFSPROC3_MKNOD, &a, &res)
	return
}
func (r *RpcAPI) NFSPROC3_REMOVE(a nfstypes.REMOVE3args) (res nfstypes.REMOVE3res) {
	r.call(r.nfs, nfstypes.NFSPROC3_REMOVE, &a, &res)
	return
}
func (r *RpcAPI) NFSPROC3_RMDIR(a nfstypes.RMDIR3args) (res nfstypes.RMDIR3res) {
	r.call(r.nfs, nfstypes.NFSPROC3_RMDIR, &a, &res)
	return
}
func (r *RpcAPI) NFSPROC3_RENAME(a nfstypes.RENAME3args) (res nfstypes.RENAME3res) {
	r.call(r.nfs, nfstypes.NFSPROC3_RENAME, &a, &res)
	return
}
func (r *RpcAPI) NFSPROC3_LINK(a nfstypes.LINK3args) (res nfstypes.LINK3res) {
	r.call(r.nfs, nfstypes.NFSPROC3_LINK, &a, &res)
	return
}
func (r *RpcAPI) NFSPROC3_READDIR(a nfstypes.READDIR3args) (res nfstypes.READDIR3res) {
	r.call(r.nfs, nfstypes.NFSPROC3_READDIR, &a, &res)
	return
}
func (r *RpcAPI) NFSPROC3_READDIRPLUS(a nfstypes.READDIRPLUS3args) (res nfstypes.READDIRPLUS3res) {
	r.call(r.nfs, nfstypes.NFSPROC3_READDIRPLUS, &a, &res)
	return
}
func (r *RpcAPI) NFSPROC3_FSSTAT(a nfstypes.FSSTAT3args) (res nfstypes.FSSTAT3res) {
	r.call(r.nfs, nfstypes.NFSPROC3_FSSTAT, &a, &res)
	return
}
func (r *RpcAPI) NFSPROC3_FSINFO(a nfstypes.FSINFO3args) (res nfstypes.FSINFO3res) {
	r.call(r.nfs, nfstypes.NFSPROC3_FSINFO, &a, &res)
	return
}
func (r *RpcAPI) NFSPROC3_PATHCONF(a nfstypes.PATHCONF3args) (res nfstypes.PATHCONF3res) {
	r.call(r.nfs, nfstypes.NFSPROC3_PATHCONF, &a, &res)
	return
}
func (r *RpcAPI) NFSPROC3_COMMIT(a nfstypes.COMMIT3args) (res nfstypes.COMMIT3res) {
	r.call(r.nfs, nfstypes.NFSPROC3_COMMIT, &a, &res)
	return
}

func (r *RpcAPI) MOUNTPROC3_NULL() {
	var a, res xdr.Void
	r.call(r.mnt, nfstypes.MOUNTPROC3_NULL, &a, &res)
}
func (r *RpcAPI) MOUNTPROC3_MNT(a nfstypes.Dirpath3) (res nfstypes.Mountres3) {
	r.call(r.mnt, nfstypes.MOUNTPROC3_MNT, &a, &res)
	return
}
func (r *RpcAPI) MOUNTPROC3_DUMP() (res nfstypes.Mountopt3) {
	var a xdr.Void
	r.call(r.mnt, nfstypes.MOUNTPROC3_DUMP, &a, &res)
	return
}
func (r *RpcAPI) MOUNTPROC3_UMNT(a nfstypes.Dirpath3) {
	var res xdr.Void
	r.call(r.mnt, nfstypes.MOUNTPROC3_UMNT, &a, &res)
}
func (r *RpcAPI) MOUNTPROC3_UMNTALL() {
	var a, res xdr.Void
	r.call(r.mnt, nfstypes.MOUNTPROC3_UMNTALL, &a, &res)
}
func (r *RpcAPI) MOUNTPROC3_EXPORT() (res nfstypes.Exportsopt3) {
	var a xdr.Void
	r.call(r.mnt, nfstypes.MOUNTPROC3_EXPORT, &a, &res)
	return
}

// UseTransport makes Start put the RPC path in front of every server instance it creates.
var UseTransport bool
