package drv

import (
	"fmt"
	"math/rand"
	"strings"

	"verif/harness/vdisk"
)

// gobj is the generator's best-effort view of an object (never an oracle).
type gobj struct {
	fh     string
	kind   int // 1 REG 2 DIR 5 LNK
	parent *gobj
	name   string
	alive  bool
	big    bool // may be huge/sparse
}

// SeqCfg configures one sequential run.
type SeqCfg struct {
	Seed      int
	Steps     int
	DiskSz    uint64
	Unstable  bool
	Profile   string          // mix | data | names | dirs | stale | limits | recycle | full
	Avoid     map[string]bool // generator filters for known findings
	DumpEach  int             // dump every n steps (0 = only at restarts/end)
	Restarts  bool
	Snap      func(s *Srv, t *Trace, tag string) // optional structural snapshot hook
	SnapEach  int
	DeleteAll bool // finish by deleting everything and comparing the free counts with those after mkfs
}

type seqGen struct {
	cfg   SeqCfg
	r     *rand.Rand
	s     *Srv
	t     *Trace
	root  *gobj
	objs  []*gobj
	dead  []*gobj
	i     int
	tag   int
	wtmax int
	maxfs int
	nmax  int
	fb0   int
	fi0   int
	enumC map[string][]int // cookies returned per dir fh
	ext   Extents
	mark  bool    // put invoke/return markers into the disk event stream
	calls []*Call // every call issued (crash engine)
}

func (g *seqGen) nextTag() int {
	g.tag++
	if g.tag%256 == 0 {
		g.tag++
	}
	return g.tag % 256
}

func (g *seqGen) emit(c *Call) *Call {
	c.I = g.i
	g.i++
	if g.mark {
		g.s.D.Mark("inv", c.I)
	}
	c = g.s.Do(c)
	if g.mark {
		g.s.D.Mark("ret", c.I)
		g.calls = append(g.calls, c)
	}
	g.t.Emit(c)
	return c
}

func (g *seqGen) pick(kind int) *gobj {
	var c []*gobj
	for _, o := range g.objs {
		if o.alive && (kind == 0 || o.kind == kind) {
			c = append(c, o)
		}
	}
	if len(c) == 0 {
		return nil
	}
	return c[g.r.Intn(len(c))]
}

func (g *seqGen) pickDir() *gobj {
	if g.r.Intn(3) == 0 {
		return g.root
	}
	if d := g.pick(2); d != nil {
		return d
	}
	return g.root
}

// anyHandle returns a handle for an argument position: mostly live, sometimes dead or garbage.
func (g *seqGen) anyHandle(kind int) string {
	p := g.r.Intn(100)
	staleP := 6
	if g.cfg.Profile == "stale" {
		staleP = 45
	}
	if p < staleP && len(g.dead) > 0 {
		return g.dead[g.r.Intn(len(g.dead))].fh
	}
	if p < staleP+2 {
		// never-issued but well-formed 16-byte handle with a plausible inum
		return fmt.Sprintf("%016x%016x", swap64(uint64(2+g.r.Intn(40))), swap64(uint64(900+g.r.Intn(5))))
	}
	if p < staleP+10 || kind == 0 {
		if o := g.pick(0); o != nil {
			return o.fh
		}
	}
	if o := g.pick(kind); o != nil {
		return o.fh
	}
	return g.root.fh
}

func swap64(v uint64) uint64 { // little-endian bytes rendered as hex
	var r uint64
	for i := 0; i < 8; i++ {
		r = r<<8 | (v>>(8*uint(i)))&0xff
	}
	return r
}

var baseNames = []string{"a", "b", "c", "d", "e", "f", "g", "x1", "x2", "file-with-longer-name"}

func (g *seqGen) name() string {
	p := g.r.Intn(100)
	if g.cfg.Profile == "many" && p < 75 {
		return fmt.Sprintf("m%d", g.r.Intn(400))
	}
	if g.cfg.Profile == "limits" && p < 60 {
		n := g.nmax + []int{-2, -1, 0, 0, 1, 2, 143}[g.r.Intn(7)]
		if n < 1 {
			n = 1
		}
		if g.r.Intn(4) == 0 && n > 4 { // the limit counts bytes: a name of two-byte characters has half as many characters
			body := strings.Repeat("\u00e9", (n-2)/2)
			if (n-2)%2 == 1 {
				body += "n"
			}
			return fmt.Sprintf("%02d", g.r.Intn(30)) + body
		}
		return fmt.Sprintf("%02d", g.r.Intn(30)) + strings.Repeat("n", n-2)
	}
	if g.cfg.Profile == "longnames" && p < 85 {
		n := []int{100, 105, 111, 112, 112}[g.r.Intn(5)]
		if g.cfg.Avoid["name-at-max"] && n >= g.nmax {
			n = g.nmax - 1
		}
		return fmt.Sprintf("L%03d", g.r.Intn(150)) + strings.Repeat("x", n-4)
	}
	switch {
	case p < 70:
		return baseNames[g.r.Intn(len(baseNames))]
	case p < 80:
		return fmt.Sprintf("n%d", g.r.Intn(40))
	case p < 84:
		if g.cfg.Avoid["dot-names"] {
			return "a"
		}
		return []string{".", ".."}[g.r.Intn(2)]
	case p < 86:
		if g.cfg.Avoid["empty-name"] {
			return "b"
		}
		return ""
	case p < 94:
		// around name_max
		n := g.nmax + []int{-2, -1, 0, 1, 2, 30}[g.r.Intn(6)]
		if g.cfg.Avoid["name-at-max"] && n >= g.nmax {
			n = g.nmax - 1
		}
		if g.cfg.Avoid["name-too-long"] && n > g.nmax {
			n = g.nmax - 1
		}
		if n < 1 {
			n = 1
		}
		return strings.Repeat(string(rune('p'+g.r.Intn(3))), n)
	default:
		return fmt.Sprintf("m%d", g.r.Intn(400))
	}
}

func (g *seqGen) existingName(d *gobj) string {
	var c []string
	for _, o := range g.objs {
		if o.alive && o.parent == d {
			c = append(c, o.name)
		}
	}
	if len(c) == 0 || g.r.Intn(8) == 0 {
		return g.name()
	}
	return c[g.r.Intn(len(c))]
}

func (g *seqGen) offset(big bool) (int, bool, uint64) {
	const B = 4096
	if g.cfg.Profile == "crashbig" && g.r.Intn(3) == 0 {
		return []int{100 * B, 200 * B, 250*B + 100}[g.r.Intn(3)], false, 0 // files beyond 511 blocks: truncation goes to the background shrinker
	}
	if g.cfg.Profile == "crash" || g.cfg.Profile == "crashbig" || g.cfg.Profile == "crashun" {
		c := []int{0, 0, 1, 100, B - 1, B, B + 1, 2 * B, 3*B + 5, 7 * B, 8*B - 1, 8 * B, 9 * B, 12*B + 7}
		if g.r.Intn(8) == 0 {
			// sparse and far out: a later truncation frees more than one transaction holds and goes to the background shrinker
			return []int{530 * B, 540*B + 5}[g.r.Intn(2)], false, 0
		}
		return c[g.r.Intn(len(c))], false, 0
	}
	bounds := []int{0, 1, 100, B - 1, B, B + 1, 2 * B, 7*B + 5, 8*B - 1, 8 * B, 8*B + 1, 9 * B, 100 * B, 519*B + 7, 520*B - 1, 520 * B, 520*B + 1, 521 * B, 1032 * B, 1033*B + 9}
	p := g.r.Intn(100)
	switch {
	case p < 45:
		return g.r.Intn(3 * B), false, 0
	case p < 80:
		return bounds[g.r.Intn(len(bounds))], false, 0
	case p < 90 && big:
		c := []int{g.maxfs - 1, g.maxfs, g.maxfs - B, g.maxfs - B - 1, g.maxfs/2 + 3, (8+512+512*7)*B + 1, g.maxfs + 1, g.maxfs + B}
		return c[g.r.Intn(len(c))], false, 0
	case p < 93 && big && !g.cfg.Avoid["huge-offset"]:
		raws := []uint64{1<<64 - 1, 1<<64 - 10, 1<<63 + 5, 1 << 40, 1<<32 + 17}
		return HUGE, true, raws[g.r.Intn(len(raws))]
	default:
		return g.r.Intn(600 * B), false, 0
	}
}

func (g *seqGen) count() int {
	const B = 4096
	if g.cfg.Profile == "limits" && g.r.Intn(3) == 0 {
		return g.wtmax + []int{-4096, -4095, -1, 0, 1, 4096, 16 * 4096}[g.r.Intn(7)]
	}
	if g.cfg.Profile == "crash" || g.cfg.Profile == "crashun" {
		return []int{0, 1, 100, B - 1, B, B + 1, 2 * B, 3*B + 11, 5 * B}[g.r.Intn(9)]
	}
	if g.cfg.Profile == "crashbig" {
		if g.r.Intn(6) == 0 {
			return []int{300 * B, 480 * B, 490*B + 3}[g.r.Intn(3)]
		}
		return []int{1, 100, B, B + 1, 3*B + 11, 20 * B}[g.r.Intn(6)]
	}
	if g.cfg.Profile == "full" && g.r.Intn(2) == 0 {
		return []int{40 * B, 100 * B, 300 * B, 64*B + 1, 200*B - 7}[g.r.Intn(5)]
	}
	c := []int{0, 1, 7, 100, B - 1, B, B + 1, 2 * B, 3*B + 11, 8 * B, 9*B + 1, 16 * B, 40 * B}
	if g.r.Intn(3) == 0 {
		return g.r.Intn(2 * B)
	}
	return c[g.r.Intn(len(c))]
}

func (g *seqGen) payload(n int) []Run {
	if n == 0 {
		return []Run{}
	}
	const B = 4096
	if g.r.Intn(3) == 0 && n > B {
		// a different tag per 4 KiB chunk, so that mis-ordered blocks are visible
		r := []Run{}
		for left := n; left > 0; {
			k := B
			if left < k {
				k = left
			}
			r = append(r, Run{k, g.nextTag()})
			left -= k
		}
		return r
	}
	return []Run{{n, g.nextTag()}}
}

func (g *seqGen) kill(o *gobj) {
	if !o.alive {
		return
	}
	o.alive = false
	g.dead = append(g.dead, o)
	for _, c := range g.objs {
		if c.alive && c.parent == o {
			g.kill(c)
		}
	}
}

func (g *seqGen) find(d *gobj, name string) *gobj {
	for _, o := range g.objs {
		if o.alive && o.parent == d && o.name == name {
			return o
		}
	}
	return nil
}

func (g *seqGen) byFh(fh string) *gobj {
	if fh == g.root.fh {
		return g.root
	}
	for _, o := range g.objs {
		if o.fh == fh {
			return o
		}
	}
	return nil
}

func (g *seqGen) limits() {
	c := NewCall("FSINFO")
	c.Fh = g.root.fh
	g.emit(c)
	g.wtmax, g.maxfs = c.Wtmax, c.MaxFs
	c = NewCall("PATHCONF")
	c.Fh = g.root.fh
	g.emit(c)
	g.nmax = c.NameMax
	if g.nmax == 0 {
		g.nmax = 100
	}
}

func (g *seqGen) dump(who string) {
	g.t.Emit(g.mkDump(g.s, who))
}

func (g *seqGen) mkDump(srv *Srv, who string) *Dump {
	DumpTolerantShort = func() bool { fb, _ := srv.Free(); return fb < 64 }
	d := DumpAPIx(srv.API, who, g.ext)
	DumpTolerantShort = nil
	if d.Dead {
		srv.Wedged = true
	}
	return d
}

// step issues one (sometimes a few) RPCs.
func (g *seqGen) step() {
	prof := g.cfg.Profile
	w := map[string]int{"GETATTR": 4, "SETATTR": 6, "LOOKUP": 8, "ACCESS": 1, "READLINK": 2, "READ": 12, "WRITE": 16,
		"CREATE": 10, "MKDIR": 5, "SYMLINK": 3, "REMOVE": 6, "RMDIR": 3, "RENAME": 8, "READDIR": 3, "READDIRPLUS": 3,
		"FSINFO": 1, "PATHCONF": 1, "COMMIT": 3, "MKNOD": 1, "LINK": 1, "FSSTAT": 1, "ENUM": 2}
	switch prof {
	case "data", "recycle":
		w["WRITE"], w["READ"], w["SETATTR"], w["COMMIT"], w["REMOVE"] = 30, 24, 14, 5, 8
		w["MKDIR"], w["RENAME"], w["READDIR"], w["READDIRPLUS"] = 1, 2, 1, 1
	case "names", "dirs":
		w["CREATE"], w["MKDIR"], w["RENAME"], w["REMOVE"], w["RMDIR"], w["LOOKUP"] = 16, 10, 18, 10, 8, 12
		w["WRITE"], w["READ"] = 3, 3
		w["ENUM"], w["READDIR"], w["READDIRPLUS"] = 6, 5, 5
	case "stale":
		w["CREATE"], w["REMOVE"], w["RMDIR"], w["RENAME"] = 14, 14, 6, 10
	case "crashun":
		w["WRITE"], w["COMMIT"], w["CREATE"], w["REMOVE"], w["RENAME"], w["SETATTR"], w["READ"], w["MKDIR"] = 40, 12, 8, 5, 4, 6, 8, 2
		w["GETATTR"], w["LOOKUP"], w["READDIR"], w["READDIRPLUS"], w["ENUM"], w["SYMLINK"] = 2, 2, 0, 0, 0, 1
	case "crash", "crashbig":
		w["WRITE"], w["CREATE"], w["MKDIR"], w["SYMLINK"], w["REMOVE"], w["RMDIR"], w["RENAME"], w["SETATTR"], w["COMMIT"] = 26, 12, 5, 3, 9, 3, 8, 9, 6
		w["READ"], w["GETATTR"], w["LOOKUP"], w["READDIR"], w["READDIRPLUS"], w["ENUM"] = 3, 1, 2, 0, 0, 0
	case "limits":
		w["WRITE"], w["SETATTR"], w["READ"], w["CREATE"], w["MKDIR"], w["SYMLINK"], w["RENAME"], w["REMOVE"], w["LOOKUP"] = 26, 14, 10, 12, 4, 4, 8, 5, 6
	case "longnames":
		w["CREATE"], w["MKDIR"], w["SYMLINK"], w["REMOVE"], w["RENAME"], w["LOOKUP"] = 40, 2, 3, 6, 8, 14
		w["WRITE"], w["READ"], w["SETATTR"] = 3, 2, 1
	case "many":
		w["CREATE"], w["MKDIR"], w["SYMLINK"], w["REMOVE"], w["RENAME"], w["LOOKUP"] = 40, 4, 4, 8, 8, 10
		w["WRITE"], w["READ"], w["SETATTR"] = 4, 3, 1
	case "full":
		w["WRITE"], w["CREATE"], w["MKDIR"], w["SYMLINK"], w["RENAME"], w["SETATTR"] = 30, 14, 8, 6, 10, 4
		w["REMOVE"], w["RMDIR"], w["READ"] = 3, 1, 8
	}
	total := 0
	keys := []string{"GETATTR", "SETATTR", "LOOKUP", "ACCESS", "READLINK", "READ", "WRITE", "CREATE", "MKDIR", "SYMLINK",
		"REMOVE", "RMDIR", "RENAME", "READDIR", "READDIRPLUS", "FSINFO", "PATHCONF", "COMMIT", "MKNOD", "LINK", "FSSTAT", "ENUM"}
	for _, k := range keys {
		total += w[k]
	}
	x := g.r.Intn(total)
	proc := ""
	for _, k := range keys {
		if x < w[k] {
			proc = k
			break
		}
		x -= w[k]
	}
	if proc == "ENUM" {
		g.enumerate()
		return
	}
	c := NewCall(proc)
	switch proc {
	case "GETATTR", "ACCESS", "FSINFO", "PATHCONF", "FSSTAT":
		c.Fh = g.anyHandle(0)
		if (proc == "ACCESS" || proc == "FSINFO" || proc == "PATHCONF") && g.cfg.Avoid["novalidate-handle"] {
			if o := g.pick(0); o != nil {
				c.Fh = o.fh
			} else {
				c.Fh = g.root.fh
			}
		}
	case "READLINK":
		c.Fh = g.anyHandle(5)
	case "SETATTR":
		c.Fh = g.anyHandle(1)
		o := g.byFh(c.Fh)
		if g.r.Intn(10) < 8 {
			c.SetSize = true
			big := g.cfg.Profile != "recycle" && g.r.Intn(4) == 0
			c.Size, c.SizeSat, c.RawSize = g.offset(big)
			if c.Size > g.maxfs && g.cfg.Avoid["setattr-too-big"] {
				c.Size, c.SizeSat = g.maxfs, false
			}
			if o != nil && o.kind != 1 && g.cfg.Avoid["setattr-size-nonreg"] {
				c.SetSize = false
			}
			if o != nil && c.Size > 4<<20 {
				o.big = true
			}
		}
		c.How = g.r.Intn(3)
	case "LOOKUP":
		d := g.pickDir()
		c.Fh = d.fh
		if g.r.Intn(8) == 0 {
			c.Fh = g.anyHandle(2)
		}
		c.Name = g.existingName(d)
		if g.r.Intn(10) == 0 {
			c.Name = []string{".", ".."}[g.r.Intn(2)]
		}
	case "READ":
		c.Fh = g.anyHandle(1)
		o := g.byFh(c.Fh)
		c.Off, c.OffSat, c.RawOff = g.offset(o != nil && o.big && g.r.Intn(3) == 0)
		c.Cnt = g.count()
		if g.r.Intn(6) == 0 {
			c.Cnt = 1 << 20
		}
		if g.cfg.Avoid["read-above-rtmax"] && c.Cnt > 65536 {
			c.Cnt = 65536
		}
	case "WRITE":
		c.Fh = g.anyHandle(1)
		o := g.byFh(c.Fh)
		big := g.cfg.Profile != "recycle" && (g.r.Intn(12) == 0 || (g.cfg.Profile == "limits" && g.r.Intn(3) == 0))
		c.Off, c.OffSat, c.RawOff = g.offset(big)
		c.Cnt = g.count()
		if big && c.Cnt > 8192 {
			c.Cnt = []int{100, 1, 2, 4096, 4097}[g.r.Intn(5)]
		}
		c.Data = g.payload(c.Cnt)
		c.DLen = c.Cnt
		c.Stable = g.r.Intn(3)
		if g.cfg.Profile == "crashun" && g.r.Intn(10) < 7 {
			c.Stable = 0
		}
		if g.r.Intn(40) == 0 && !g.cfg.Avoid["count-mismatch"] {
			// count disagrees with the data supplied
			c.Cnt = c.DLen + []int{1, -1, 4096, 100000}[g.r.Intn(4)]
			if c.Cnt < 0 {
				c.Cnt = 0
			}
		}
		if o != nil && c.Off > 4<<20 {
			o.big = true
		}
	case "COMMIT":
		c.Fh = g.anyHandle(1)
		if g.r.Intn(3) == 0 {
			c.Off, c.Cnt = g.r.Intn(10000), g.r.Intn(10000)
		}
	case "CREATE", "MKDIR", "SYMLINK", "MKNOD":
		d := g.pickDir()
		c.Fh = d.fh
		if g.r.Intn(12) == 0 {
			c.Fh = g.anyHandle(2)
			d = g.byFh(c.Fh)
		}
		c.Name = g.name()
		if proc == "CREATE" {
			c.How = []int{0, 0, 0, 1, 1, 2}[g.r.Intn(6)]
		}
		if proc == "SYMLINK" {
			n := []int{0, 1, 5, 40, 200, 4095, 4096, 5000}[g.r.Intn(8)]
			c.Target = strings.Repeat("t", n)
			if n > 0 {
				c.Target = "/" + c.Target[1:]
			}
			c.TLen = n
		}
	case "REMOVE", "RMDIR":
		d := g.pickDir()
		c.Fh = d.fh
		if g.r.Intn(12) == 0 {
			c.Fh = g.anyHandle(2)
		}
		c.Name = g.existingName(d)
		if ch := g.find(d, c.Name); ch != nil && ch.kind == 2 && proc == "REMOVE" && g.cfg.Avoid["remove-on-dir"] {
			c.Proc = "RMDIR"
		}
	case "RENAME":
		d := g.pickDir()
		d2 := d
		if g.r.Intn(2) == 0 {
			d2 = g.pickDir()
		}
		c.Fh, c.Fh2 = d.fh, d2.fh
		c.Name = g.existingName(d)
		if g.r.Intn(2) == 0 {
			c.Name2 = g.existingName(d2)
		} else {
			c.Name2 = g.name()
		}
		if g.r.Intn(15) == 0 {
			c.Fh = g.anyHandle(2)
		}
		if g.r.Intn(15) == 0 {
			c.Fh2 = g.anyHandle(2)
		}
		if g.r.Intn(10) == 0 {
			// a stale handle of the same inode number as the other (live) directory argument
			for _, o := range g.dead {
				if o.kind == 2 && len(o.fh) >= 16 && len(c.Fh) >= 16 && o.fh[:16] == c.Fh[:16] && o.fh != c.Fh {
					if g.r.Intn(2) == 0 {
						c.Fh2 = o.fh
					} else {
						c.Fh2, c.Fh = c.Fh, o.fh
					}
					break
				}
			}
		}
		if c.Fh2 != c.Fh && g.cfg.Avoid["rename-dir-cross"] {
			// keep directory renames inside one parent (known finding KF-D20). The generator's own picture of the tree can
			// be out of date (after a crash the server may be at an earlier prefix): ask the server what the name denotes.
			isDir := false
			if dd := g.byFh(c.Fh); dd != nil {
				if src := g.find(dd, c.Name); src != nil && src.kind == 2 {
					isDir = true
				}
			}
			if !isDir {
				l := NewCall("LOOKUP")
				l.Fh, l.Name, l.NLen = c.Fh, c.Name, len(c.Name)
				l = g.emit(l)
				isDir = l.St == "OK" && l.RType == 2
			}
			if isDir {
				c.Fh2 = c.Fh
			}
		}
		if g.cfg.Avoid["rename-to-dotnames"] && (c.Name2 == "." || c.Name2 == "..") {
			c.Name2 = "zz"
		}
	case "LINK":
		c.Fh = g.anyHandle(1)
		c.Fh2 = g.pickDir().fh
		c.Name2 = g.name()
	case "READDIR":
		c.Fh = g.anyHandle(2)
		c.Cnt = []int{0, 1, 50, 100, 200, 300, 512, 1000, 4096, 65536}[g.r.Intn(10)]
		c.Cookie = g.someCookie(c.Fh)
	case "READDIRPLUS":
		c.Fh = g.anyHandle(2)
		c.DirCount = []int{0, 1, 8, 20, 50, 100, 1000, 65536}[g.r.Intn(8)]
		c.MaxCount = []int{0, 1, 100, 300, 500, 1000, 4096, 65536}[g.r.Intn(8)]
		c.Cookie = g.someCookie(c.Fh)
	}
	c.NLen, c.NLen2 = len(c.Name), len(c.Name2)
	c = g.emit(c)
	g.learn(c)
	if g.cfg.Profile == "crashun" && c.Proc == "WRITE" && c.St == "OK" && c.Stable == 0 && g.r.Intn(3) == 0 {
		// UNSTABLE write, a read-only look at the file, COMMIT: the data must be durable afterwards
		ro := NewCall([]string{"GETATTR", "READ"}[g.r.Intn(2)])
		ro.Fh, ro.Cnt = c.Fh, 100
		g.emit(ro)
		cm := NewCall("COMMIT")
		cm.Fh = c.Fh
		g.emit(cm)
	}
}

func (g *seqGen) someCookie(fh string) int {
	cs := g.enumC[fh]
	if len(cs) == 0 || g.r.Intn(3) == 0 {
		return 0
	}
	return cs[g.r.Intn(len(cs))]
}

// learn updates the generator's view from the reply.
func (g *seqGen) learn(c *Call) {
	if c.St != "OK" {
		return
	}
	if c.Proc == "WRITE" && !c.OffSat {
		g.ext.Add(c.Fh, c.Off, c.RCount)
	}
	switch c.Proc {
	case "CREATE", "MKDIR", "SYMLINK":
		if !c.HasFh {
			return
		}
		d := g.byFh(c.Fh)
		if d == nil || g.byFh(c.RFh) != nil {
			return
		}
		k := map[string]int{"CREATE": 1, "MKDIR": 2, "SYMLINK": 5}[c.Proc]
		g.objs = append(g.objs, &gobj{fh: c.RFh, kind: k, parent: d, name: c.Name, alive: true})
	case "REMOVE", "RMDIR":
		if d := g.byFh(c.Fh); d != nil {
			if o := g.find(d, c.Name); o != nil {
				g.kill(o)
			}
		}
	case "RENAME":
		d, d2 := g.byFh(c.Fh), g.byFh(c.Fh2)
		if d == nil || d2 == nil {
			return
		}
		src := g.find(d, c.Name)
		if src == nil {
			return
		}
		if dst := g.find(d2, c.Name2); dst != nil && dst != src {
			g.kill(dst)
		}
		src.parent, src.name = d2, c.Name2
	case "READDIR", "READDIRPLUS":
		for _, e := range c.Ents {
			g.enumC[c.Fh] = append(g.enumC[c.Fh], e.Cookie)
		}
		if len(g.enumC[c.Fh]) > 64 {
			g.enumC[c.Fh] = g.enumC[c.Fh][len(g.enumC[c.Fh])-64:]
		}
	}
}

// enumerate reads a whole directory page by page with one budget.
func (g *seqGen) enumerate() {
	d := g.pickDir()
	plus := g.r.Intn(2) == 0
	budgets := []int{60, 100, 130, 200, 260, 400, 700, 1500, 4096, 20000}
	b := budgets[g.r.Intn(len(budgets))]
	if g.cfg.Avoid["one-entry-page"] && b < 260 {
		b = 260
	}
	cookie := 0
	for page := 0; page < 400; page++ {
		var c *Call
		if plus {
			c = NewCall("READDIRPLUS")
			c.DirCount, c.MaxCount = b, b*3
			if g.cfg.Avoid["one-entry-page"] && c.MaxCount < 700 {
				c.MaxCount = 700
			}
		} else {
			c = NewCall("READDIR")
			c.Cnt = b
		}
		c.Fh = d.fh
		c.Cookie = cookie
		g.emit(c)
		g.learn(c)
		if c.St != "OK" || c.REof || len(c.Ents) == 0 {
			return
		}
		cookie = c.Ents[len(c.Ents)-1].Cookie
		// sometimes change the directory between pages
		if g.r.Intn(5) == 0 {
			m := NewCall([]string{"CREATE", "REMOVE"}[g.r.Intn(2)])
			m.Fh = d.fh
			if m.Proc == "CREATE" {
				m.Name = g.name()
			} else {
				m.Name = g.existingName(d)
				if ch := g.find(d, m.Name); ch != nil && ch.kind == 2 {
					m.Proc = "RMDIR"
				}
			}
			m.NLen = len(m.Name)
			g.emit(m)
			g.learn(m)
		}
	}
}

// RunSeq runs one sequential segment and writes it to t.
func RunSeq(cfg SeqCfg, t *Trace, seg int) error {
	d := vdisk.New(cfg.DiskSz)
	s, err := Start(d, cfg.Unstable)
	if err != nil {
		return err
	}
	g := &seqGen{cfg: cfg, r: rand.New(rand.NewSource(int64(cfg.Seed))), s: s, t: t, enumC: map[string][]int{}, ext: Extents{}}
	g.root = &gobj{fh: RootFh(), kind: 2, alive: true}
	t.Emit(Reset{Ev: "reset", Seg: seg, Driver: "seq/" + cfg.Profile, Seed: cfg.Seed, DiskSz: int(cfg.DiskSz), Unstable: cfg.Unstable, Root: g.root.fh})
	g.fb0, g.fi0 = s.Free()
	g.limits()
	s.Sequential = true
	for n := 0; n < cfg.Steps; n++ {
		g.step()
		if g.s == nil || g.s.Wedged {
			// the instance panicked or hung: the segment ends here (the event is in the trace)
			Mon.Reset()
			return nil
		}
		if cfg.SnapEach > 0 && cfg.Snap != nil && n%cfg.SnapEach == cfg.SnapEach-1 {
			g.s.WaitIdle()
			cfg.Snap(g.s, t, "run")
		}
		if cfg.DumpEach > 0 && n%cfg.DumpEach == cfg.DumpEach-1 {
			g.dump("run")
			if g.s.Wedged {
				Mon.Reset()
				return nil
			}
		}
		if cfg.Restarts && g.r.Intn(60) == 0 {
			g.restart()
		}
	}
	g.dump("run")
	if cfg.Restarts {
		g.restart()
		if g.s == nil {
			return nil
		}
	}
	g.s.WaitIdle()
	if cfg.Snap != nil {
		cfg.Snap(g.s, t, "run")
	}
	if cfg.DeleteAll {
		g.deleteAll(g.root.fh, 0)
		if !g.s.Wedged {
			g.s.WaitIdle()
			g.dump("run")
			if cfg.Snap != nil {
				cfg.Snap(g.s, t, "run")
			}
			fb, fi := g.s.Free()
			rootblocks := 0
			for _, in := range TakeSnap(g.s, "run", false).Inodes {
				if in.Inum == 1 {
					rootblocks = len(in.Data) + len(in.Ind)
				}
			}
			// directories never shrink: the root keeps the blocks it grew to
			t.Emit(map[string]interface{}{"ev": "freecheck", "freeb0": g.fb0, "freei0": g.fi0, "freeb": fb, "freei": fi, "rootblocks": rootblocks})
		}
	}
	if !g.s.Wedged {
		g.s.Shutdown()
	}
	return nil
}

// deleteAll removes everything below directory fh through the API.
func (g *seqGen) deleteAll(fh string, depth int) {
	if depth > 40 || g.s.Wedged {
		return
	}
	cookie := 0
	type ent struct {
		name string
		fh   string
		dir  bool
	}
	var ents []ent
	for page := 0; page < 10000; page++ {
		c := NewCall("READDIRPLUS")
		c.Fh, c.Cookie, c.DirCount, c.MaxCount = fh, cookie, 1<<16, 1<<17
		g.emit(c)
		if c.St != "OK" {
			return
		}
		for _, e := range c.Ents {
			cookie = e.Cookie
			if e.Name != "." && e.Name != ".." {
				efh, isdir := e.Fh, e.Type == 2
				if !e.Plus || efh == "" { // attributes and handle are optional in a READDIRPLUS reply
					l := NewCall("LOOKUP")
					l.Fh, l.Name, l.NLen = fh, e.Name, len(e.Name)
					g.emit(l)
					if l.St != "OK" {
						continue
					}
					efh, isdir = l.RFh, l.RType == 2
				}
				ents = append(ents, ent{e.Name, efh, isdir})
			}
		}
		if c.REof || len(c.Ents) == 0 {
			break
		}
	}
	for _, e := range ents {
		var c *Call
		if e.dir {
			g.deleteAll(e.fh, depth+1)
			c = NewCall("RMDIR")
		} else {
			c = NewCall("REMOVE")
		}
		c.Fh, c.Name, c.NLen = fh, e.name, len(e.name)
		g.emit(c)
		g.learn(c)
		if g.s.Wedged {
			return
		}
	}
}

func (g *seqGen) restart() {
	g.s.WaitIdle()
	g.dump("run")
	g.s.Shutdown()
	s, err := Start(g.s.D, g.cfg.Unstable)
	if err != nil {
		g.t.Emit(map[string]interface{}{"ev": "fatal", "what": err.Error()})
		g.s = nil
		return
	}
	g.s = s
	s.Sequential = true
	g.t.Emit(Restart{Ev: "restart", Kind: "clean", Dump: g.mkDump(s, "restarted")})
}
