package drv

import (
	"fmt"
	"math/rand"
	"os"
	"runtime"
	"sort"
	"sync"
	"sync/atomic"
	"time"

	"github.com/mit-pdos/go-nfsd/kvs"
	"github.com/mit-pdos/go-nfsd/simple"

	"verif/harness/vdisk"
)

// Concurrent histories (and every crash point of them) for the two small servers.
// The history order is the order of the invoke/return markers in the recorded disk
// stream (vdisk.Mark is atomic), so crash points and history events share one total
// order: a crash image cut at stream position p belongs right after the history
// events whose markers precede p. Validated by spec/SimpleLin.tla and spec/KvsLin.tla.

type SHEv struct {
	Ev   string      `json:"ev"` // inv | ret
	Cl   int         `json:"cl"`
	Call interface{} `json:"call"`
}

type smallHist struct {
	events []vdisk.Event
	calls  map[int]interface{} // call index -> call record (with reply)
	cl     map[int]int
}

// emitSmallHist writes reset-less history lines interleaved with the crash probes produced by probe(p, lost).
func emitSmallHist(t *Trace, h *smallHist, p0 int, loss int, seed int, crash bool, base func() *vdisk.Disk,
	probe func(img *vdisk.Disk) (ok bool, dump interface{}), probeEv string, retCall func(i int) interface{}) (nprobe int) {
	events := h.events
	// history position (number of markers) before each stream position
	marksBefore := make([]int, len(events)+1)
	m := 0
	for i, e := range events {
		marksBefore[i] = m
		if e.Kind == vdisk.EvMark {
			m++
		}
	}
	marksBefore[len(events)] = m
	probes := map[int][]map[string]interface{}{}
	if crash {
		r := rand.New(rand.NewSource(int64(seed) + 3))
		seen := map[string]bool{}
		b := base()
		for p := p0; p <= len(events); p++ {
			if p > p0 && p < len(events) && events[p-1].Kind == vdisk.EvMark {
				continue
			}
			win := vdisk.Window(events, p)
			sets := lossSets(len(win), r, loss)
			if !(p == len(events) || events[p].Kind == vdisk.EvBarrier) {
				sets = sets[:1]
			}
			for _, lost := range sets {
				img := vdisk.CrashImage(b, events, p, lost)
				ok, dump := probe(img)
				k := marksBefore[p]
				key := fmt.Sprint(k, ok, hashOf(dump))
				if seen[key] {
					continue
				}
				seen[key] = true
				probes[k] = append(probes[k], map[string]interface{}{"ev": probeEv, "p": p, "nlost": len(lost), "ok": ok, "dump": dump, "acked": 0, "invoked": 0})
				nprobe++
			}
		}
	}
	k := 0
	for _, pr := range probes[0] {
		t.Emit(pr)
	}
	for _, e := range events {
		if e.Kind != vdisk.EvMark {
			continue
		}
		k++
		if e.Mark == "inv" {
			t.Emit(SHEv{Ev: "inv", Cl: h.cl[e.Arg], Call: h.calls[e.Arg]})
		} else {
			t.Emit(SHEv{Ev: "ret", Cl: h.cl[e.Arg], Call: retCall(e.Arg)})
		}
		for _, pr := range probes[k] {
			t.Emit(pr)
		}
	}
	return nprobe
}

type SmallConcCfg struct {
	Seed    int
	Clients int
	OpsPer  int
	Crash   bool
	Loss    int
	DiskSz  uint64
}

// RunSimpleConc: clients write/truncate/read the same one or two files of SimpleNFS concurrently.
func RunSimpleConc(cfg SmallConcCfg, t *Trace, seg int) int {
	d := vdisk.New(cfg.DiskSz)
	var srv *simple.Nfs
	func() {
		defer func() { recover() }()
		srv = simple.MakeNfs(d)
	}()
	if srv == nil {
		panic("simple.MakeNfs failed")
	}
	waitQuiet(d)
	base := d.StartRecording()
	d.Yield = diskYield(cfg.Seed)
	defer func() { d.Yield = nil }()
	t.Emit(Reset{Ev: "reset", Seg: seg, Driver: "simpleconc", Seed: cfg.Seed, DiskSz: int(cfg.DiskSz), Root: simpleFh(1), KeepHist: cfg.Crash})
	seg++
	h := &smallHist{calls: map[int]interface{}{}, cl: map[int]int{}}
	var mu sync.Mutex
	var wg sync.WaitGroup
	var tag int32
	wedged := int32(0)
	inos := []uint64{2, 2, 2, 3}
	if cfg.Seed%3 == 0 {
		inos = []uint64{2}
	}
	for cl := 1; cl <= cfg.Clients; cl++ {
		wg.Add(1)
		go func(cl int) {
			defer wg.Done()
			r := rand.New(rand.NewSource(int64(cfg.Seed)*131 + int64(cl)))
			for n := 0; n < cfg.OpsPer && atomic.LoadInt32(&wedged) == 0; n++ {
				ino := inos[r.Intn(len(inos))]
				var c *Call
				switch p := r.Intn(100); {
				case p < 45:
					c = NewCall("WRITE")
					c.Off = []int{0, 0, 10, 100, 1000, 4000, 4090}[r.Intn(7)]
					c.Cnt = []int{1, 6, 10, 96, 100, 2000, 4096}[r.Intn(7)]
					c.DLen = c.Cnt
					c.Data = []Run{{c.Cnt, 1 + int(atomic.AddInt32(&tag, 1))%250}}
					c.Stable = r.Intn(3)
				case p < 65:
					c = NewCall("SETATTR")
					c.SetSize = true
					c.Size = []int{0, 5, 10, 100, 1000, 4096, 5000}[r.Intn(7)]
				case p < 90:
					c = NewCall("READ")
					c.Off = []int{0, 0, 5, 100, 1000}[r.Intn(5)]
					c.Cnt = []int{16, 200, 4096, 8192}[r.Intn(4)]
				default:
					c = NewCall("GETATTR")
				}
				c.Fh, c.Ino = simpleFh(ino), Clamp(ino)
				c.Cl, c.I = cl, cl*1000+n
				if r.Intn(3) == 0 {
					runtime.Gosched()
				}
				mu.Lock()
				h.calls[c.I], h.cl[c.I] = c, cl
				mu.Unlock()
				d.Mark("inv", c.I)
				c2 := execWatch(srv, c)
				d.Mark("ret", c.I)
				if c2 != c {
					mu.Lock()
					h.calls[c.I] = c2
					mu.Unlock()
				}
				if c2.St == "PANIC" || c2.St == "TIMEOUT" {
					atomic.StoreInt32(&wedged, 1)
				}
			}
		}(cl)
	}
	wg.Wait()
	var final *SDump
	if atomic.LoadInt32(&wedged) == 0 {
		waitQuiet(d)
		final = simpleDump(srv, "final") // reads do not write: the stream is unchanged
	}
	h.events = d.StopRecording()
	np := emitSmallHist(t, h, 0, cfg.Loss, cfg.Seed, cfg.Crash && final != nil, func() *vdisk.Disk { return base },
		func(img *vdisk.Disk) (bool, interface{}) {
			var rec *simple.Nfs
			func() {
				defer func() { recover() }()
				rec = simple.Recover(img)
			}()
			if rec == nil {
				return false, &SDump{Ev: "sdump", Files: []SFile{}}
			}
			return true, simpleDump(rec, "recovered")
		}, "scrashprobe", func(i int) interface{} {
			return &Call{I: i, Data: []Run{}, RData: []Run{}, Ents: []Ent{}, Leaked: []int{}}
		})
	fmt.Fprintf(os.Stderr, "simpleconc: %d stream events, %d probes\n", len(h.events), np)
	if final != nil {
		t.Emit(final)
	}
	return seg
}

// RunKvsConc: concurrent multi-puts with overlapping key sets and gets.
func RunKvsConc(cfg SmallConcCfg, t *Trace, seg int) int {
	sz := cfg.DiskSz
	d := vdisk.New(sz + 8)
	k := kvs.MkKVS(d, sz)
	waitQuiet(d)
	base := d.StartRecording()
	d.Yield = diskYield(cfg.Seed)
	defer func() { d.Yield = nil }()
	keys := []uint64{513, 514, 515, 600, sz - 1}
	t.Emit(map[string]interface{}{"ev": "reset", "seg": seg, "driver": "kvsconc", "seed": cfg.Seed, "disksz": int(sz), "unstable": false,
		"root": "", "keephist": cfg.Crash, "keys": keys, "lo": 513, "hi": int(sz)})
	seg++
	h := &smallHist{calls: map[int]interface{}{}, cl: map[int]int{}}
	var mu sync.Mutex
	var wg sync.WaitGroup
	var tag int32
	wedged := int32(0)
	for cl := 1; cl <= cfg.Clients; cl++ {
		wg.Add(1)
		go func(cl int) {
			defer wg.Done()
			r := rand.New(rand.NewSource(int64(cfg.Seed)*131 + int64(cl)))
			for n := 0; n < cfg.OpsPer && atomic.LoadInt32(&wedged) == 0; n++ {
				e := &KvEv{Ev: "kv", I: cl*1000 + n, Pairs: [][2]int{}, St: "OK"}
				var pairs []kvs.KVPair
				if r.Intn(100) < 60 {
					e.Op = "put"
					np := []int{1, 2, 2, 3, 4}[r.Intn(5)]
					few := cfg.Seed%2 == 1 // few keys and values: a put often carries the value a key already holds
					if few {
						np = 2
					}
					for j := 0; j < np; j++ {
						key := keys[r.Intn(3)]
						if r.Intn(6) == 0 {
							key = keys[r.Intn(len(keys))]
						}
						v := 1 + int(atomic.AddInt32(&tag, 1))%250
						if few {
							key = keys[j] // both hot keys in every put
							v = 1 + r.Intn(2)
						}
						e.Pairs = append(e.Pairs, [2]int{int(key), v})
						pairs = append(pairs, kvs.KVPair{Key: key, Val: blockOf(v)})
					}
				} else {
					e.Op = "get"
					e.Key = int(keys[r.Intn(3)])
				}
				if r.Intn(3) == 0 {
					runtime.Gosched()
				}
				mu.Lock()
				h.calls[e.I], h.cl[e.I] = e, cl
				mu.Unlock()
				d.Mark("inv", e.I)
				done := make(chan struct{})
				go func() {
					defer close(done)
					defer func() {
						if x := recover(); x != nil {
							e.St = "PANIC"
						}
					}()
					if e.Op == "put" {
						e.OK = k.MultiPut(pairs)
					} else {
						p, ok := k.Get(uint64(e.Key))
						e.OK = ok
						e.Val = valOf(p.Val)
					}
				}()
				select {
				case <-done:
				case <-timeAfter(10):
					ee := *e
					ee.St = "TIMEOUT"
					mu.Lock()
					h.calls[e.I] = &ee
					mu.Unlock()
					atomic.StoreInt32(&wedged, 1)
				}
				d.Mark("ret", e.I)
				if e.St == "PANIC" {
					atomic.StoreInt32(&wedged, 1)
				}
			}
		}(cl)
	}
	wg.Wait()
	var final map[string]interface{}
	if atomic.LoadInt32(&wedged) == 0 {
		waitQuiet(d)
		final = kvDump(k, keys, "final")
		waitQuiet(d)
	}
	h.events = d.StopRecording()
	if atomic.LoadInt32(&wedged) == 0 {
		k.Delete()
	}
	np := emitSmallHist(t, h, 0, cfg.Loss, cfg.Seed, cfg.Crash && final != nil, func() *vdisk.Disk { return base },
		func(img *vdisk.Disk) (bool, interface{}) {
			var rec *kvs.KVS
			func() {
				defer func() { recover() }()
				rec = kvs.MkKVS(img, sz)
			}()
			if rec == nil {
				return false, map[string]interface{}{"ev": "kdump", "who": "recovered", "kv": [][2]int{}}
			}
			dump := kvDump(rec, keys, "recovered")
			rec.Delete()
			return true, dump
		}, "kcrashprobe", func(i int) interface{} { return map[string]interface{}{"i": i} })
	if final != nil {
		t.Emit(final)
	}
	fmt.Fprintf(os.Stderr, "kvsconc: %d stream events, %d probes\n", len(h.events), np)
	return seg
}

// diskYield: seeded scheduling points at disk reads and writes of home blocks (the small servers have no hook points)
func diskYield(seed int) func(kind string, a uint64) {
	var x uint32 = uint32(seed)*2654435761 + 7
	return func(kind string, a uint64) {
		if a < 513 {
			return
		}
		v := atomic.AddUint32(&x, 0x9e3779b9)
		v ^= v >> 13
		switch v % 5 {
		case 0, 1:
			runtime.Gosched()
		case 2:
			time.Sleep(time.Duration(20+v%150) * time.Microsecond)
		}
	}
}

// RunKvsGates: directed schedules for kvs. The victim call is held right after its first disk read of a key's home
// block (a gate in the disk, the only place where a server without hooks can be stopped) while an intruder put
// completes; then the victim resumes. On a store whose put does not read, the gate never closes and the schedule is
// sequential; a put that looks at the current value first is stopped exactly between its look and its commit.
func RunKvsGates(seed int, t *Trace, seg int) int {
	type exp struct {
		victim [][2]int // pairs (key index, value); value 0 = "the value the key has now"
		get    int      // >= 0: the victim is a get of this key index
		intr   [][][2]int
		gate   int // key index whose read is gated
	}
	var exps []exp
	for _, gate := range []int{0, 1} {
		for _, v := range [][][2]int{{{0, 0}, {1, 7}}, {{0, 7}, {1, 0}}, {{0, 0}, {1, 0}}, {{1, 7}, {0, 0}}} {
			for _, in := range [][][][2]int{{{{0, 8}, {1, 9}}}, {{{0, 8}}}, {{{1, 9}}}, {{{0, 8}, {1, 9}}, {{0, 5}}}} {
				exps = append(exps, exp{victim: v, get: -1, intr: in, gate: gate})
			}
		}
		exps = append(exps, exp{get: gate, intr: [][][2]int{{{0, 8}, {1, 9}}}, gate: gate})
	}
	sz := uint64(2000)
	for k, e := range exps {
		d := vdisk.New(sz + 8)
		kv := kvs.MkKVS(d, sz)
		keys := []uint64{513, 514, 600, sz - 1}
		t.Emit(map[string]interface{}{"ev": "reset", "seg": seg, "driver": "kvsgate", "seed": seed*1000 + k, "disksz": int(sz), "unstable": false,
			"root": "", "keephist": false, "keys": keys, "lo": 513, "hi": int(sz)})
		seg++
		idx := 0
		cur := map[int]int{}
		emit := func(cl int, ev *KvEv, inv bool) {
			if inv {
				t.Emit(SHEv{Ev: "inv", Cl: cl, Call: ev})
			} else {
				t.Emit(SHEv{Ev: "ret", Cl: cl, Call: map[string]interface{}{"i": ev.I}})
			}
		}
		put := func(ps [][2]int) *KvEv {
			ev := &KvEv{Ev: "kv", I: idx, Op: "put", Pairs: [][2]int{}, St: "OK"}
			idx++
			var pairs []kvs.KVPair
			for _, p := range ps {
				v := p[1]
				if v == 0 {
					v = cur[p[0]]
				}
				ev.Pairs = append(ev.Pairs, [2]int{int(keys[p[0]]), v})
				pairs = append(pairs, kvs.KVPair{Key: keys[p[0]], Val: blockOf(v)})
			}
			func() {
				defer func() {
					if recover() != nil {
						ev.St = "PANIC"
					}
				}()
				ev.OK = kv.MultiPut(pairs)
			}()
			if ev.OK {
				for _, p := range ev.Pairs {
					for i, key := range keys {
						if int(key) == p[0] {
							cur[i] = p[1]
						}
					}
				}
			}
			return ev
		}
		// initial values, installed (so that a later read goes to the disk)
		i0 := put([][2]int{{0, 3}, {1, 4}})
		emit(0, i0, true)
		emit(0, i0, false)
		waitQuiet(d)
		sleepMs(20)
		waitQuiet(d)
		var victimG int64
		var fired int32
		inWin := make(chan struct{}, 1)
		resume := make(chan struct{})
		d.Yield = func(kind string, a uint64) {
			if kind == "read" && a == keys[e.gate] && goid() == atomic.LoadInt64(&victimG) && atomic.CompareAndSwapInt32(&fired, 0, 1) {
				inWin <- struct{}{}
				select {
				case <-resume:
				case <-timeAfter(10):
				}
			}
		}
		var vev *KvEv
		vdone := make(chan struct{})
		vcur := map[int]int{0: cur[0], 1: cur[1]}
		go func() {
			defer close(vdone)
			atomic.StoreInt64(&victimG, goid())
			if e.get >= 0 {
				vev = &KvEv{Ev: "kv", I: 1000, Op: "get", Pairs: [][2]int{}, St: "OK", Key: int(keys[e.get])}
				func() {
					defer func() {
						if recover() != nil {
							vev.St = "PANIC"
						}
					}()
					p, ok := kv.Get(keys[e.get])
					vev.OK, vev.Val = ok, valOf(p.Val)
				}()
				return
			}
			vev = &KvEv{Ev: "kv", I: 1000, Op: "put", Pairs: [][2]int{}, St: "OK"}
			var pairs []kvs.KVPair
			for _, p := range e.victim {
				v := p[1]
				if v == 0 {
					v = vcur[p[0]]
				}
				vev.Pairs = append(vev.Pairs, [2]int{int(keys[p[0]]), v})
				pairs = append(pairs, kvs.KVPair{Key: keys[p[0]], Val: blockOf(v)})
			}
			func() {
				defer func() {
					if recover() != nil {
						vev.St = "PANIC"
					}
				}()
				vev.OK = kv.MultiPut(pairs)
			}()
		}()
		window := false
		select {
		case <-inWin:
			window = true
		case <-vdone:
		case <-timeAfter(10):
		}
		// the victim's invoke precedes everything the intruder does; its reply is joined when it has returned
		var intr []*KvEv
		if window {
			for _, ps := range e.intr {
				intr = append(intr, put(ps))
			}
			close(resume)
		}
		<-vdone
		d.Yield = nil
		emit(1, vev, true)
		for _, ev := range intr {
			emit(2, ev, true)
			emit(2, ev, false)
		}
		emit(1, vev, false)
		if !window {
			for _, ps := range e.intr {
				ev := put(ps)
				emit(2, ev, true)
				emit(2, ev, false)
			}
		}
		t.Emit(kvDump(kv, keys, "final"))
		kv.Delete()
	}
	return seg
}

// RunSimpleGates: directed schedules for the simple server. A writer's update is held up at the disk (every disk write
// blocks for at most three seconds) while a second client reads the same file; then the disk is cut off as it is and
// recovered. A reply that the reader got before the cut must be explained together with the recovered state: the
// server may not let a reader see what a crash can still take back.
func RunSimpleGates(seed int, t *Trace, seg int) int {
	type exp struct{ writer, reader string }
	var exps []exp
	for _, w := range []string{"WRITEGROW", "WRITEOVER", "TRUNC", "EXTEND"} {
		for _, r := range []string{"READ", "GETATTR"} {
			exps = append(exps, exp{w, r})
		}
	}
	for k, e := range exps {
		d := vdisk.New(2000)
		var srv *simple.Nfs
		func() {
			defer func() { recover() }()
			srv = simple.MakeNfs(d)
		}()
		if srv == nil {
			panic("simple.MakeNfs failed")
		}
		waitQuiet(d)
		t.Emit(Reset{Ev: "reset", Seg: seg, Driver: "simplegate", Seed: seed*1000 + k, DiskSz: 2000, Root: simpleFh(1), KeepHist: true})
		seg++
		type rec struct {
			seq int64
			ev  interface{}
		}
		var mu sync.Mutex
		var recs []rec
		var seq int64
		note := func(ev interface{}) {
			mu.Lock()
			recs = append(recs, rec{atomic.AddInt64(&seq, 1), ev})
			mu.Unlock()
		}
		mk := func(proc string, i int) *Call {
			c := NewCall(proc)
			c.Fh, c.Ino, c.I = simpleFh(2), 2, i
			return c
		}
		// run c: its "inv" line carries the reply, so the line is completed when the call returns but keeps its place
		run := func(cl int, c *Call, done chan struct{}) {
			c.Cl = cl
			mu.Lock()
			pos := len(recs)
			recs = append(recs, rec{atomic.AddInt64(&seq, 1), nil})
			mu.Unlock()
			c2 := execWatch(srv, c)
			mu.Lock()
			recs[pos].ev = SHEv{Ev: "inv", Cl: cl, Call: c2}
			mu.Unlock()
			note(SHEv{Ev: "ret", Cl: cl, Call: &Call{I: c.I, Data: []Run{}, RData: []Run{}, Ents: []Ent{}, Leaked: []int{}}})
			if done != nil {
				close(done)
			}
		}
		w0 := mk("WRITE", 0)
		w0.Off, w0.Cnt, w0.DLen, w0.Data, w0.Stable = 0, 100, 100, []Run{{100, 3}}, 2
		run(0, w0, nil)
		waitQuiet(d)
		armed := int32(1)
		inWin := make(chan struct{}, 1)
		resume := make(chan struct{})
		d.Yield = func(kind string, a uint64) {
			if kind == "write" && atomic.LoadInt32(&armed) == 1 {
				select {
				case inWin <- struct{}{}:
				default:
				}
				select {
				case <-resume:
				case <-timeAfter(3):
				}
			}
		}
		w := mk("WRITE", 1)
		switch e.writer {
		case "WRITEGROW":
			w.Off, w.Cnt, w.DLen, w.Data, w.Stable = 50, 200, 200, []Run{{200, 7}}, 2
		case "WRITEOVER":
			w.Off, w.Cnt, w.DLen, w.Data, w.Stable = 0, 100, 100, []Run{{100, 8}}, 2
		case "TRUNC":
			w = mk("SETATTR", 1)
			w.SetSize, w.Size = true, 10
		default:
			w = mk("SETATTR", 1)
			w.SetSize, w.Size = true, 1000
		}
		wdone := make(chan struct{})
		go run(1, w, wdone)
		select {
		case <-inWin:
		case <-wdone:
		case <-timeAfter(2):
		}
		r := mk(e.reader, 2)
		r.Off, r.Cnt = 0, 4096
		rdone := make(chan struct{})
		go run(2, r, rdone)
		select {
		case <-rdone:
		case <-time.After(1200 * time.Millisecond):
		}
		// the disk as it is now: what was written before the hold-up, nothing of what is held up
		img := d.Clone()
		var rcv *simple.Nfs
		func() {
			defer func() { recover() }()
			rcv = simple.Recover(img)
		}()
		if rcv == nil {
			note(map[string]interface{}{"ev": "scrashprobe", "ok": false, "dump": &SDump{Ev: "sdump", Files: []SFile{}}})
		} else {
			note(map[string]interface{}{"ev": "scrashprobe", "ok": true, "dump": simpleDump(rcv, "recovered")})
		}
		atomic.StoreInt32(&armed, 0)
		close(resume)
		<-wdone
		<-rdone
		d.Yield = nil
		waitQuiet(d)
		mu.Lock()
		sort.Slice(recs, func(i, j int) bool { return recs[i].seq < recs[j].seq })
		for _, x := range recs {
			if x.ev != nil {
				t.Emit(x.ev)
			}
		}
		mu.Unlock()
		t.Emit(simpleDump(srv, "final"))
	}
	return seg
}
