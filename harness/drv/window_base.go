package drv

import (
	"fmt"
	"sync/atomic"

	"verif/harness/vdisk"
)

type vdiskT = vdisk.Disk

type baseImg struct{ d *vdisk.Disk }

func (b baseImg) Clone() *vdisk.Disk { return b.d.Clone() }
func (b baseImg) Size() uint64       { return b.d.Size() }

func windowBaseImpl() (interface {
	Clone() *vdiskT
	Size() uint64
}, []HEv, []string) {
	d := vdisk.New(8000)
	s, err := Start(d, true)
	if err != nil {
		panic(err)
	}
	var seq int64
	idx := 0
	var setup []HEv
	root := RootFh()
	do := func(c *Call) *Call {
		c.I = idx
		idx++
		c.NLen, c.NLen2 = len(c.Name), len(c.Name2)
		a := atomic.AddInt64(&seq, 1)
		c.Exec(s.API)
		b := atomic.AddInt64(&seq, 1)
		setup = append(setup, HEv{Ev: "inv", Seq: a, Cl: 0, Call: c},
			HEv{Ev: "ret", Seq: b, Cl: 0, Call: &Call{I: c.I, Data: []Run{}, RData: []Run{}, Ents: []Ent{}, Leaked: []int{}}})
		return c
	}
	mk := func(proc, dir, name string) *Call {
		c := NewCall(proc)
		c.Fh, c.Name = dir, name
		return do(c)
	}
	l := NewCall("FSINFO")
	l.Fh = root
	do(l)
	p := NewCall("PATHCONF")
	p.Fh = root
	do(p)
	for i := 0; i < 3; i++ {
		mk("CREATE", root, fmt.Sprintf("junk%d", i))
	}
	d1 := mk("MKDIR", root, "D1").RFh
	d2 := mk("MKDIR", root, "D2").RFh
	for i := 0; i < 3; i++ {
		mk("REMOVE", root, fmt.Sprintf("junk%d", i))
	}
	s.WaitIdle()
	s.Shutdown()
	// second instance: allocates 2, 3, 4 (below D1 = 5 and D2 = 6)
	s, err = Start(d, true)
	if err != nil {
		panic(err)
	}
	setup = append(setup, HEv{Ev: "restart"})
	fa := mk("CREATE", d1, "a").RFh
	w := NewCall("WRITE")
	w.Fh, w.Off, w.Cnt, w.DLen, w.Data, w.Stable = fa, 0, 5000, 5000, []Run{{5000, 77}}, 2
	do(w)
	mk("CREATE", d1, "b")
	mk("CREATE", d2, "b")
	s.WaitIdle()
	s.Shutdown()
	return baseImg{d}, setup, []string{root, d1, d2}
}

// getallocBase: a half-freed inode (a big file removed, the server stopped after the shrinker's first transaction) and an
// empty directory D. After the restart the lowest free inode number is the half-freed one, so the next CREATE/MKDIR
// allocates it, finds it still shrinking, aborts (window without locks), completes the shrink and retries.
func getallocBase() (interface {
	Clone() *vdiskT
	Size() uint64
}, []HEv, []string) {
	d := vdisk.New(8000)
	s, err := Start(d, true)
	if err != nil {
		panic(err)
	}
	var seq int64
	idx := 0
	var setup []HEv
	root := RootFh()
	do := func(c *Call) *Call {
		c.I = idx
		idx++
		c.NLen, c.NLen2 = len(c.Name), len(c.Name2)
		a := atomic.AddInt64(&seq, 1)
		c.Exec(s.API)
		b := atomic.AddInt64(&seq, 1)
		setup = append(setup, HEv{Ev: "inv", Seq: a, Cl: 0, Call: c},
			HEv{Ev: "ret", Seq: b, Cl: 0, Call: &Call{I: c.I, Data: []Run{}, RData: []Run{}, Ents: []Ent{}, Leaked: []int{}}})
		return c
	}
	mk := func(proc, dir, name string) *Call {
		c := NewCall(proc)
		c.Fh, c.Name = dir, name
		return do(c)
	}
	l := NewCall("FSINFO")
	l.Fh = root
	do(l)
	p := NewCall("PATHCONF")
	p.Fh = root
	do(p)
	big := mk("CREATE", root, "big").RFh // inode 2: the lowest
	for k := 0; k < 3; k++ {
		w := NewCall("WRITE")
		w.Fh, w.Off, w.Cnt, w.DLen, w.Stable = big, k*300*4096, 300*4096, 300*4096, 2
		w.Data = []Run{{300 * 4096, 60 + k}}
		do(w)
	}
	d1 := mk("MKDIR", root, "D").RFh
	mk("CREATE", root, "other")
	mk("REMOVE", root, "big")
	s.N.Crash() // stops the background shrinker after its current transaction
	s2, err := Start(d, true)
	if err != nil {
		panic(err)
	}
	setup = append(setup, HEv{Ev: "restart"})
	half := false
	for _, in := range TakeSnap(s2, "x", false).Inodes {
		if in.Kind == 0 && in.Ssz > 0 && len(in.Data)+len(in.Ind) > 0 {
			half = true
		}
	}
	s2.Shutdown()
	if !half {
		fmt.Println("note: getallocBase: the shrinker had already finished; the base has no half-freed inode")
	}
	return baseImg{d}, setup, []string{root, d1}
}
