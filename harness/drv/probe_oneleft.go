package drv

import (
	"runtime"
	"strings"
	"sync"
	"time"

	"github.com/mit-pdos/go-nfsd/inode"
)

// A truncation whose freeing takes several background transactions, grown again over the cut while exactly one block is
// still to be freed (ShrinkSize = blocks(Size)+1, Size a multiple of the block size): the boundary case of "is this
// file still being freed". Where the first background transaction stops depends only on the shape of the file (on a disk
// with one bitmap area), so the probe measures it on a first file, then builds the same file again, cuts it one block
// below that point, holds the background thread between its first and second transaction, grows the file and reads the
// block that was still to be freed: it must read as zeros.
func init() {
	Probes = append(Probes, Probe{"grow-while-one-block-is-still-to-be-freed", []string{"C12", "C05", "C02"}, 16000, func(p *P) {
		const B = 4096
		const K, R, slot = 150, 4, 100
		first := int(inode.NDIRECT + inode.NBLKBLK)
		build := func(name string) string {
			f := p.Create(p.Root, name).RFh
			for k := 0; k < K; k++ {
				p.Write(f, (first+k*int(inode.NBLKBLK)+slot)*B, R*B, 0)
			}
			p.Commit(f)
			return f
		}
		ssz := func(fh string) int {
			sn := TakeSnap(p.S, "probe", true)
			best := -1
			for _, ip := range sn.Inodes {
				if ip.Ssz > best { // the only file with blocks that high
					best = ip.Ssz
				}
			}
			return best
		}
		var mu sync.Mutex
		nbegin, hold := 0, false
		held, release := make(chan struct{}, 1), make(chan struct{})
		Mon.Yield = func(ev string) {
			if ev != "begin" {
				return
			}
			buf := make([]byte, 8192)
			n := runtime.Stack(buf, false)
			if !strings.Contains(string(buf[:n]), "shrinker.") || strings.Contains(string(buf[:n]), "NFSPROC3_") {
				return
			}
			mu.Lock()
			nbegin++
			h := hold && nbegin == 2
			rel := release
			mu.Unlock()
			if h {
				held <- struct{}{}
				select {
				case <-rel:
				case <-time.After(8 * time.Second):
				}
			}
		}
		defer func() { Mon.Yield = nil }()
		for round := 0; round < 2 && !p.S.Wedged; round++ {
			// phase 1: where does the first background transaction stop?
			a := build("a")
			mu.Lock()
			nbegin, hold, release = 0, true, make(chan struct{})
			mu.Unlock()
			p.Trunc(a, int(inode.NDIRECT)*B)
			x := -1
			select {
			case <-held:
				x = ssz(a)
			case <-time.After(5 * time.Second):
			}
			mu.Lock()
			hold = false
			close(release)
			mu.Unlock()
			p.Remove(p.Root, "a")
			if !p.Idle() || x <= first {
				return
			}
			// phase 2: the same file, cut one block below that point; grown while the thread is between two transactions
			b := build("b")
			mu.Lock()
			nbegin, hold, release = 0, true, make(chan struct{})
			mu.Unlock()
			p.Trunc(b, (x-1-round)*B) // round 1: two blocks left
			select {
			case <-held:
			case <-time.After(5 * time.Second):
			}
			p.Trunc(b, (x+9)*B)
			p.Read(b, (x-3)*B, 6*B)
			mu.Lock()
			hold = false
			close(release)
			mu.Unlock()
			p.Read(b, (first+slot)*B, R*B)
			p.Remove(p.Root, "b")
			if !p.Idle() {
				return
			}
			p.T.Emit(TakeSnap(p.S, "run", true))
		}
		p.Tail()
	}})
}

// A directory whose names add up to far more bytes than any plausible bound on a name cache (6000 names of 104-108
// bytes, 0.6 MB): whatever is cached or not, names at both ends and in the middle are removed, renamed, renamed over
// and looked up, before and after a restart.
func init() {
	Probes = append(Probes, Probe{"removals-in-a-directory-of-long-names", []string{"C11", "C13", "C10"}, 24000, func(p *P) {
		d := p.Mkdir(p.Root, "long").RFh
		pre := strings.Repeat("n", 104)
		p.Bulk(d, pre, 6000)
		p.Create(p.Root, "x")
		p.Remove(d, pre+"5999")
		p.Remove(d, pre+"0")
		p.Remove(d, pre+"3000")
		p.Rename(d, pre+"5990", d, "short")
		p.Rename(d, pre+"2600", d, pre+"x")
		p.Rename(p.Root, "x", d, pre+"5980") // over an existing name
		p.Rename(d, pre+"1", p.Root, "out")
		p.Create(d, pre+"5999") // again
		for _, n := range []string{pre + "5998", pre + "5990", pre + "2622", pre + "2623", pre + "5980", pre + "x", "short", pre + "0"} {
			p.Lookup(d, n)
		}
		p.Enumerate(d, false, 8000, 6)
		p.S.WaitIdle()
		p.T.Emit(TakeSnap(p.S, "run", true))
		if !p.Restart() {
			return
		}
		p.Remove(d, pre+"5997")
		p.Remove(d, pre+"2")
		p.Lookup(d, pre+"5996")
		p.Rename(d, pre+"5996", d, "short") // over
		p.Create(d, pre+"new")
		p.S.WaitIdle()
		p.T.Emit(TakeSnap(p.S, "run", true))
		p.Tail()
	}})
}
