package drv

import (
	"fmt"
	"sync/atomic"
	"time"
)

// Directed schedules: a "victim" RPC that aborts its transaction in order to re-lock (LOOKUP/REMOVE of a child
// with a smaller inode number, RENAME onto an existing target) is held at that abort - the moment it owns no
// lock - while an "intruder" client completes one or two conflicting RPCs; then the victim resumes. The resulting
// concurrent history is validated like any other (NfsLin). This realises deterministically the interleavings in
// which re-validation after re-locking matters.

type wop struct {
	proc         string
	d, n, d2, n2 int // directory index / name index
}

var wnames = []string{"a", "b", "x"}

var wnames1 = []string{"a", "b", "x", "LLLLLLLLLLLLLLLLLLLLLLLLLLLLLLLLLLLLLLLLLLLLLLLLLLLLLLLLLLLLLLLLLLLLLLLLLLLLLLLLLLLLLLLLLLLLLLLLLLLLLLLLLLLLLLLLLLLLLLLLLLLLLLLL"} // the last one is too long: a create with it fails after it has allocated an inode

func (w wop) call(dirs []string) *Call {
	c := NewCall(w.proc)
	c.Fh, c.Name = dirs[w.d], wnames[w.n]
	if w.proc == "SYMLINK" {
		c.Target, c.TLen = "/t", 2
	}
	if w.proc == "RENAME" {
		c.Fh2, c.Name2 = dirs[w.d2], wnames[w.n2]
	}
	c.NLen, c.NLen2 = len(c.Name), len(c.Name2)
	return c
}

// RunWindows runs the victim x intruder matrix (a slice of it selected by part/parts) and writes one segment per experiment.
func RunWindows(seed, part, parts int, t *Trace, seg int) int {
	// base image: D1 (inode 5), D2 (6) created after three junk files which are then removed
	base, setup, dirs := windowBase()
	wnames = wnames1
	var victims, pool []wop
	for _, n := range []int{0, 1} {
		victims = append(victims, wop{"LOOKUP", 1, n, 0, 0}, wop{"REMOVE", 1, n, 0, 0})
	}
	victims = append(victims, wop{"RENAME", 1, 0, 1, 1}, wop{"RENAME", 1, 1, 1, 0}, wop{"RENAME", 1, 0, 2, 1}, wop{"RENAME", 2, 1, 1, 0},
		wop{"RMDIR", 1, 2, 0, 0}, wop{"LOOKUP", 1, 2, 0, 0})
	for _, n := range []int{0, 1, 2} {
		// no MKDIR: a directory renamed into another parent is known finding KF-D20
		pool = append(pool, wop{"CREATE", 1, n, 0, 0}, wop{"REMOVE", 1, n, 0, 0})
		for _, m := range []int{0, 1, 2} {
			if m != n {
				pool = append(pool, wop{"RENAME", 1, n, 1, m})
			}
		}
	}
	pool = append(pool, wop{"RENAME", 2, 1, 1, 0}, wop{"RENAME", 2, 1, 1, 1}, wop{"RENAME", 1, 0, 2, 0}, wop{"RMDIR", 1, 2, 0, 0})
	// requests that fail after they have changed something in memory (the abort drops the cached directory inode)
	pool = append(pool, wop{"CREATE", 1, 3, 0, 0}, wop{"SYMLINK", 1, 3, 0, 0})
	type exp struct {
		v  wop
		in []wop
	}
	var exps []exp
	for _, v := range victims {
		for _, a := range pool {
			exps = append(exps, exp{v, []wop{a}})
			for _, b := range pool {
				exps = append(exps, exp{v, []wop{a, b}})
			}
		}
	}
	// second family: the retry loop of CREATE/MKDIR/SYMLINK when the allocated inode is still being freed
	base2, setup2, dirs2 := getallocBase()
	nfam1 := len(exps)
	wnames2 := []string{"f", "D", "D2", "D3"}
	for _, vp := range []string{"CREATE", "MKDIR", "SYMLINK"} {
		for _, in := range [][]wop{
			{{"RMDIR", 0, 1, 0, 0}, {"MKDIR", 0, 2, 0, 0}, {"MKDIR", 0, 3, 0, 0}},
			{{"RMDIR", 0, 1, 0, 0}, {"MKDIR", 0, 2, 0, 0}},
			{{"RMDIR", 0, 1, 0, 0}},
			{{"CREATE", 1, 0, 0, 0}},
			{{"MKDIR", 1, 0, 0, 0}},
			{{"CREATE", 1, 0, 0, 0}, {"REMOVE", 1, 0, 0, 0}},
			{{"CREATE", 0, 2, 0, 0}},
		} {
			exps = append(exps, exp{wop{vp, 1, 0, 0, 0}, in})
		}
	}
	for k, e := range exps {
		if k < nfam1 && (part < 0 || k%parts != part) {
			continue
		}
		if k >= nfam1 && part >= 0 {
			continue // the second family is its own slice (-part -1)
		}
		if k >= nfam1 {
			base, setup, dirs, wnames = base2, setup2, dirs2, wnames2
		}
		img := base.Clone()
		s, err := Start(img, true)
		if err != nil {
			panic(err)
		}
		t.Emit(Reset{Ev: "reset", Seg: seg, Driver: "window", Seed: k, DiskSz: int(img.Size()), Unstable: true, Root: RootFh()})
		seg++
		for _, ev := range setup {
			if ev.Ev == "restart" {
				t.Emit(map[string]interface{}{"ev": "restart", "kind": "clean"})
			} else {
				t.Emit(ev)
			}
		}
		t.Emit(map[string]interface{}{"ev": "restart", "kind": "clean"})
		var seq int64 = 1 << 20
		// warm the name caches? no: cold caches are part of the scenario
		v := e.v.call(dirs)
		v.Cl, v.I = 1, 1000
		var victimG int64
		inWin := make(chan struct{}, 1)
		resume := make(chan struct{})
		var fired int32
		Mon.Yield = func(ev string) {
			if ev == "aborted" && goid() == atomic.LoadInt64(&victimG) && atomic.CompareAndSwapInt32(&fired, 0, 1) {
				inWin <- struct{}{}
				select {
				case <-resume:
				case <-time.After(5 * time.Second):
				}
			}
		}
		done := make(chan struct{})
		a := atomic.AddInt64(&seq, 1)
		go func() {
			atomic.StoreInt64(&victimG, goid())
			defer close(done)
			v.ExecRaw(s.API)
		}()
		var hist []HEv
		hist = append(hist, HEv{Ev: "inv", Seq: a, Cl: 1, Call: v})
		window := false
		select {
		case <-inWin:
			window = true
		case <-done:
		case <-time.After(5 * time.Second):
		}
		if window {
			for j, w := range e.in {
				c := w.call(dirs)
				c.Cl, c.I = 2, 2000+j
				x := atomic.AddInt64(&seq, 1)
				dd := make(chan struct{})
				go func() { defer close(dd); c.Exec(s.API) }()
				select {
				case <-dd:
				case <-time.After(5 * time.Second):
					cc := *c
					cc.St, cc.Wedge = "TIMEOUT", wedgeKind()
					c = &cc
				}
				y := atomic.AddInt64(&seq, 1)
				hist = append(hist, HEv{Ev: "inv", Seq: x, Cl: 2, Call: c},
					HEv{Ev: "ret", Seq: y, Cl: 2, Call: &Call{I: c.I, Data: []Run{}, RData: []Run{}, Ents: []Ent{}, Leaked: []int{}}})
			}
			close(resume)
		}
		wedged := false
		select {
		case <-done:
		case <-time.After(5 * time.Second):
			vv := *v
			vv.St, vv.Wedge = "TIMEOUT", wedgeKind()
			hist[0].Call = &vv
			wedged = true
		}
		Mon.Yield = nil
		b := atomic.AddInt64(&seq, 1)
		hist = append(hist, HEv{Ev: "ret", Seq: b, Cl: 1, Call: &Call{I: v.I, Data: []Run{}, RData: []Run{}, Ents: []Ent{}, Leaked: []int{}}})
		for _, h := range hist {
			t.Emit(h)
		}
		if wedged || hist[0].Call.St == "PANIC" {
			Mon.Reset()
			continue
		}
		s.WaitIdle()
		t.Emit(DumpAPI(s.API, "final"))
		t.Emit(TakeSnap(s, "run", true))
		s.Shutdown()
	}
	return seg
}

// windowBase builds the base image and returns it with the history events of its construction.
func windowBase() (img interface {
	Clone() *vdiskT
	Size() uint64
}, setup []HEv, dirs []string) {
	return windowBaseImpl()
}

var _ = fmt.Sprint
