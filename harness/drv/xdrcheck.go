package drv

import (
	"bufio"
	"encoding/json"
	"fmt"
	"os"
	"reflect"
	"strings"

	"github.com/mit-pdos/go-nfsd/nfs"
	"github.com/mit-pdos/go-nfsd/nfstypes"
	"github.com/zeldovich/go-rpcgen/xdr"

	"verif/harness/vdisk"
)

// C16: the vectors printed by TLC from Xdr.tla/XdrNfs.tla (value tree + bytes) are rebuilt as values of the
// repository's Go types by reflection (in declaration order), encoded with the repository codec, decoded from the
// specification's bytes, offered truncated; every procedure number is driven through the registration tables.
// The harness records what the code did; XdrTrace.tla (TLC) re-computes the encoding and decides.

type procDesc struct {
	Prog int    `json:"prog"`
	Vers int    `json:"vers"`
	Num  int    `json:"num"`
	Name string `json:"name"`
	Arg  string `json:"arg"`
	Res  string `json:"res"`
}

func be(b []interface{}) uint64 {
	var v uint64
	for _, x := range b {
		v = v<<8 | uint64(x.(float64))
	}
	return v
}

func bytesOf(b []interface{}) []byte {
	r := make([]byte, len(b))
	for i, x := range b {
		r[i] = byte(x.(float64))
	}
	return r
}

// build sets v (addressable) from the generic value node.
func build(v reflect.Value, node map[string]interface{}) error {
	k := node["k"].(string)
	t := v.Type()
	switch k {
	case "void":
		return nil
	case "int":
		b := node["b"].([]interface{})
		switch t.Kind() {
		case reflect.Uint32, reflect.Uint64, reflect.Uint:
			v.SetUint(be(b))
		case reflect.Int32, reflect.Int64:
			v.SetInt(int64(be(b)))
		case reflect.Bool:
			v.SetBool(be(b) != 0)
		default:
			return fmt.Errorf("int into %v", t)
		}
	case "bool":
		if t.Kind() != reflect.Bool {
			return fmt.Errorf("bool into %v", t)
		}
		v.SetBool(node["v"].(bool))
	case "bytes":
		b := bytesOf(node["b"].([]interface{}))
		switch t.Kind() {
		case reflect.String:
			v.SetString(string(b))
		case reflect.Slice:
			v.SetBytes(b)
		case reflect.Array:
			if t.Len() != len(b) {
				return fmt.Errorf("array length %d != %d", t.Len(), len(b))
			}
			for i := range b {
				v.Index(i).SetUint(uint64(b[i]))
			}
		default:
			return fmt.Errorf("bytes into %v", t)
		}
	case "arr":
		es := node["e"].([]interface{})
		if t.Kind() != reflect.Slice {
			return fmt.Errorf("arr into %v", t)
		}
		s := reflect.MakeSlice(t, len(es), len(es))
		for i, e := range es {
			if err := build(s.Index(i), e.(map[string]interface{})); err != nil {
				return err
			}
		}
		v.Set(s)
	case "struct":
		fs := node["f"].([]interface{})
		ns := node["n"].([]interface{})
		if t.Kind() != reflect.Struct || t.NumField() != len(fs) {
			return fmt.Errorf("struct of %d fields into %v", len(fs), t)
		}
		for i, f := range fs {
			// members are matched by their RFC names (rpcgen capitalises the first letter)
			fv := v.FieldByName(goName(ns[i].(string)))
			if !fv.IsValid() {
				return fmt.Errorf("%s has no member %s", t.Name(), ns[i])
			}
			if err := build(fv, f.(map[string]interface{})); err != nil {
				return fmt.Errorf("%s.%s: %w", t.Name(), ns[i], err)
			}
		}
	case "union":
		if t.Kind() != reflect.Struct {
			return fmt.Errorf("union into %v", t)
		}
		dv := v.FieldByName(goName(node["dn"].(string)))
		if !dv.IsValid() {
			return fmt.Errorf("union %v has no discriminant %s", t, node["dn"])
		}
		if err := build(dv, node["d"].(map[string]interface{})); err != nil {
			return err
		}
		if int(node["gi"].(float64)) > 0 {
			av := v.FieldByName(goName(node["an"].(string)))
			if !av.IsValid() {
				return fmt.Errorf("union %v has no member %s", t, node["an"])
			}
			return build(av, node["v"].(map[string]interface{}))
		}
	case "opt":
		target := v
		if t.Kind() == reflect.Struct && t.NumField() == 1 && t.Field(0).Type.Kind() == reflect.Ptr {
			target = v.Field(0)
		}
		if target.Kind() != reflect.Ptr {
			return fmt.Errorf("opt into %v", t)
		}
		if node["p"].(bool) {
			n := reflect.New(target.Type().Elem())
			if err := build(n.Elem(), node["v"].(map[string]interface{})); err != nil {
				return err
			}
			target.Set(n)
		}
	default:
		return fmt.Errorf("unknown node %s", k)
	}
	return nil
}

func goName(n string) string {
	if n == "" {
		return n
	}
	return strings.ToUpper(n[:1]) + n[1:]
}

func toInts(b []byte) []int {
	r := make([]int, len(b))
	for i, x := range b {
		r[i] = int(x)
	}
	return r
}

func encode(v reflect.Value) (b []byte, err error) {
	defer func() {
		if r := recover(); r != nil {
			err = fmt.Errorf("panic: %v", r)
		}
	}()
	return xdr.EncodeBuf(v.Interface().(xdr.Xdrable))
}

func decode(b []byte, v reflect.Value) (err error) {
	defer func() {
		if r := recover(); r != nil {
			err = fmt.Errorf("panic: %v", r)
		}
	}()
	rd := xdr.MakeReader(b)
	v.Interface().(xdr.Xdrable).Xdr(rd)
	return rd.Error()
}

// zeroTimes clears the fields that legitimately differ between two servers (times, write verifier).
func zeroTimes(v reflect.Value) {
	switch v.Kind() {
	case reflect.Ptr:
		if !v.IsNil() {
			zeroTimes(v.Elem())
		}
	case reflect.Struct:
		if v.Type() == reflect.TypeOf(nfstypes.Nfstime3{}) || v.Type() == reflect.TypeOf(nfstypes.Writeverf3{}) {
			v.Set(reflect.Zero(v.Type()))
			return
		}
		for i := 0; i < v.NumField(); i++ {
			zeroTimes(v.Field(i))
		}
	case reflect.Array:
		if v.Type() == reflect.TypeOf(nfstypes.Writeverf3{}) {
			v.Set(reflect.Zero(v.Type()))
		}
	}
}

// patchArgs puts live handles and meaningful names into default arguments.
func patchArgs(v reflect.Value, fh []byte, name string, cnt *int) {
	switch v.Kind() {
	case reflect.Struct:
		if v.Type() == reflect.TypeOf(nfstypes.Nfs_fh3{}) {
			v.Field(0).SetBytes(append([]byte{}, fh...))
			return
		}
		for i := 0; i < v.NumField(); i++ {
			patchArgs(v.Field(i), fh, name, cnt)
		}
	case reflect.String:
		if v.Type() == reflect.TypeOf(nfstypes.Filename3("")) {
			*cnt++
			if *cnt == 1 {
				v.SetString(name)
			} else {
				v.SetString(name + "2")
			}
		}
	}
}

// RunXdr reads vectors (lines "VEC {json}" and "PROCS [json]" extracted from TLC's output) and writes the trace.
// poison replaces every string and byte slice inside v by a longer run of 0xee bytes (array lengths and union arms stay).
func poison(v reflect.Value) {
	switch v.Kind() {
	case reflect.Ptr, reflect.Interface:
		if !v.IsNil() {
			poison(v.Elem())
		}
	case reflect.Struct:
		for i := 0; i < v.NumField(); i++ {
			if v.Field(i).CanSet() {
				poison(v.Field(i))
			}
		}
	case reflect.String:
		v.SetString(strings.Repeat("\xee", v.Len()+13))
	case reflect.Slice:
		if v.Type().Elem().Kind() == reflect.Uint8 {
			b := make([]byte, v.Len()+13)
			for i := range b {
				b[i] = 0xee
			}
			if v.Len()+13 <= 64 || v.Type().Name() == "" { // keep handles within NFS3_FHSIZE
				v.SetBytes(b)
			}
			return
		}
		for i := 0; i < v.Len(); i++ {
			poison(v.Index(i))
		}
	case reflect.Array:
		for i := 0; i < v.Len(); i++ {
			poison(v.Index(i))
		}
	}
}

func RunXdr(vecFile string, t *Trace) error {
	f, err := os.Open(vecFile)
	if err != nil {
		return err
	}
	defer f.Close()
	var procs []procDesc
	var vecs []xvec
	sc := bufio.NewScanner(f)
	sc.Buffer(make([]byte, 1<<20), 1<<26)
	for sc.Scan() {
		ln := sc.Text()
		if strings.HasPrefix(ln, "VEC ") {
			var v xvec
			if err := json.Unmarshal([]byte(ln[4:]), &v); err != nil {
				return err
			}
			vecs = append(vecs, v)
		} else if strings.HasPrefix(ln, "PROCS ") {
			if err := json.Unmarshal([]byte(ln[6:]), &procs); err != nil {
				return err
			}
		}
	}
	// Go types of the argument/result types, from the handler methods
	srvT := reflect.TypeOf(&nfs.Nfs{})
	types := map[string]reflect.Type{}
	for _, p := range procs {
		m, ok := srvT.MethodByName(p.Name)
		if !ok {
			t.Emit(map[string]interface{}{"ev": "xdrerr", "what": "no handler method " + p.Name})
			continue
		}
		if p.Arg != "void" && m.Type.NumIn() == 2 {
			types[p.Arg] = m.Type.In(1)
		}
		if p.Res != "void" && m.Type.NumOut() == 1 {
			types[p.Res] = m.Type.Out(0)
		}
	}
	isArg := map[string]bool{} // the types the SERVER decodes
	for _, p := range procs {
		isArg[p.Arg] = true
	}
	t.Emit(map[string]interface{}{"ev": "reset", "seg": 0, "driver": "xdr", "seed": 0, "disksz": 0, "unstable": true, "root": "", "keephist": false})
	for i, vc := range vecs {
		ev := map[string]interface{}{"ev": "xdr", "i": i, "type": vc.Type, "val": vc.Val, "built": false, "got": []int{}, "decerr": "",
			"redec": []int{}, "trunc": 0, "truncok": 0, "note": "", "mut": 0, "mutpanic": 0, "mutunstable": 0}
		gt, ok := types[vc.Type]
		if !ok {
			ev["note"] = "no Go type"
			t.Emit(ev)
			continue
		}
		v := reflect.New(gt)
		if err := build(v.Elem(), vc.Val); err != nil {
			ev["note"] = "build: " + err.Error()
			t.Emit(ev)
			continue
		}
		ev["built"] = true
		// an encoder must not depend on what it encoded before (recycled buffers): first encode the same value with every
		// string and opaque replaced by a longer run of 0xee bytes, then the value itself
		pv := reflect.New(gt)
		if build(pv.Elem(), vc.Val) == nil {
			poison(pv.Elem())
			for k := 0; k < 3; k++ {
				encode(pv)
			}
		}
		if b, err := encode(v); err != nil {
			ev["note"] = "encode: " + err.Error()
		} else {
			ev["got"] = toInts(b)
		}
		// decode the specification's bytes and encode the result again
		sb := make([]byte, len(vc.Bytes))
		for j, x := range vc.Bytes {
			sb[j] = byte(x)
		}
		d := reflect.New(gt)
		if err := decode(sb, d); err != nil {
			ev["decerr"] = err.Error()
		} else if b, err := encode(d); err == nil {
			ev["redec"] = toInts(b)
			if !reflect.DeepEqual(normalize(d.Elem().Interface()), normalize(v.Elem().Interface())) {
				ev["note"] = "decoded value differs from the value built"
			}
		}
		// every strict prefix must be rejected
		n, okc := 0, 0
		for cut := 0; cut < len(sb); cut++ {
			if len(sb) > 200 && cut%7 != 0 {
				continue
			}
			n++
			if decode(sb[:cut], reflect.New(gt)) != nil {
				okc++
			}
		}
		ev["trunc"], ev["truncok"] = n, okc
		// every 4-byte word overwritten with extreme values: the decoder either rejects the message or accepts a value
		// whose encoding decodes to the same value again; it never panics
		mut, mpanic, munstable := 0, 0, 0
		words := len(sb) / 4
		step := 1
		if words > 24 {
			step = (words - 12) / 12
		}
		for w := 0; w < words; w++ {
			if w >= 12 && (w-12)%step != 0 { // the first words (discriminants, lengths) and a dozen spread over the rest
				continue
			}
			vals := []uint32{0xFFFFFFFF, 0x7FFFFFFF, 0x80000000, 2}
			if !isArg[vc.Type] {
				// result types are decoded by clients only; the generated decoder of Mountres3 allocates and walks an
				// array of the size it reads from the wire before it notices the end of the message (minutes for 2^32):
				// no property of the server is concerned, so only small values are tried there
				vals = []uint32{2, 255}
			}
			for _, val := range vals {
				mb := append([]byte{}, sb...)
				mb[4*w], mb[4*w+1], mb[4*w+2], mb[4*w+3] = byte(val>>24), byte(val>>16), byte(val>>8), byte(val)
				mut++
				d1 := reflect.New(gt)
				err := decode(mb, d1)
				if err != nil {
					if strings.HasPrefix(err.Error(), "panic") {
						mpanic++
					}
					continue
				}
				b2, err := encode(d1)
				if err != nil {
					munstable++
					continue
				}
				d2 := reflect.New(gt)
				if decode(b2, d2) != nil || !reflect.DeepEqual(normalize(d2.Elem().Interface()), normalize(d1.Elem().Interface())) {
					munstable++
				}
			}
		}
		ev["mut"], ev["mutpanic"], ev["mutunstable"] = mut, mpanic, munstable
		t.Emit(ev)
	}
	// dispatch: every procedure number through the registration table, compared with the direct call
	for _, p := range procs {
		t.Emit(dispatchOne(p, vecsDefault(vecs, p.Arg), types))
	}
	return nil
}

func normalize(x interface{}) string {
	b, _ := json.Marshal(x)
	return strings.ReplaceAll(string(b), "null", "[]")
}

type xvec struct {
	Type  string                 `json:"type"`
	Val   map[string]interface{} `json:"val"`
	Bytes []int                  `json:"bytes"`
}

func vecsDefault(vecs []xvec, tn string) map[string]interface{} {
	for _, v := range vecs {
		if v.Type == tn {
			return v.Val
		}
	}
	return nil
}

type twin struct {
	s                    *Srv
	root, file, dir, lnk []byte
}

func mkTwin() *twin {
	s, err := Start(vdisk.New(8000), true)
	if err != nil {
		panic(err)
	}
	p := &P{S: s, T: &Trace{}, Root: RootFh()}
	tw := &twin{s: s, root: UnHex(RootFh())}
	c := NewCall("CREATE")
	c.Fh, c.Name = p.Root, "f"
	c.Exec(s.API)
	tw.file = UnHex(c.RFh)
	w := NewCall("WRITE")
	w.Fh, w.Cnt, w.DLen, w.Data, w.Stable = c.RFh, 100, 100, []Run{{100, 5}}, 2
	w.Exec(s.API)
	m := NewCall("MKDIR")
	m.Fh, m.Name = p.Root, "d"
	m.Exec(s.API)
	tw.dir = UnHex(m.RFh)
	l := NewCall("SYMLINK")
	l.Fh, l.Name, l.Target = p.Root, "l", "/t"
	l.Exec(s.API)
	tw.lnk = UnHex(l.RFh)
	return tw
}

func dispatchOne(p procDesc, defArg map[string]interface{}, types map[string]reflect.Type) map[string]interface{} {
	ev := map[string]interface{}{"ev": "dispatch", "prog": p.Prog, "num": p.Num, "name": p.Name, "found": false, "shapeok": false,
		"same": false, "note": ""}
	a, b := mkTwin(), mkTwin()
	defer a.s.Shutdown()
	defer b.s.Shutdown()
	var regs []xdr.ProcRegistration
	if uint32(p.Prog) == nfstypes.NFS_PROGRAM {
		regs = nfstypes.NFS_PROGRAM_NFS_V3_regs(a.s.N)
	} else {
		regs = nfstypes.MOUNT_PROGRAM_MOUNT_V3_regs(a.s.N)
	}
	var h func(*xdr.XdrState) (xdr.Xdrable, error)
	for _, r := range regs {
		if int(r.Prog) == p.Prog && int(r.Vers) == p.Vers && int(r.Proc) == p.Num {
			h = r.Handler
		}
	}
	if h == nil {
		ev["note"] = "no registration for this number"
		return ev
	}
	ev["found"] = true
	// arguments: the default value with live handles and meaningful names
	var argBytes []byte
	var argVal reflect.Value
	if p.Arg != "void" {
		gt := types[p.Arg]
		argVal = reflect.New(gt)
		if err := build(argVal.Elem(), defArg); err != nil {
			ev["note"] = "build args: " + err.Error()
			return ev
		}
		fh, name := a.root, "f"
		switch {
		case strings.HasSuffix(p.Name, "_RMDIR"):
			name = "d"
		case strings.HasSuffix(p.Name, "_CREATE"), strings.HasSuffix(p.Name, "_MKDIR"), strings.HasSuffix(p.Name, "_SYMLINK"), strings.HasSuffix(p.Name, "_MKNOD"):
			name = "new"
		case strings.HasSuffix(p.Name, "_READLINK"):
			fh = a.lnk
		case strings.HasSuffix(p.Name, "_GETATTR"), strings.HasSuffix(p.Name, "_SETATTR"), strings.HasSuffix(p.Name, "_READ"),
			strings.HasSuffix(p.Name, "_WRITE"), strings.HasSuffix(p.Name, "_COMMIT"), strings.HasSuffix(p.Name, "_ACCESS"):
			fh = a.file
		}
		cnt := 0
		patchArgs(argVal.Elem(), fh, name, &cnt)
		if rd, ok := argVal.Interface().(*nfstypes.READ3args); ok {
			rd.Count = 50
		}
		if rd, ok := argVal.Interface().(*nfstypes.READDIR3args); ok {
			rd.Count = 4096
		}
		if rd, ok := argVal.Interface().(*nfstypes.READDIRPLUS3args); ok {
			rd.Dircount, rd.Maxcount = 4096, 16384
		}
		var err error
		if argBytes, err = encode(argVal); err != nil {
			ev["note"] = "encode args: " + err.Error()
			return ev
		}
	}
	// through the registration table (server a)
	var wire []byte
	func() {
		defer func() {
			if r := recover(); r != nil {
				ev["note"] = fmt.Sprint("handler panic: ", r)
			}
		}()
		res, err := h(xdr.MakeReader(argBytes))
		if err != nil {
			ev["note"] = "handler: " + err.Error()
			return
		}
		wire, err = xdr.EncodeBuf(res)
		if err != nil {
			ev["note"] = "encode result: " + err.Error()
		}
	}()
	if ev["note"] != "" {
		return ev
	}
	// direct call of the method with that name (server b, same state)
	m := reflect.ValueOf(b.s.N).MethodByName(p.Name)
	var in []reflect.Value
	if p.Arg != "void" {
		in = []reflect.Value{argVal.Elem()}
	}
	out := m.Call(in)
	if p.Res == "void" {
		ev["shapeok"] = len(wire) == 0
		ev["same"] = len(out) == 0
		return ev
	}
	gt := types[p.Res]
	// shape: the wire bytes must decode as this procedure's result type and re-encode to themselves
	d := reflect.New(gt)
	if err := decode(wire, d); err != nil {
		ev["note"] = "reply does not decode as " + p.Res + ": " + err.Error()
		return ev
	}
	re, _ := encode(d)
	ev["shapeok"] = string(re) == string(wire)
	direct := reflect.New(gt)
	direct.Elem().Set(out[0])
	zeroTimes(d.Elem())
	zeroTimes(direct.Elem())
	b1, _ := encode(d)
	b2, _ := encode(direct)
	ev["same"] = string(b1) == string(b2)
	if !ev["same"].(bool) {
		ev["note"] = fmt.Sprintf("wire %v direct %v", toInts(b1)[:min(len(b1), 12)], toInts(b2)[:min(len(b2), 12)])
	}
	return ev
}

func min(a, b int) int {
	if a < b {
		return a
	}
	return b
}
