package drv

import (
	"fmt"
	"math/rand"
	"os"

	"github.com/mit-pdos/go-nfsd/kvs"
	"github.com/mit-pdos/go-nfsd/simple"

	"verif/harness/vdisk"
)

// Drivers for the two small servers: simple/ (SimpleNFS) and kvs/.

type SFile struct {
	Ino  int   `json:"ino"`
	Size int   `json:"size"`
	Runs []Run `json:"runs"`
	OK   bool  `json:"ok"`
}

type SDump struct {
	Ev    string  `json:"ev"` // "sdump"
	Who   string  `json:"who"`
	Files []SFile `json:"files"`
}

func simpleFh(ino uint64) string {
	b := make([]byte, 16)
	for i := 0; i < 8; i++ {
		b[i] = byte(ino >> (8 * uint(i)))
	}
	return Hex(b)
}

func simpleDump(api API, who string) *SDump {
	d := &SDump{Ev: "sdump", Who: who, Files: []SFile{}}
	for ino := 2; ino < 32; ino++ {
		f := SFile{Ino: ino, Runs: []Run{}}
		g := NewCall("GETATTR")
		g.Fh = simpleFh(uint64(ino))
		g.Exec(api)
		r := NewCall("READ")
		r.Fh, r.Off, r.Cnt = g.Fh, 0, 8192
		r.Exec(api)
		f.OK = g.St == "OK" && r.St == "OK"
		f.Size, f.Runs = g.RSize, r.RData
		d.Files = append(d.Files, f)
	}
	return d
}

type SmallCfg struct {
	Seed   int
	Ops    int
	Crash  bool
	Loss   int
	Avoid  map[string]bool
	DiskSz uint64
}

type simpleGen struct {
	r   *rand.Rand
	cfg SmallCfg
	i   int
	tag int
}

var simpleInos = []uint64{2, 2, 3, 3, 3, 4, 15, 30, 31, 0, 1, 32, 33, 100, 1 << 40, 1<<64 - 1}

func (g *simpleGen) next() *Call {
	const B = 4096
	offs := []int{0, 0, 1, 100, 2000, B - 1, B, B + 1, 2 * B}
	cnts := []int{0, 1, 100, 2000, B - 1, B, B + 1, 2 * B}
	p := g.r.Intn(100)
	var c *Call
	switch {
	case p < 35:
		c = NewCall("WRITE")
		c.Off = offs[g.r.Intn(len(offs))]
		c.Cnt = cnts[g.r.Intn(len(cnts))]
		if g.r.Intn(3) == 0 {
			c.Off, c.Cnt = g.r.Intn(B+10), g.r.Intn(B+10)
		}
		g.tag++
		c.DLen = c.Cnt
		if c.Cnt > 0 {
			c.Data = []Run{{c.Cnt, 1 + g.tag%250}}
		}
		if g.r.Intn(12) == 0 {
			c.Cnt += []int{1, -1, 4096}[g.r.Intn(3)]
			if c.Cnt < 0 {
				c.Cnt = 0
			}
		}
		if g.r.Intn(25) == 0 {
			c.Off, c.OffSat, c.RawOff = HUGE, true, []uint64{1<<64 - 1, 1<<64 - 4096, 1 << 63, 1 << 32}[g.r.Intn(4)]
		}
		c.Stable = g.r.Intn(3)
	case p < 60:
		c = NewCall("READ")
		c.Off = offs[g.r.Intn(len(offs))]
		c.Cnt = cnts[g.r.Intn(len(cnts))]
		if g.r.Intn(3) == 0 {
			c.Off, c.Cnt = g.r.Intn(B+10), g.r.Intn(B+10)
		}
		if g.r.Intn(25) == 0 {
			c.Off, c.OffSat, c.RawOff = HUGE, true, []uint64{1<<64 - 1, 1 << 63, 1 << 32}[g.r.Intn(3)]
		}
	case p < 75:
		c = NewCall("SETATTR")
		if g.r.Intn(8) != 0 {
			c.SetSize = true
			c.Size = []int{0, 1, 100, 2000, B - 1, B, B + 1, 2 * B, 100000}[g.r.Intn(9)]
			if g.r.Intn(20) == 0 && !g.cfg.Avoid["simple-huge-setattr"] {
				c.Size, c.SizeSat, c.RawSize = HUGE, true, []uint64{1 << 63, 1<<64 - 1, 1<<64 - 4097}[g.r.Intn(3)] // sizes Go refuses to allocate (a panic, not an out-of-memory kill)
			}
		}
	case p < 85:
		c = NewCall("GETATTR")
	case p < 90:
		c = NewCall("COMMIT")
	case p < 94:
		c = NewCall("LOOKUP")
		c.Name = []string{"a", "b", "c", "", "."}[g.r.Intn(5)]
		c.NLen = len(c.Name)
	default:
		c = NewCall([]string{"CREATE", "MKDIR", "REMOVE", "RENAME", "READDIR", "FSINFO", "ACCESS", "READDIRPLUS", "SYMLINK", "READLINK", "LINK", "MKNOD", "RMDIR", "FSSTAT", "PATHCONF"}[g.r.Intn(15)])
		c.Name, c.NLen = "a", 1
		c.Name2, c.NLen2 = "b", 1
		c.Fh2 = simpleFh(1)
	}
	ino := simpleInos[g.r.Intn(len(simpleInos))]
	if c.Proc == "LOOKUP" || c.Proc == "READDIR" {
		ino = 1
	}
	c.Fh = simpleFh(ino)
	c.Ino = Clamp(ino)
	if g.r.Intn(15) == 0 {
		// a handle of another length: shorter than the inode number it has to hold, or longer with no valid number in it
		n := []int{0, 1, 4, 7, 8, 9, 24, 64}[g.r.Intn(8)]
		b := make([]byte, n)
		for i := 0; i < n && i < 8; i++ {
			b[i] = byte(ino >> (8 * uint(i)))
		}
		if n >= 8 {
			for i := 0; i < 8; i++ {
				b[i] = 0 // inode number 0: never valid
			}
		}
		c.Fh, c.Ino = Hex(b), 0
	}
	c.I = g.i
	g.i++
	return c
}

func execWatch(api API, c *Call) *Call {
	done := make(chan struct{})
	go func() { defer close(done); c.Exec(api) }()
	select {
	case <-done:
		return c
	case <-timeAfter(10):
		cc := *c
		cc.St = "TIMEOUT"
		return &cc
	}
}

// RunSimple runs sequential traffic (and optionally every crash point) against simple.Nfs.
func RunSimple(cfg SmallCfg, t *Trace, seg int) int {
	d := vdisk.New(cfg.DiskSz)
	if cfg.Crash {
		d.StartRecording()
	}
	var srv *simple.Nfs
	func() {
		defer func() { recover() }()
		srv = simple.MakeNfs(d)
	}()
	if srv == nil {
		panic("simple.MakeNfs failed")
	}
	waitQuiet(d)
	p0 := d.NEvents()
	wrap := func(n *simple.Nfs) API {
		if UseTransport {
			return NewRpcAPI(n)
		}
		return n
	}
	api := wrap(srv)
	g := &simpleGen{r: rand.New(rand.NewSource(int64(cfg.Seed))), cfg: cfg}
	t.Emit(Reset{Ev: "reset", Seg: seg, Driver: "simple", Seed: cfg.Seed, DiskSz: int(cfg.DiskSz), Root: simpleFh(1), KeepHist: cfg.Crash})
	seg++
	wedged := false
	for n := 0; n < cfg.Ops; n++ {
		c := g.next()
		if cfg.Crash {
			d.Mark("inv", c.I)
		}
		c = execWatch(api, c)
		if cfg.Crash {
			d.Mark("ret", c.I)
		}
		t.Emit(c)
		if c.St == "PANIC" || c.St == "TIMEOUT" {
			wedged = true
			break
		}
		if !cfg.Crash && n%40 == 39 {
			t.Emit(simpleDump(api, "run"))
		}
		if !cfg.Crash && g.r.Intn(50) == 0 {
			// restart on the same disk
			t.Emit(simpleDump(api, "run"))
			srv = simple.MakeNfs(d)
			api = wrap(srv)
			t.Emit(map[string]interface{}{"ev": "srestart", "dump": simpleDump(api, "restarted")})
		}
	}
	if wedged {
		return seg
	}
	t.Emit(simpleDump(api, "run"))
	if !cfg.Crash {
		return seg
	}
	waitQuiet(d)
	events := d.StopRecording()
	base := vdisk.New(cfg.DiskSz)
	a, inv := 0, 0
	type pt struct{ a, i int }
	pts := make([]pt, len(events)+1)
	for i, e := range events {
		pts[i] = pt{a, inv}
		if e.Kind == vdisk.EvMark {
			if e.Mark == "inv" {
				inv++
			} else {
				a++
			}
		}
	}
	pts[len(events)] = pt{a, inv}
	r := rand.New(rand.NewSource(int64(cfg.Seed) + 3))
	seen := map[string]bool{}
	nimg := 0
	for p := p0; p <= len(events); p++ {
		if p > p0 && p < len(events) && events[p-1].Kind == vdisk.EvMark {
			continue
		}
		win := vdisk.Window(events, p)
		sets := lossSets(len(win), r, cfg.Loss)
		if !(p == len(events) || events[p].Kind == vdisk.EvBarrier) {
			sets = sets[:1]
		}
		for _, lost := range sets {
			img := vdisk.CrashImage(base, events, p, lost)
			nimg++
			var rec *simple.Nfs
			func() {
				defer func() { recover() }()
				rec = simple.Recover(img)
			}()
			ev := map[string]interface{}{"ev": "scrashprobe", "p": p, "nlost": len(lost), "acked": pts[p].a, "invoked": pts[p].i, "ok": rec != nil}
			var dump *SDump
			if rec != nil {
				dump = simpleDump(rec, "recovered")
			} else {
				dump = &SDump{Ev: "sdump", Files: []SFile{}}
			}
			ev["dump"] = dump
			key := fmt.Sprint(pts[p].a, pts[p].i, rec != nil, hashOf(dump))
			if seen[key] {
				continue
			}
			seen[key] = true
			t.Emit(ev)
		}
	}
	fmt.Fprintf(os.Stderr, "simple crash: %d events, %d images, %d distinct\n", len(events), nimg, len(seen))
	return seg
}

func waitQuiet(d *vdisk.Disk) {
	last := -1
	for i := 0; i < 400; i++ {
		n := d.NEvents()
		if n == last && i > 2 {
			return
		}
		last = n
		sleepMs(3)
	}
}

// ---------------------------------------------------------------------------
// kvs

type KvEv struct {
	Ev    string   `json:"ev"` // "kv"
	I     int      `json:"i"`
	Op    string   `json:"op"` // put | get
	Pairs [][2]int `json:"pairs"`
	Key   int      `json:"key"`
	Val   int      `json:"val"` // byte value of a constant block, -1 if the block is not constant
	OK    bool     `json:"ok"`
	St    string   `json:"st"` // OK | PANIC
}

func blockOf(v int) []byte {
	b := make([]byte, 4096)
	for i := range b {
		b[i] = byte(v)
	}
	return b
}

func valOf(b []byte) int {
	if len(b) != 4096 {
		return -2
	}
	for _, x := range b {
		if x != b[0] {
			return -1
		}
	}
	return int(b[0])
}

func kvDump(k *kvs.KVS, keys []uint64, who string) map[string]interface{} {
	kv := [][2]int{}
	for _, key := range keys {
		p, ok := k.Get(key)
		v := -3
		if ok {
			v = valOf(p.Val)
		}
		kv = append(kv, [2]int{int(key), v})
	}
	return map[string]interface{}{"ev": "kdump", "who": who, "kv": kv}
}

// RunKvs runs sequential puts/gets (and optionally every crash point) against kvs.KVS.
func RunKvs(cfg SmallCfg, t *Trace, seg int) int {
	sz := cfg.DiskSz
	d := vdisk.New(sz + 8) // Get accepts key == sz; keep the disk a little larger than the store
	if cfg.Crash {
		d.StartRecording()
	}
	k := kvs.MkKVS(d, sz)
	waitQuiet(d)
	p0 := d.NEvents()
	r := rand.New(rand.NewSource(int64(cfg.Seed)))
	// key universe: the boundaries of the valid range and a few in the middle
	keys := []uint64{513, 514, 515, 600, 601, sz - 2, sz - 1}
	if cfg.Avoid["__bigput"] {
		// a large key universe so that one put can exceed the journal's capacity (511 blocks)
		keys = nil
		for k := uint64(513); k < 513+700; k++ {
			keys = append(keys, k)
		}
		keys = append(keys, sz-1)
	}
	t.Emit(map[string]interface{}{"ev": "reset", "seg": seg, "driver": "kvs", "seed": cfg.Seed, "disksz": int(sz), "unstable": false,
		"root": "", "keephist": cfg.Crash, "keys": keys, "lo": 513, "hi": int(sz)})
	seg++
	tag := 0
	var all []*KvEv
	for n := 0; n < cfg.Ops; n++ {
		e := &KvEv{Ev: "kv", I: n, Pairs: [][2]int{}, St: "OK"}
		if r.Intn(100) < 60 {
			e.Op = "put"
			np := []int{1, 1, 2, 3, 5, 7, 12}[r.Intn(7)]
			if cfg.Avoid["__bigput"] {
				np = []int{1, 3, 500, 510, 511, 512, 513, 600}[r.Intn(8)]
			}
			var pairs []kvs.KVPair
			perm := r.Perm(len(keys))
			bad := r.Intn(12) == 0 // include a key just outside the valid range [513, sz)
			for j := 0; j < np; j++ {
				key := keys[r.Intn(len(keys))]
				if cfg.Avoid["__bigput"] && j < len(perm) {
					key = keys[perm[j]] // distinct keys
				}
				if bad && j == np-1 {
					key = []uint64{512, sz, sz + 1, 0}[r.Intn(4)]
				}
				tag++
				v := 1 + tag%250
				e.Pairs = append(e.Pairs, [2]int{int(key), v})
				pairs = append(pairs, kvs.KVPair{Key: key, Val: blockOf(v)})
			}
			if cfg.Crash {
				d.Mark("inv", n)
			}
			func() {
				defer func() {
					if x := recover(); x != nil {
						e.St = "PANIC"
					}
				}()
				e.OK = k.MultiPut(pairs)
			}()
			if cfg.Crash {
				d.Mark("ret", n)
			}
		} else {
			e.Op = "get"
			key := keys[r.Intn(len(keys))]
			if r.Intn(15) == 0 {
				key = []uint64{512, sz, sz + 1, 0}[r.Intn(4)]
			}
			e.Key = int(key)
			if cfg.Crash {
				d.Mark("inv", n)
			}
			func() {
				defer func() {
					if x := recover(); x != nil {
						e.St = "PANIC"
					}
				}()
				p, ok := k.Get(key)
				e.OK = ok
				e.Val = valOf(p.Val)
			}()
			e.Pairs = [][2]int{}
			if cfg.Crash {
				d.Mark("ret", n)
			}
		}
		all = append(all, e)
		t.Emit(e)
		if !cfg.Crash && r.Intn(40) == 0 {
			k.Delete() // shuts the log down
			k = kvs.MkKVS(d, sz)
			t.Emit(map[string]interface{}{"ev": "krestart", "dump": kvDump(k, keys, "restarted")})
		}
	}
	t.Emit(kvDump(k, keys, "run"))
	if !cfg.Crash {
		k.Delete()
		return seg
	}
	waitQuiet(d)
	events := d.StopRecording()
	k.Delete()
	base := vdisk.New(sz + 8)
	a, inv := 0, 0
	type pt struct{ a, i int }
	pts := make([]pt, len(events)+1)
	for i, e := range events {
		pts[i] = pt{a, inv}
		if e.Kind == vdisk.EvMark {
			if e.Mark == "inv" {
				inv++
			} else {
				a++
			}
		}
	}
	pts[len(events)] = pt{a, inv}
	rr := rand.New(rand.NewSource(int64(cfg.Seed) + 3))
	seen := map[string]bool{}
	nimg := 0
	for p := p0; p <= len(events); p++ {
		if p > p0 && p < len(events) && events[p-1].Kind == vdisk.EvMark {
			continue
		}
		win := vdisk.Window(events, p)
		sets := lossSets(len(win), rr, cfg.Loss)
		if !(p == len(events) || events[p].Kind == vdisk.EvBarrier) {
			sets = sets[:1]
		}
		for _, lost := range sets {
			img := vdisk.CrashImage(base, events, p, lost)
			nimg++
			var rec *kvs.KVS
			func() {
				defer func() { recover() }()
				rec = kvs.MkKVS(img, sz)
			}()
			ev := map[string]interface{}{"ev": "kcrashprobe", "p": p, "nlost": len(lost), "acked": pts[p].a, "invoked": pts[p].i, "ok": rec != nil}
			var dump map[string]interface{}
			if rec != nil {
				dump = kvDump(rec, keys, "recovered")
				rec.Delete()
			} else {
				dump = map[string]interface{}{"ev": "kdump", "who": "recovered", "kv": [][2]int{}}
			}
			ev["dump"] = dump
			key := fmt.Sprint(pts[p].a, pts[p].i, rec != nil, hashOf(dump))
			if seen[key] {
				continue
			}
			seen[key] = true
			t.Emit(ev)
		}
	}
	fmt.Fprintf(os.Stderr, "kvs crash: %d events, %d images, %d distinct\n", len(events), nimg, len(seen))
	return seg
}
