package drv

import (
	"encoding/binary"
	"reflect"
	"sort"
	"unsafe"

	"github.com/mit-pdos/go-journal/addr"
	"github.com/mit-pdos/go-journal/alloc"
	"github.com/mit-pdos/go-journal/common"
	"github.com/mit-pdos/go-nfsd/dcache"
	"github.com/mit-pdos/go-nfsd/inode"
)

// Structural snapshot of a server: the logical disk (home blocks overlaid with
// the log, read through the journal of the instance) decoded independently of
// the repository's decoders, plus the in-memory caches and allocators.

type Iv [2]int // [lo, hi)

type SInode struct {
	Inum  int      `json:"inum"`
	Kind  int      `json:"kind"`
	Nlink int      `json:"nlink"`
	Gen   int      `json:"gen"`
	Size  int      `json:"size"`
	Ssz   int      `json:"ssz"`  // ShrinkSize, in blocks
	Tm    []int    `json:"tm"`   // atime and mtime: seconds (mod 10^9) and nanoseconds each
	Blks  []int    `json:"blks"` // the 10 pointers of the inode
	Data  [][2]int `json:"data"` // [logical block index, block number] of every mapped data block
	Ind   [][2]int `json:"ind"`  // [block number, level] of every indirect block reachable
	Bad   string   `json:"bad"`  // decoding problem (pointer outside the disk, ...)
}

type SSlot struct {
	Slot int    `json:"slot"`
	Inum int    `json:"inum"`
	Name string `json:"name"`
	NLen int    `json:"nlen"`
}

type SDir struct {
	Inum  int     `json:"inum"`
	Size  int     `json:"size"`
	Slots []SSlot `json:"slots"`
	Short bool    `json:"short"` // size not a multiple of the slot size or unreadable
}

type SDc struct {
	Name string `json:"name"`
	Inum int    `json:"inum"`
	Off  int    `json:"off"`
}

type SCache struct {
	Inum  int   `json:"inum"`
	Kind  int   `json:"kind"`
	Nlink int   `json:"nlink"`
	Gen   int   `json:"gen"`
	Size  int   `json:"size"`
	Ssz   int   `json:"ssz"`
	Tm    []int `json:"tm"`
	Blks  []int `json:"blks"`
	HasDc bool  `json:"hasdc"`
	Dc    []SDc `json:"dc"`
}

type Snap struct {
	Ev        string   `json:"ev"` // "snap"
	Who       string   `json:"who"`
	Size      int      `json:"size"`
	NLog      int      `json:"nlog"`
	BbmStart  int      `json:"bbmstart"`
	NBbm      int      `json:"nbbm"`
	IbmStart  int      `json:"ibmstart"`
	InoStart  int      `json:"inostart"`
	DataStart int      `json:"datastart"`
	NInode    int      `json:"ninode"`
	Bbm       []Iv     `json:"bbm"` // set bits of the on-disk block bitmap
	Ibm       []Iv     `json:"ibm"`
	Inodes    []SInode `json:"inodes"` // every inode with a non-zero field
	Ipos      []int    `json:"ipos"`   // large snapshots only: ipos[inum] = position of that inode in Inodes (1-based), 0 = not listed
	Dirs      []SDir   `json:"dirs"`
	NonZero   []Iv     `json:"nonzero"` // data-region blocks with a non-zero byte
	Running   bool     `json:"running"` // caches/allocators present
	Idle      bool     `json:"idle"`    // no shrinker thread
	Balloc    []Iv     `json:"balloc"`
	Ialloc    []Iv     `json:"ialloc"`
	Icache    []SCache `json:"icache"`
}

func bitsToIv(bm []byte) []Iv {
	iv := []Iv{}
	n := len(bm) * 8
	i := 0
	for i < n {
		if bm[i/8] == 0 && i%8 == 0 {
			i += 8
			continue
		}
		if bm[i/8]&(1<<uint(i%8)) == 0 {
			i++
			continue
		}
		j := i
		for j < n && bm[j/8]&(1<<uint(j%8)) != 0 {
			if bm[j/8] == 0xff && j%8 == 0 {
				j += 8
			} else {
				j++
			}
		}
		iv = append(iv, Iv{i, j})
		i = j
	}
	return iv
}

func allocBitmap(a *alloc.Alloc) []byte {
	v := reflect.ValueOf(a).Elem().FieldByName("bitmap")
	b := *(*[]byte)(unsafe.Pointer(v.UnsafeAddr()))
	c := make([]byte, len(b))
	copy(c, b)
	return c
}

func isZero(b []byte) bool {
	for _, x := range b {
		if x != 0 {
			return false
		}
	}
	return true
}

const (
	sNDirect = 8
	sNPtr    = 512
)

// TakeSnap decodes the logical disk of s (and its caches when running is true).
func TakeSnap(s *Srv, who string, running bool) *Snap {
	st := s.N.VerifState()
	sup := st.Super
	rd := func(bn uint64) []byte {
		return st.Txn.Load(addr.MkAddr(bn, 0), common.NBITBLOCK).Data
	}
	sz := sup.Size
	sn := &Snap{Ev: "snap", Who: who, Size: int(sz), NLog: int(common.LOGSIZE),
		BbmStart: int(sup.BitmapBlockStart()), NBbm: int(sup.NBlockBitmap), IbmStart: int(sup.BitmapInodeStart()),
		InoStart: int(sup.InodeStart()), DataStart: int(sup.DataStart()), NInode: int(sup.NInode()),
		Inodes: []SInode{}, Dirs: []SDir{}, Icache: []SCache{}, Balloc: []Iv{}, Ialloc: []Iv{},
		Running: running, Idle: s.N.VerifShrinker().VerifNThread() == 0}
	var bbm []byte
	for i := uint64(0); i < sup.NBlockBitmap; i++ {
		bbm = append(bbm, rd(uint64(sup.BitmapBlockStart())+i)...)
	}
	sn.Bbm = bitsToIv(bbm)
	sn.Ibm = bitsToIv(rd(uint64(sup.BitmapInodeStart())))
	// inode table
	readBlk := func(bn int) []byte {
		if bn <= 0 || uint64(bn) >= sz {
			return nil
		}
		return rd(uint64(bn))
	}
	nIno := int(sup.NInode())
	for ib := 0; ib < nIno/32; ib++ {
		blk := rd(uint64(sup.InodeStart()) + uint64(ib))
		if isZero(blk) {
			continue
		}
		for k := 0; k < 32; k++ {
			raw := blk[k*128 : (k+1)*128]
			if isZero(raw) {
				continue
			}
			in := SInode{Inum: ib*32 + k, Blks: []int{}, Data: [][2]int{}, Ind: [][2]int{}}
			in.Kind = int(binary.LittleEndian.Uint32(raw[0:]))
			in.Nlink = Clamp(uint64(binary.LittleEndian.Uint32(raw[4:])))
			in.Gen = Clamp(binary.LittleEndian.Uint64(raw[8:]))
			in.Size = Clamp(binary.LittleEndian.Uint64(raw[16:]))
			in.Ssz = Clamp(binary.LittleEndian.Uint64(raw[24:]))
			in.Tm = []int{int(binary.LittleEndian.Uint32(raw[32:]) % 1000000000), int(binary.LittleEndian.Uint32(raw[36:]) % 1000000000),
				int(binary.LittleEndian.Uint32(raw[40:]) % 1000000000), int(binary.LittleEndian.Uint32(raw[44:]) % 1000000000)}
			for j := 0; j < 10; j++ {
				in.Blks = append(in.Blks, Clamp(binary.LittleEndian.Uint64(raw[48+8*j:])))
			}
			// walk the block map
			for j := 0; j < sNDirect; j++ {
				if in.Blks[j] != 0 {
					in.Data = append(in.Data, [2]int{j, in.Blks[j]})
				}
			}
			var walk func(bn, level, base int)
			walk = func(bn, level, base int) {
				if bn == 0 {
					return
				}
				if level == 0 {
					in.Data = append(in.Data, [2]int{base, bn})
					return
				}
				in.Ind = append(in.Ind, [2]int{bn, level})
				b := readBlk(bn)
				if b == nil {
					in.Bad = "indirect pointer outside the disk"
					return
				}
				span := 1
				for l := 1; l < level; l++ {
					span *= sNPtr
				}
				for j := 0; j < sNPtr; j++ {
					p := Clamp(binary.LittleEndian.Uint64(b[8*j:]))
					if p != 0 {
						if len(in.Data)+len(in.Ind) > 400000 {
							in.Bad = "block map too large"
							return
						}
						walk(p, level-1, base+j*span)
					}
				}
			}
			walk(in.Blks[8], 1, sNDirect)
			walk(in.Blks[9], 2, sNDirect+sNPtr)
			sn.Inodes = append(sn.Inodes, in)
			if in.Kind == 2 {
				d := SDir{Inum: in.Inum, Size: in.Size, Slots: []SSlot{}}
				if in.Size%128 != 0 || in.Size > 1<<24 {
					d.Short = true
				} else {
					bm := map[int]int{}
					for _, p := range in.Data {
						bm[p[0]] = p[1]
					}
					for off := 0; off < in.Size; off += 128 {
						bn := bm[off/4096]
						if bn == 0 {
							continue // a hole: empty slots
						}
						b := readBlk(bn)
						if b == nil {
							d.Short = true
							break
						}
						e := b[off%4096 : off%4096+128]
						ino := binary.LittleEndian.Uint64(e[0:])
						l := binary.LittleEndian.Uint64(e[8:])
						if ino == 0 {
							continue
						}
						sl := SSlot{Slot: off / 128, Inum: Clamp(ino), NLen: Clamp(l)}
						if l <= 112 {
							sl.Name = string(e[16 : 16+l])
						} else {
							sl.Name = "<bad length>"
						}
						d.Slots = append(d.Slots, sl)
					}
				}
				sn.Dirs = append(sn.Dirs, d)
			}
		}
	}
	// non-zero data blocks
	nz := []int{}
	for bn := uint64(sup.DataStart()); bn < sz && !SnapSkipNonZero; bn++ {
		if !isZero(rd(bn)) {
			nz = append(nz, int(bn))
		}
	}
	sn.NonZero = listToIv(nz)
	if running {
		sn.Balloc = bitsToIv(allocBitmap(st.Balloc))
		sn.Ialloc = bitsToIv(allocBitmap(st.Ialloc))
		st.Icache.VerifEach(func(id uint64, obj interface{}) {
			if obj == nil {
				return
			}
			ip := obj.(*inode.Inode)
			c := SCache{Inum: int(id), Kind: int(ip.Kind), Nlink: Clamp(uint64(ip.Nlink)), Gen: Clamp(ip.Gen), Size: Clamp(ip.Size),
				Ssz: Clamp(ip.ShrinkSize), Blks: []int{}, Dc: []SDc{},
				Tm: []int{int(uint32(ip.Atime.Seconds) % 1000000000), int(uint32(ip.Atime.Nseconds) % 1000000000),
					int(uint32(ip.Mtime.Seconds) % 1000000000), int(uint32(ip.Mtime.Nseconds) % 1000000000)}}
			for _, b := range ip.VerifBlks() {
				c.Blks = append(c.Blks, Clamp(b))
			}
			if ip.Dcache != nil {
				c.HasDc = true
				ip.Dcache.VerifEach(func(name string, d dcache.Dentry) {
					c.Dc = append(c.Dc, SDc{Name: name, Inum: Clamp(d.Inum), Off: Clamp(d.Off)})
				})
				sort.Slice(c.Dc, func(i, j int) bool { return c.Dc[i].Name < c.Dc[j].Name })
			}
			sn.Icache = append(sn.Icache, c)
		})
		sort.Slice(sn.Icache, func(i, j int) bool { return sn.Icache[i].Inum < sn.Icache[j].Inum })
	}
	sn.Ipos = []int{}
	if len(sn.Inodes) > 300 {
		max := 0
		for _, in := range sn.Inodes {
			if in.Inum > max {
				max = in.Inum
			}
		}
		sn.Ipos = make([]int, max+1)
		for k, in := range sn.Inodes {
			sn.Ipos[in.Inum] = k + 1
		}
	}
	return sn
}

func listToIv(l []int) []Iv {
	iv := []Iv{}
	for i := 0; i < len(l); {
		j := i
		for j+1 < len(l) && l[j+1] == l[j]+1 {
			j++
		}
		iv = append(iv, Iv{l[i], l[j] + 1})
		i = j + 1
	}
	return iv
}
