package drv

import (
	"fmt"
	"math/rand"
	"os"
	"runtime"
	"sort"
	"strings"
	"sync"
	"sync/atomic"
	"time"

	"github.com/mit-pdos/go-nfsd/inode"

	"verif/harness/vdisk"
)

// Concurrent histories: several client goroutines issue conflicting RPCs; invoke
// and return are stamped with one shared sequence counter; the reply of a call is
// joined to its invoke event so that the linearizability search (NfsLin.tla) can
// bind the server's choices at the linearization point.

type ConcCfg struct {
	Seed     int
	Clients  int
	OpsPer   int
	Unstable bool
	Avoid    map[string]bool
	Access   bool // record inode accesses and lock events (C14)
	DiskSz   uint64
	Crash    bool // record the disk stream of the concurrent part and recover from crash images cut inside it
	Loss     int
	MaxImg   int
	Storm    bool // most requests truncate and re-extend the one large sparse file (several background shrinkers at a time)
	Many     int  // extra files created in the set-up and used by all clients (more inodes than the inode cache holds)
}

type HEv struct {
	Ev   string `json:"ev"` // inv | ret
	Seq  int64  `json:"seq"`
	Cl   int    `json:"cl"`
	Call *Call  `json:"call,omitempty"` // (absent in a "restart" line)
}

type concShared struct {
	dirs  []string // handles of shared directories
	files []string // handles of shared regular files
	big   string   // a file large enough to need the background shrinker when truncated
	names []string
}

// dirName: under the filter for KF-D20 directories get names that RENAME never uses
func (g *concGen) dirName() string {
	if g.avoid["rename-dir-cross"] {
		return []string{"dd", "de"}[g.r.Intn(2)]
	}
	return g.pickName()
}

func (g *concGen) pickName() string { return g.sh.names[g.r.Intn(len(g.sh.names))] }

type concGen struct {
	r     *rand.Rand
	sh    *concShared
	cl    int
	avoid map[string]bool
	tag   *int32
	my    []string // handles this client created (files)
	storm bool
}

func (g *concGen) next() *Call {
	sh := g.sh
	d := sh.dirs[g.r.Intn(len(sh.dirs))]
	p := g.r.Intn(100)
	var c *Call
	tagv := func() int { return 1 + int(atomic.AddInt32(g.tag, 1))%250 }
	anyFile := func() string {
		if len(g.my) > 0 && g.r.Intn(3) == 0 {
			return g.my[g.r.Intn(len(g.my))]
		}
		return sh.files[g.r.Intn(len(sh.files))]
	}
	if g.storm && g.r.Intn(10) < 6 {
		c = NewCall("SETATTR")
		c.Fh, c.SetSize = sh.big, true
		c.Size = []int{0, 1300 * 4096, 0, 700 * 4096, 4096 * 3, 1300 * 4096}[g.r.Intn(6)]
		c.NLen, c.NLen2 = 0, 0
		return c
	}
	switch {
	case p < 14:
		c = NewCall("CREATE")
		c.Fh, c.Name = d, g.pickName()
		c.How = g.r.Intn(2)
	case p < 24:
		c = NewCall("REMOVE")
		c.Fh, c.Name = d, g.pickName()
	case p < 40:
		c = NewCall("RENAME")
		c.Fh, c.Name = d, g.pickName()
		c.Fh2, c.Name2 = sh.dirs[g.r.Intn(len(sh.dirs))], g.pickName()
	case p < 48:
		c = NewCall("LOOKUP")
		c.Fh, c.Name = d, g.pickName()
		if g.r.Intn(6) == 0 {
			c.Name = ".."
		}
	case p < 53:
		c = NewCall("MKDIR")
		c.Fh, c.Name = d, g.dirName()
	case p < 57:
		c = NewCall("RMDIR")
		c.Fh, c.Name = d, g.dirName()
	case p < 69:
		c = NewCall("WRITE")
		c.Fh = anyFile()
		c.Off = []int{0, 100, 4000, 4096, 8000, 8192, 30000, 32768}[g.r.Intn(8)]
		c.Cnt = []int{1, 200, 4096, 5000, 9000}[g.r.Intn(5)]
		c.DLen = c.Cnt
		c.Data = []Run{{c.Cnt, tagv()}}
		c.Stable = g.r.Intn(3)
	case p < 78:
		c = NewCall("READ")
		c.Fh = anyFile()
		c.Off = []int{0, 100, 4096, 8000, 30000}[g.r.Intn(5)]
		c.Cnt = []int{100, 4096, 20000}[g.r.Intn(3)] // all below rtmax
	case p < 86:
		c = NewCall("SETATTR")
		c.Fh = anyFile()
		c.SetSize = true
		c.Size = []int{0, 1, 4096, 5000, 10000, 40000}[g.r.Intn(6)]
		if g.r.Intn(5) == 0 {
			c.Fh = sh.big
			c.Size = []int{0, 4096 * 3, 700 * 4096, 1300 * 4096}[g.r.Intn(4)]
		}
	case p < 90:
		c = NewCall("GETATTR")
		c.Fh = anyFile()
		if g.r.Intn(3) == 0 {
			c.Fh = sh.big
		}
	case p < 95:
		c = NewCall("READDIR")
		c.Fh, c.Cnt = d, 4096
	default:
		c = NewCall("READDIRPLUS")
		c.Fh, c.DirCount, c.MaxCount = d, 4096, 16384
		if g.avoid["readdirplus-concurrent"] {
			c = NewCall("READDIR")
			c.Fh, c.Cnt = d, 4096
		}
	}
	c.NLen, c.NLen2 = len(c.Name), len(c.Name2)
	return c
}

// RunConc runs one concurrent history and writes it to t.
func RunConc(cfg ConcCfg, t *Trace, seg int) {
	if cfg.DiskSz == 0 {
		cfg.DiskSz = 30000
	}
	if cfg.Crash {
		cfg.Unstable = false // every commit waits: a call that returned is durable
	}
	d := vdisk.New(cfg.DiskSz)
	s, err := Start(d, cfg.Unstable)
	if err != nil {
		panic(err)
	}
	r := rand.New(rand.NewSource(int64(cfg.Seed)))
	root := RootFh()
	t.Emit(Reset{Ev: "reset", Seg: seg, Driver: "conc", Seed: cfg.Seed, DiskSz: int(cfg.DiskSz), Unstable: cfg.Unstable, Root: root})
	// sequential set-up (part of the history: one client, no overlap)
	var seq int64
	idx := 0
	doSeq := func(c *Call) *Call {
		c.I = idx
		idx++
		c.NLen, c.NLen2 = len(c.Name), len(c.Name2)
		a := atomic.AddInt64(&seq, 1)
		c = s.Do(c)
		b := atomic.AddInt64(&seq, 1)
		t.Emit(HEv{Ev: "inv", Seq: a, Cl: 0, Call: c})
		t.Emit(HEv{Ev: "ret", Seq: b, Cl: 0, Call: &Call{I: c.I, Data: []Run{}, RData: []Run{}, Ents: []Ent{}, Leaked: []int{}}})
		return c
	}
	lim := NewCall("FSINFO")
	lim.Fh = root
	doSeq(lim)
	pc := NewCall("PATHCONF")
	pc.Fh = root
	doSeq(pc)
	sh := &concShared{names: []string{"a", "b", "c"}}
	// some junk first so that directories get larger inode numbers than later children can have
	for i := 0; i < 3; i++ {
		c := NewCall("CREATE")
		c.Fh, c.Name = root, fmt.Sprintf("junk%d", i)
		doSeq(c)
	}
	sh.dirs = append(sh.dirs, root)
	for i := 0; i < 2; i++ {
		c := NewCall("MKDIR")
		c.Fh, c.Name = root, fmt.Sprintf("dir%d", i)
		if c = doSeq(c); c.St == "OK" {
			sh.dirs = append(sh.dirs, c.RFh)
		}
	}
	for i := 0; i < 3; i++ { // free low inode numbers: children created later get numbers below their directories
		c := NewCall("REMOVE")
		c.Fh, c.Name = root, fmt.Sprintf("junk%d", i)
		doSeq(c)
	}
	for i, dn := range []string{"a", "b"} {
		c := NewCall("CREATE")
		c.Fh, c.Name = sh.dirs[i%len(sh.dirs)], dn
		if c = doSeq(c); c.St == "OK" {
			sh.files = append(sh.files, c.RFh)
			w := NewCall("WRITE")
			w.Fh, w.Off, w.Cnt, w.DLen, w.Data, w.Stable = c.RFh, 0, 6000, 6000, []Run{{6000, 200 + i}}, 2
			doSeq(w)
		}
	}
	{
		c := NewCall("CREATE")
		c.Fh, c.Name = root, "big"
		if c = doSeq(c); c.St == "OK" {
			sh.big = c.RFh
			sa := NewCall("SETATTR")
			sa.Fh, sa.SetSize, sa.Size = c.RFh, true, 1300*4096
			doSeq(sa)
			w := NewCall("WRITE")
			w.Fh, w.Off, w.Cnt, w.DLen, w.Data, w.Stable = c.RFh, 1200*4096, 100, 100, []Run{{100, 222}}, 2
			doSeq(w)
		}
	}
	if len(sh.files) == 0 || sh.big == "" {
		panic("concurrent set-up failed")
	}
	for i := 0; i < cfg.Many; i++ {
		c := NewCall("CREATE")
		c.Fh, c.Name = sh.dirs[1+i%2], fmt.Sprintf("m%d", i)
		if c = doSeq(c); c.St == "OK" {
			sh.files = append(sh.files, c.RFh)
		}
	}
	if cfg.Seed%3 != 0 {
		// restart: the allocator starts again at the lowest free inode number, so objects created from now on get
		// numbers below their directories' (2, 3, 4 were freed above), and all caches are cold
		s.WaitIdle()
		s.Shutdown()
		s2, err := Start(d, cfg.Unstable)
		if err != nil {
			panic(err)
		}
		s = s2
		t.Emit(map[string]interface{}{"ev": "restart", "kind": "clean"})
	}
	// yields at lock acquisition / commit points, seeded
	var yr uint32 = uint32(cfg.Seed)*2654435761 + 1
	Mon.Yield = func(ev string) {
		x := atomic.AddUint32(&yr, 0x9e3779b9)
		x ^= x >> 15
		if ev == "aborted" && x%2 == 0 {
			// a transaction that aborts in order to re-lock has just opened a window without locks: widen it
			time.Sleep(time.Duration(200+x%1500) * time.Microsecond)
			return
		}
		switch x % 7 {
		case 0, 1:
			runtime.Gosched()
		case 2:
			time.Sleep(time.Duration(20+x%200) * time.Microsecond)
		}
	}
	if cfg.Access {
		Mon.WantG = true
		Mon.Record(true)
		inode.VerifAccess = func(ip *inode.Inode, what string) { Mon.Acc(uint64(ip.Inum), what) }
	}
	var base *vdisk.Disk
	if cfg.Crash {
		quiesce(d, s)
		base = d.StartRecording()
	}
	var mu sync.Mutex
	var evs []HEv
	var wg sync.WaitGroup
	var tag int32
	wedged := int32(0)
	for cl := 1; cl <= cfg.Clients; cl++ {
		wg.Add(1)
		go func(cl int) {
			defer wg.Done()
			g := &concGen{r: rand.New(rand.NewSource(int64(cfg.Seed)*31 + int64(cl))), sh: sh, cl: cl, tag: &tag, avoid: cfg.Avoid, storm: cfg.Storm}
			api := s.API
			if UseTransport { // every client over a connection of its own: concurrent requests in the repository's RPC layer
				ra := NewRpcAPI(s.N)
				defer ra.Close()
				api = ra
			}
			for n := 0; n < cfg.OpsPer && atomic.LoadInt32(&wedged) == 0; n++ {
				c := g.next()
				c.Cl = cl
				c.I = cl*1000 + n
				a := atomic.AddInt64(&seq, 1)
				if cfg.Crash {
					d.Mark("inv", c.I)
				}
				done := make(chan struct{})
				go func() { defer close(done); c.Exec(api) }()
				select {
				case <-done:
				case <-time.After(8 * time.Second):
					cc := *c
					cc.St = "TIMEOUT"
					cc.Wedge = wedgeKind()
					c = &cc
					atomic.StoreInt32(&wedged, 1)
				}
				b := atomic.AddInt64(&seq, 1)
				if cfg.Crash {
					d.Mark("ret", c.I)
				}
				if c.Proc == "READDIRPLUS" {
					for k := range c.Ents { // a child's size may change while the listing is being built (see NfsSpec.PageRules)
						c.Ents[k].Size = -1
					}
				}
				if c.St == "PANIC" {
					atomic.StoreInt32(&wedged, 1)
				}
				if c.St == "OK" && c.Proc == "CREATE" && c.HasFh {
					g.my = append(g.my, c.RFh)
				}
				mu.Lock()
				evs = append(evs, HEv{Ev: "inv", Seq: a, Cl: cl, Call: c})
				evs = append(evs, HEv{Ev: "ret", Seq: b, Cl: cl, Call: &Call{I: c.I, Data: []Run{}, RData: []Run{}, Ents: []Ent{}, Leaked: []int{}}})
				mu.Unlock()
			}
		}(cl)
	}
	wg.Wait()
	_ = r
	Mon.Yield = nil
	var stream []vdisk.Event
	probes := map[int][]*CrashProbe{}
	if cfg.Crash {
		if atomic.LoadInt32(&wedged) == 0 {
			quiesce(d, s)
		}
		stream = d.StopRecording()
		// the history order is the order of the markers in the disk stream
		pos := map[[2]int]int64{}
		k := int64(0)
		for _, e := range stream {
			if e.Kind == vdisk.EvMark {
				k++
				kind := 0
				if e.Mark == "ret" {
					kind = 1
				}
				pos[[2]int{kind, e.Arg}] = k
			}
		}
		for i := range evs {
			kind := 0
			if evs[i].Ev == "ret" {
				kind = 1
			}
			evs[i].Seq = seq + pos[[2]int{kind, evs[i].Call.I}]
		}
	}
	sort.Slice(evs, func(i, j int) bool { return evs[i].Seq < evs[j].Seq })
	if cfg.Crash && atomic.LoadInt32(&wedged) == 0 {
		probes = concCrashProbes(cfg, base, stream)
	}
	if !cfg.Access {
		for _, pr := range probes[0] {
			t.Emit(pr)
		}
		for i, e := range evs {
			t.Emit(e)
			for _, pr := range probes[i+1] {
				t.Emit(pr)
			}
		}
	}
	if cfg.Access {
		// stop recording BEFORE the goroutine ids are switched off: a background shrinker may still be producing events
		evsLk := Mon.Record(false)
		Mon.WantG = false
		inode.VerifAccess = nil
		for _, e := range evsLk {
			if e.Ev == "got" || e.Ev == "rel" || e.Ev == "acc" {
				t.Emit(map[string]interface{}{"ev": "lk", "k": e.Ev, "g": e.G, "inum": int(e.Inum), "what": e.What, "txn": e.Txn})
			}
		}
	}
	if atomic.LoadInt32(&wedged) != 0 {
		Mon.Reset()
		return
	}
	s.WaitIdle()
	t.Emit(DumpAPI(s.API, "final"))
	t.Emit(TakeSnap(s, "run", true))
	s.Shutdown()
}

// wedgeKind looks at the stacks of the blocked goroutines: "apply" when a goroutine waits for an inode lock
// inside dir.Apply (listing children under the directory lock), "lock" for any other lock wait, "" otherwise.
func wedgeKind() string {
	buf := make([]byte, 1<<20)
	n := runtime.Stack(buf, true)
	k := ""
	for _, g := range strings.Split(string(buf[:n]), "\n\n") {
		if strings.Contains(g, "lockmap.(*lockShard).acquire") {
			if strings.Contains(g, "dir.Apply") {
				return "apply"
			}
			k = "lock"
		}
	}
	return k
}

// concCrashProbes recovers the real server from crash images cut inside the recorded stream of a concurrent history.
// The result is indexed by the number of history events (markers) that precede the crash point.
func concCrashProbes(cfg ConcCfg, base *vdisk.Disk, events []vdisk.Event) map[int][]*CrashProbe {
	marksBefore := make([]int, len(events)+1)
	m := 0
	for i, e := range events {
		marksBefore[i] = m
		if e.Kind == vdisk.EvMark {
			m++
		}
	}
	marksBefore[len(events)] = m
	var pts []int
	for p := 0; p <= len(events); p++ {
		if p > 0 && p < len(events) && events[p-1].Kind == vdisk.EvMark {
			continue
		}
		pts = append(pts, p)
	}
	r := rand.New(rand.NewSource(int64(cfg.Seed) + 11))
	max := cfg.MaxImg
	if max == 0 {
		max = 150
	}
	if len(pts) > max { // sample, keeping the barrier points (where loss sets are tried) with preference
		keep := map[int]bool{}
		for _, p := range pts {
			if p == len(events) || events[p].Kind == vdisk.EvBarrier {
				if r.Intn(3) != 0 {
					keep[p] = true
				}
			}
		}
		for len(keep) < max {
			keep[pts[r.Intn(len(pts))]] = true
		}
		var q []int
		for _, p := range pts {
			if keep[p] && len(q) < max {
				q = append(q, p)
			}
		}
		pts = q
	}
	out := map[int][]*CrashProbe{}
	seen := map[string]bool{}
	nimg := 0
	for _, p := range pts {
		win := vdisk.Window(events, p)
		sets := lossSets(len(win), r, cfg.Loss)
		if !(p == len(events) || events[p].Kind == vdisk.EvBarrier) {
			sets = sets[:1]
		} else if len(sets) > 4+cfg.Loss {
			r.Shuffle(len(sets)-1, func(i, j int) { sets[i+1], sets[j+1] = sets[j+1], sets[i+1] })
			sets = sets[:4+cfg.Loss]
		}
		for _, lost := range sets {
			img := vdisk.CrashImage(base, events, p, lost)
			nimg++
			ok, errs, dump, snap := recoverOn(img, false, Extents{})
			k := marksBefore[p]
			key := fmt.Sprint(k, ok, hashOf(dump), hashOf(snap))
			if seen[key] {
				continue
			}
			seen[key] = true
			pr := &CrashProbe{Ev: "crashprobe", P: p, NLost: len(lost), Window: len(win), OK: ok, Err: errs, Dump: dump, Snap: snap,
				Inflight: []*Call{}, RawReads: staleOnly(lastRawReads, 0)}
			if snap != nil {
				pr.InoStart = snap.InoStart
				pr.RawReads = staleOnly(lastRawReads, snap.InoStart)
			}
			out[k] = append(out[k], pr)
		}
	}
	fmt.Fprintf(os.Stderr, "conc crash: %d stream events, %d points, %d images, %d distinct\n", len(events), len(pts), nimg, len(seen))
	return out
}
