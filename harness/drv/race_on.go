//go:build race

package drv

// RaceBuild: the driver was built with Go's race detector (C14). The directed windows then let the held request go after a
// fixed time instead of on a signal from the intruder: a channel operation would order everything the intruder did before
// everything the victim does afterwards, and the detector reports only accesses that nothing orders.
const RaceBuild = true
