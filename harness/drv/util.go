package drv

import "time"

func timeAfter(sec int) <-chan time.Time { return time.After(time.Duration(sec) * time.Second) }
func sleepMs(ms int)                     { time.Sleep(time.Duration(ms) * time.Millisecond) }
