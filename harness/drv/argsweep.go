package drv

import (
	"math/rand"
	"strings"

	"github.com/mit-pdos/go-nfsd/nfstypes"

	"verif/harness/vdisk"
)

// Argument-class sweep (C11): every procedure is called with every class of each of its arguments (the others at
// an ordinary value) and with seeded random combinations of classes; the events are ordinary "call" events, so
// NfsTrace checks that every call is answered, that errors change nothing and that the server keeps conforming.

type mountAPI interface {
	MOUNTPROC3_NULL()
	MOUNTPROC3_MNT(nfstypes.Dirpath3) nfstypes.Mountres3
	MOUNTPROC3_UMNT(nfstypes.Dirpath3)
	MOUNTPROC3_UMNTALL()
	MOUNTPROC3_DUMP() nfstypes.Mountopt3
	MOUNTPROC3_EXPORT() nfstypes.Exportsopt3
}

func execMount(api interface{}, c *Call) {
	m, ok := api.(mountAPI)
	if !ok {
		c.St = "ERR"
		return
	}
	defer func() {
		if r := recover(); r != nil {
			if rr, ok := r.(RpcRefused); ok {
				c.St, c.Code, c.PanicV = "ERR", 10099, "rpc layer: "+rr.Msg
				return
			}
			c.St = "PANIC"
		}
	}()
	c.St = "OK"
	switch c.Proc {
	case "MNULL":
		m.MOUNTPROC3_NULL()
	case "MNT":
		r := m.MOUNTPROC3_MNT(nfstypes.Dirpath3(c.Name))
		if r.Fhs_status != nfstypes.MNT3_OK {
			c.St = "ERR"
		} else {
			c.RFh, c.HasFh = Hex(r.Mountinfo.Fhandle), true
		}
	case "UMNT":
		m.MOUNTPROC3_UMNT(nfstypes.Dirpath3(c.Name))
	case "UMNTALL":
		m.MOUNTPROC3_UMNTALL()
	case "DUMP":
		m.MOUNTPROC3_DUMP()
	case "EXPORT":
		m.MOUNTPROC3_EXPORT()
	}
}

type numClass struct {
	v   int
	sat bool
	raw uint64
}

func numClasses(maxfs, wtmax int) []numClass {
	const B = 4096
	l := []numClass{}
	for _, v := range []int{0, 1, 127, 128, 129, B - 1, B, B + 1, 8 * B, 8*B + 1, 520 * B, 520*B + 1, wtmax - 1, wtmax, wtmax + 1,
		maxfs - B, maxfs - 1, maxfs, maxfs + 1, maxfs + B, 1<<31 - 1} {
		if v >= 0 {
			if v > HUGE {
				l = append(l, numClass{HUGE, true, uint64(v)})
			} else {
				l = append(l, numClass{v, false, 0})
			}
		}
	}
	for _, r := range []uint64{1 << 31, 1<<32 - 1, 1 << 32, 1<<32 + 1, 1 << 40, 1<<63 - 1, 1 << 63, 1<<64 - 4096, 1<<64 - 1} {
		l = append(l, numClass{HUGE, true, r})
	}
	return l
}

// RunArgSweep writes one segment.
func RunArgSweep(seed int, randomN int, avoid map[string]bool, t *Trace, seg int) {
	d := vdisk.New(30000)
	s, err := Start(d, true)
	if err != nil {
		panic(err)
	}
	s.Sequential = true
	r := rand.New(rand.NewSource(int64(seed)))
	p := &P{S: s, T: t, Root: RootFh(), Unst: true}
	t.Emit(Reset{Ev: "reset", Seg: seg, Driver: "argsweep", Seed: seed, DiskSz: 30000, Unstable: true, Root: p.Root})
	lim := p.do(p.Call("FSINFO", p.Root))
	p.do(p.Call("PATHCONF", p.Root))
	maxfs, wtmax := lim.MaxFs, lim.Wtmax
	// state: a directory with entries, a file with data over the indirect boundary, a symlink, dead handles
	dir := p.Mkdir(p.Root, "d").RFh
	for _, n := range []string{"a", "b", "c", "e"} {
		p.Create(dir, n)
	}
	file := p.Create(p.Root, "f").RFh
	p.Write(file, 0, 10000, 2)
	p.Write(file, 9*4096, 3000, 2)
	link := p.Symlink(p.Root, "l", "/some/where").RFh
	dd := p.Mkdir(p.Root, "gone").RFh
	df := p.Create(p.Root, "gonef").RFh
	p.Rmdir(p.Root, "gone")
	p.Remove(p.Root, "gonef")
	mkfh := func(ino, gen uint64, n int) []byte {
		b := make([]byte, 16)
		for i := 0; i < 8; i++ {
			b[i] = byte(ino >> (8 * uint(i)))
			b[8+i] = byte(gen >> (8 * uint(i)))
		}
		if n <= 16 {
			return b[:n]
		}
		return append(b, make([]byte, n-16)...)
	}
	type hcl struct {
		hex string
		raw []byte
	}
	handles := []hcl{{file, nil}, {dir, nil}, {link, nil}, {p.Root, nil}, {dd, nil}, {df, nil}}
	for _, n := range []int{0, 1, 3, 8, 15, 17, 32, 64} {
		b := mkfh(2, 1, n)
		handles = append(handles, hcl{Hex(b), b})
	}
	for _, ino := range []uint64{0, 32767, 32768, 32769, 1 << 20, 1 << 40, 1<<64 - 1} {
		b := mkfh(ino, 1, 16)
		handles = append(handles, hcl{Hex(b), b})
	}
	handles = append(handles, hcl{Hex(mkfh(3, 1<<63, 16)), mkfh(3, 1<<63, 16)})
	names := []string{"", ".", "..", "a", "zz", "a/b", "with\x00nul", strings.Repeat("n", 111), strings.Repeat("n", 112), strings.Repeat("n", 113),
		strings.Repeat("n", 255), strings.Repeat("n", 256), strings.Repeat("n", 4096), strings.Repeat("n", 70000)}
	if avoid["empty-name"] {
		names = names[1:]
	}
	nums := numClasses(maxfs, wtmax)
	procs := []string{"NULL", "GETATTR", "SETATTR", "LOOKUP", "ACCESS", "READLINK", "READ", "WRITE", "CREATE", "MKDIR", "SYMLINK", "MKNOD",
		"REMOVE", "RMDIR", "RENAME", "LINK", "READDIR", "READDIRPLUS", "FSSTAT", "FSINFO", "PATHCONF", "COMMIT"}
	n := 0
	issue := func(c *Call) bool {
		c.NLen, c.NLen2 = len(c.Name), len(c.Name2)
		c.TLen = len(c.Target)
		if c.Proc == "READ" && avoid["read-above-rtmax"] && c.Cnt > 65536 {
			c.Cnt = 65536
		}
		c = p.do(c)
		n++
		if c.St == "PANIC" || c.St == "TIMEOUT" {
			return false
		}
		if n%60 == 0 {
			p.Tail()
		}
		return !p.S.Wedged
	}
	base := func(proc string) *Call {
		c := NewCall(proc)
		c.Fh, c.Fh2, c.Name, c.Name2 = dir, dir, "a", "tmp"
		switch proc {
		case "GETATTR", "SETATTR", "READ", "WRITE", "COMMIT", "ACCESS", "LINK":
			c.Fh = file
		case "READLINK":
			c.Fh = link
		case "FSINFO", "PATHCONF", "FSSTAT":
			c.Fh = p.Root
		}
		c.Cnt, c.DLen = 100, 0
		if proc == "WRITE" {
			c.DLen, c.Data, c.Stable = 100, []Run{{100, 33}}, 2
		}
		if proc == "READDIR" || proc == "READDIRPLUS" {
			c.Cnt, c.DirCount, c.MaxCount = 4096, 4096, 16384
		}
		if proc == "CREATE" || proc == "MKDIR" || proc == "SYMLINK" || proc == "MKNOD" {
			c.Name = "tmp"
			c.Target = "/t"
		}
		return c
	}
	setNum := func(c *Call, field int, k numClass) {
		switch field {
		case 0:
			c.Off, c.OffSat, c.RawOff = k.v, k.sat, k.raw
		case 1:
			c.Cnt = k.v
			if k.sat {
				c.Cnt = int(uint32(k.raw)) & 0x7fffffff
			}
			if c.Proc == "WRITE" { // keep the data small: the count then disagrees with it unless equal
				if c.Cnt <= 600000 {
					c.DLen = c.Cnt
					c.Data = []Run{}
					if c.Cnt > 0 {
						c.Data = []Run{{c.Cnt, 44}}
					}
				}
			}
		case 2:
			c.SetSize, c.Size, c.SizeSat, c.RawSize = true, k.v, k.sat, k.raw
		case 3:
			c.Cookie = k.v
		case 4:
			c.DirCount, c.MaxCount = k.v, k.v
			if c.Proc == "READDIR" {
				c.Cnt = k.v
			}
		}
	}
	ok := true
	for _, proc := range procs {
		if !ok {
			break
		}
		// handle classes in every handle position
		for _, h := range handles {
			c := base(proc)
			c.Fh, c.RawFh = h.hex, h.raw
			if ok = issue(c); !ok {
				break
			}
			if proc == "RENAME" || proc == "LINK" {
				c := base(proc)
				c.Fh2, c.RawFh2 = h.hex, h.raw
				if ok = issue(c); !ok {
					break
				}
				c = base(proc)
				c.Fh, c.RawFh, c.Fh2, c.RawFh2 = h.hex, h.raw, h.hex, h.raw
				if ok = issue(c); !ok {
					break
				}
			}
		}
		if !ok {
			break
		}
		switch proc {
		case "LOOKUP", "CREATE", "MKDIR", "SYMLINK", "MKNOD", "REMOVE", "RMDIR", "RENAME", "LINK":
			for _, nm := range names {
				c := base(proc)
				c.Name = nm
				if ok = issue(c); !ok {
					break
				}
				if proc == "RENAME" || proc == "LINK" {
					c := base(proc)
					c.Name2 = nm
					if ok = issue(c); !ok {
						break
					}
				}
				// undo successful creations so that later cases start from the same tree
				for _, nn := range []string{nm, "tmp"} {
					u := NewCall("REMOVE")
					u.Fh, u.Name = dir, nn
					if nn != "" && nn != "." && nn != ".." && nn != "a" {
						p.do(u)
						u2 := NewCall("RMDIR")
						u2.Fh, u2.Name = dir, nn
						p.do(u2)
					}
				}
			}
		}
		if !ok {
			break
		}
		fields := map[string][]int{"READ": {0, 1}, "WRITE": {0, 1}, "COMMIT": {0, 1}, "SETATTR": {2}, "READDIR": {3, 4}, "READDIRPLUS": {3, 4}}[proc]
		for _, f := range fields {
			for _, k := range nums {
				c := base(proc)
				setNum(c, f, k)
				if ok = issue(c); !ok {
					break
				}
				if proc == "SETATTR" { // back to a small size
					z := base("SETATTR")
					z.SetSize, z.Size = true, 12000
					p.do(z)
				}
			}
			if !ok {
				break
			}
		}
		if proc == "SYMLINK" {
			for _, tl := range []int{0, 1, 1023, 1024, 1025, 4096, 70000, 3000000} {
				c := base(proc)
				c.Target = strings.Repeat("t", tl)
				if ok = issue(c); !ok {
					break
				}
				u := NewCall("REMOVE")
				u.Fh, u.Name = dir, "tmp"
				p.do(u)
			}
		}
	}
	// seeded random combinations of classes
	for i := 0; i < randomN && ok; i++ {
		proc := procs[r.Intn(len(procs))]
		c := base(proc)
		if r.Intn(3) == 0 {
			h := handles[r.Intn(len(handles))]
			c.Fh, c.RawFh = h.hex, h.raw
		}
		if r.Intn(3) == 0 {
			h := handles[r.Intn(len(handles))]
			c.Fh2, c.RawFh2 = h.hex, h.raw
		}
		if r.Intn(3) == 0 {
			c.Name = names[r.Intn(len(names))]
		}
		if r.Intn(3) == 0 {
			c.Name2 = names[r.Intn(len(names))]
		}
		for f := 0; f < 5; f++ {
			if r.Intn(3) == 0 {
				if f == 2 && proc != "SETATTR" {
					continue
				}
				setNum(c, f, nums[r.Intn(len(nums))])
			}
		}
		ok = issue(c)
	}
	for _, mp := range []string{"MNULL", "MNT", "UMNT", "UMNTALL", "DUMP", "EXPORT"} {
		for _, path := range []string{"/", "", strings.Repeat("p", 1024), strings.Repeat("p", 2000)} {
			c := NewCall(mp)
			c.Name, c.NLen = path, len(path)
			c.I = p.i
			p.i++
			execMount(s.API, c) // through the transport when one is in front of the server
			c.Leaked = []int{}
			t.Emit(c)
		}
	}
	if ok && !p.S.Wedged {
		p.Tail()
		p.S.WaitIdle()
		t.Emit(TakeSnap(p.S, "run", true))
		p.S.Shutdown()
	} else {
		Mon.Reset()
	}
}
