package drv

import (
	"fmt"

	"verif/harness/vdisk"
)

// Conformance of the real freeing transactions with their model (spec/TxnFit.tla, real constants): a dense file of
// L blocks is cut to a smaller size (SETATTR) or removed (REMOVE, RENAME over it); the size of every transaction
// that commits while the file is being freed - the RPC's own and those of shrinker.DoShrink - is recorded at
// fstxn's precommit hook (after PreCommit has written the bitmap blocks). TxnFitTrace.tla requires the recorded
// sequence to be one that the model produces for some placement of the file's blocks over the bitmap areas.
type fitCase struct {
	L, New int
	Op     string // setattr | remove | rename
	Spread bool   // the last blocks of the file lie in other bitmap areas (large disk)
}

func RunTxnFit(seed int, quick bool, t *Trace, seg int) int {
	lens := []int{300, 495, 503, 505, 508, 509, 521, 700, 1100, 1535, 1600}
	news := []int{0, 8, 400, 520, 521}
	var cases []fitCase
	for i, l := range lens {
		for j, n := range news {
			if n >= l || (quick && (i+j+seed)%3 != 0) {
				continue
			}
			op := "setattr"
			if n == 0 {
				op = []string{"setattr", "remove", "rename"}[(i+seed)%3]
			}
			cases = append(cases, fitCase{l, n, op, false})
		}
	}
	cases = append(cases, fitCase{1535, 0, "setattr", true})
	if !quick {
		cases = append(cases, fitCase{1535, 0, "remove", true}, fitCase{1200, 400, "setattr", true})
	}
	for _, c := range cases {
		seg = runFitOne(c, t, seg)
	}
	return seg
}

func runFitOne(c fitCase, t *Trace, seg int) int {
	const B = 4096
	sz := uint64(6000)
	if c.Spread {
		sz = 3*32768 + 2000
	}
	s, err := Start(vdisk.New(sz), true)
	if err != nil {
		panic(err)
	}
	s.Sequential = true
	p := &P{S: s, T: t, Root: RootFh(), Unst: true}
	t.Emit(Reset{Ev: "reset", Seg: seg, Driver: "txnfit", Seed: c.L*10000 + c.New, DiskSz: int(sz), Unstable: true, Root: p.Root})
	seg++
	lim := p.Call("FSINFO", p.Root)
	p.do(lim)
	s.wtmax, s.maxfs = lim.Wtmax, lim.MaxFs
	p.do(p.Call("PATHCONF", p.Root))
	if c.Spread {
		SnapSkipNonZero = true
		defer func() { SnapSkipNonZero = false }()
	}
	wr := func(f string, from, to int) {
		for off := from; off < to; off += 400 {
			n := to - off
			if n > 400 {
				n = 400
			}
			p.Write(f, off*B, n*B, 2)
		}
	}
	d := p.Mkdir(p.Root, "d").RFh
	f := p.Create(p.Root, "f").RFh
	if !c.Spread {
		wr(f, 0, c.L)
	} else {
		wr(f, 0, c.L-3)
		for i, n := range []int{31500, 32768, 31500} {
			g := p.Create(p.Root, fmt.Sprintf("fill%d", i)).RFh
			wr(g, 0, n)
			wr(f, c.L-3+i, c.L-2+i)
		}
	}
	p.Create(d, "s")
	s.WaitIdle()
	var sizes []TxnSize
	Mon.mu.Lock()
	Mon.TxnSizes = &sizes
	Mon.mu.Unlock()
	var r *Call
	switch c.Op {
	case "setattr":
		r = p.Trunc(f, c.New*B)
	case "remove":
		r = p.Remove(p.Root, "f")
	default:
		r = p.Rename(d, "s", p.Root, "f")
	}
	if !s.Wedged {
		s.WaitIdle()
	}
	Mon.mu.Lock()
	Mon.TxnSizes = nil
	Mon.mu.Unlock()
	if sizes == nil {
		sizes = []TxnSize{}
	}
	areas := 1
	if c.Spread {
		areas = 4
	}
	t.Emit(map[string]interface{}{"ev": "freeing", "len": c.L, "newsz": c.New, "op": c.Op, "st": r.St, "areas": areas, "txns": sizes})
	if !s.Wedged {
		t.Emit(TakeSnap(s, "run", true))
		s.Shutdown()
	} else {
		Mon.Reset()
	}
	return seg
}
