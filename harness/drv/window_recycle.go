package drv

import (
	"runtime"
	"strings"
	"sync"
	"sync/atomic"
	"time"

	"verif/harness/vdisk"
)

// Third family of directed schedules: inode-number recycling inside a lock-free window.
//
// A request on a file whose truncation is still being completed in the background (SETATTR/WRITE -> getShrink)
// gives up its transaction and its lock in order to help the shrinker. It is held right there while the intruder
// removes the file, lets the freeing finish, drives the inode allocator once around its ring (CREATEs with a name
// one byte too long allocate a number and give it back) and creates a new object that receives the same inode
// number with a new generation. Then the victim resumes: whatever it does must be explainable by some order of the
// calls (NfsLin): it may act on the old file before the REMOVE or be answered "stale" - it can never touch the new
// object, which did not exist while the old handle was valid.

type recExp struct {
	victim string   // WRITE | SETATTR
	steps  []string // intruder script
	pre    string   // "restart": the server is restarted before the victim starts (the allocator then hands out the lowest free number)
	hold   string   // "": at the victim's first abort (it holds no lock and has not helped yet); "relock": at its first lock request after it has helped the truncation to its end (what it saw under shrinker.DoShrink's locks is no longer protected)
}

func recycleExps() []recExp {
	var out []recExp
	for _, v := range []string{"WRITE", "SETATTR", "SETATTR0"} {
		out = append(out,
			recExp{v, []string{"remove", "finish", "cycle", "create", "writeg"}, "", ""},
			recExp{v, []string{"remove", "finish", "cycle", "mkdir"}, "", ""},
			recExp{v, []string{"remove", "finish", "cycle", "symlink"}, "", ""},
			recExp{v, []string{"remove", "finish"}, "", ""},
			recExp{v, []string{"finish"}, "", ""},
			recExp{v, []string{"remove", "finish", "cycle", "create", "writeg", "removeg"}, "", ""},
			recExp{v, []string{"rename", "finish", "cycle", "create", "writeg"}, "", ""},
		)
	}
	// a directory handle: REMOVE/LOOKUP of an entry with a smaller number gives up the directory's lock to re-lock in order;
	// meanwhile the entry is moved out, the directory removed, its number given to a new directory and the entry moved in
	// there under the same name. The old handle is dead: the victim may have acted before all that, or must be refused.
	for _, v := range []string{"REMOVED", "LOOKUPD"} {
		out = append(out,
			recExp{v, []string{"moveout", "rmdirD", "cycle", "mkdirE", "movein"}, "", ""},
			recExp{v, []string{"moveout", "rmdirD", "mkdirE", "movein"}, "restart", ""}, // (no trip round the ring: the directory's cached inode stays cached)
			recExp{v, []string{"moveout", "rmdirD", "mkdirE"}, "restart", ""},
			recExp{v, []string{"moveout", "rmdirD"}, "", ""},
		)
	}
	// the victim has helped the truncation to its end and is about to lock the file again; meanwhile the file is filled
	// again and cut again, too far for one transaction (the background thread is held): the cut-off blocks are still
	// mapped below the old size when the victim resumes. A victim that extends the file must complete that truncation
	// first, or data a completed truncation removed is back.
	for _, v := range []string{"WRITEX", "SETATTRX", "WRITE"} {
		out = append(out,
			recExp{v, []string{"refill", "cut0"}, "", "relock"},
			recExp{v, []string{"refill", "cut100"}, "", "relock"},
			recExp{v, []string{"refill", "cut0", "refill", "cut100"}, "", "relock"},
			recExp{v, []string{"refill", "cut0", "remove"}, "", "relock"},
		)
	}
	return out
}

// stackHas: some frame of the calling goroutine's stack is a function whose name ends in suffix
func stackHas(suffix string) bool {
	pc := make([]uintptr, 48)
	n := runtime.Callers(2, pc)
	fr := runtime.CallersFrames(pc[:n])
	for {
		f, more := fr.Next()
		if strings.HasSuffix(f.Function, suffix) {
			return true
		}
		if !more {
			return false
		}
	}
}

// RunRecycleWindows runs the experiments k with k%parts == part (all when parts <= 1).
func RunRecycleWindows(part, parts int, t *Trace, seg int) int {
	for k, e := range recycleExps() {
		if parts > 1 && k%parts != part {
			continue
		}
		if parts == -1 && e.hold != "relock" { // -parts -1: only the experiments that hold the victim at its re-lock
			continue
		}
		seg = runRecycle(k, e, t, seg)
	}
	return seg
}

func runRecycle(k int, e recExp, t *Trace, seg int) int {
	d := vdisk.New(12000)
	s, err := Start(d, true)
	if err != nil {
		panic(err)
	}
	root := RootFh()
	t.Emit(Reset{Ev: "reset", Seg: seg, Driver: "window-recycle", Seed: k, DiskSz: 12000, Unstable: true, Root: root})
	seg++
	var seq int64
	idx := 0
	var mu sync.Mutex
	clients := map[int64]bool{}
	var holdShr int32 = 1
	releaseShr := make(chan struct{})
	var victimG int64
	var fired, helped int32
	inWin := make(chan struct{}, 1)
	resume := make(chan struct{})
	Mon.Yield = func(ev string) {
		g := goid()
		if ev == "begin" && atomic.LoadInt32(&holdShr) == 1 {
			mu.Lock()
			known := clients[g]
			mu.Unlock()
			if !known { // the background shrinker, before one of its transactions
				select {
				case <-releaseShr:
				case <-time.After(20 * time.Second):
				}
			}
			return
		}
		if e.hold == "relock" {
			if g != atomic.LoadInt64(&victimG) {
				return
			}
			if ev == "aborted" {
				atomic.StoreInt32(&helped, 1)
				return
			}
			if !(ev == "want" && atomic.LoadInt32(&helped) == 1 && !stackHas(".DoShrink")) {
				return
			}
			ev = "aborted" // the window: falls through to the hold below
		}
		if ev == "aborted" && g == atomic.LoadInt64(&victimG) && atomic.CompareAndSwapInt32(&fired, 0, 1) {
			inWin <- struct{}{}
			if RaceBuild && e.hold == "relock" { // (the other experiments of this family take seconds: a trip round the allocator's ring)
				holdVictim(resume)
				return
			}
			select {
			case <-resume:
			case <-time.After(30 * time.Second):
			}
		}
	}
	defer func() { Mon.Yield = nil }()
	// every client call runs in a goroutine registered as a client before its first hook event
	run := func(c *Call, timeout int) *Call {
		done := make(chan struct{})
		go func() {
			defer close(done)
			mu.Lock()
			clients[goid()] = true
			mu.Unlock()
			c.ExecRaw(s.API)
		}()
		select {
		case <-done:
			return c
		case <-time.After(time.Duration(timeout) * time.Second):
			cc := *c
			cc.St, cc.Wedge = "TIMEOUT", wedgeKind()
			return &cc
		}
	}
	var hist []HEv
	do := func(cl int, c *Call, record bool) *Call {
		c.I = idx
		idx++
		c.Cl = cl
		c.NLen, c.NLen2 = len(c.Name), len(c.Name2)
		a := atomic.AddInt64(&seq, 1)
		c = run(c, 20)
		b := atomic.AddInt64(&seq, 1)
		if record {
			mu.Lock()
			hist = append(hist, HEv{Ev: "inv", Seq: a, Cl: cl, Call: c},
				HEv{Ev: "ret", Seq: b, Cl: cl, Call: &Call{I: c.I, Data: []Run{}, RData: []Run{}, Ents: []Ent{}, Leaked: []int{}}})
			mu.Unlock()
		}
		return c
	}
	mk := func(cl int, proc, dir, name string) *Call {
		c := NewCall(proc)
		c.Fh, c.Name = dir, name
		if proc == "SYMLINK" {
			c.Target, c.TLen = "t", 1
		}
		return do(cl, c, true)
	}
	l := NewCall("FSINFO")
	l.Fh = root
	do(0, l, true)
	pc := NewCall("PATHCONF")
	pc.Fh = root
	do(0, pc, true)
	dd := mk(0, "MKDIR", root, "d").RFh
	f := mk(0, "CREATE", root, "f")
	fhF := f.RFh
	mk(0, "CREATE", root, "h")
	// c0 gets a number below D's and is moved into D as "c"
	mk(0, "CREATE", root, "c0")
	dD := mk(0, "MKDIR", root, "D")
	{
		c := NewCall("RENAME")
		c.Fh, c.Name, c.Fh2, c.Name2 = root, "c0", dD.RFh, "c"
		do(0, c, true)
	}
	fhE := ""
	w := NewCall("WRITE")
	w.Fh, w.Off, w.Cnt, w.DLen, w.Data, w.Stable = fhF, 0, 3000, 3000, []Run{{3000, 50}}, 2
	do(0, w, true)
	sa := NewCall("SETATTR")
	sa.Fh, sa.SetSize, sa.Size = fhF, true, 700*4096
	do(0, sa, true)
	sa = NewCall("SETATTR")
	sa.Fh, sa.SetSize, sa.Size = fhF, true, 4096 // the rest is freed by the background shrinker, which is held
	do(0, sa, true)
	released := false
	release := func() {
		if !released {
			released = true
			atomic.StoreInt32(&holdShr, 0)
			close(releaseShr)
		}
	}
	if e.pre == "restart" {
		release()
		s.WaitIdle()
		s.Shutdown()
		s2, err := Start(d, true)
		if err != nil {
			panic(err)
		}
		s = s2
		mu.Lock()
		hist = append(hist, HEv{Ev: "restart", Seq: atomic.AddInt64(&seq, 1)})
		mu.Unlock()
	}
	// victim
	var v *Call
	switch e.victim {
	case "WRITE":
		v = NewCall("WRITE")
		v.Fh, v.Off, v.Cnt, v.DLen, v.Data, v.Stable = fhF, 0, 11, 11, []Run{{11, 99}}, 2
	case "SETATTR":
		v = NewCall("SETATTR")
		v.Fh, v.SetSize, v.Size = fhF, true, 100
	case "WRITEX": // extends the file beyond whatever the intruder cut it to
		v = NewCall("WRITE")
		v.Fh, v.Off, v.Cnt, v.DLen, v.Data, v.Stable = fhF, 8192, 1, 1, []Run{{1, 99}}, 2
	case "SETATTRX":
		v = NewCall("SETATTR")
		v.Fh, v.SetSize, v.Size = fhF, true, 3*4096
	case "REMOVED":
		v = NewCall("REMOVE")
		v.Fh, v.Name, v.NLen = dD.RFh, "c", 1
	case "LOOKUPD":
		v = NewCall("LOOKUP")
		v.Fh, v.Name, v.NLen = dD.RFh, "c", 1
	default:
		v = NewCall("SETATTR")
		v.Fh, v.SetSize, v.Size = fhF, true, 0
	}
	v.Cl, v.I = 1, 1000
	vdone := make(chan struct{})
	va := atomic.AddInt64(&seq, 1)
	go func() {
		defer close(vdone)
		mu.Lock()
		clients[goid()] = true
		mu.Unlock()
		atomic.StoreInt64(&victimG, goid())
		v.ExecRaw(s.API)
	}()
	window := false
	select {
	case <-inWin:
		window = true
	case <-vdone:
	case <-time.After(10 * time.Second):
	}
	var fhG string
	bad := false
	if window {
		for _, st := range e.steps {
			switch st {
			case "remove":
				mk(2, "REMOVE", root, "f")
			case "rename":
				c := NewCall("RENAME") // h over f: f is unlinked by the rename
				c.Fh, c.Name, c.Fh2, c.Name2 = root, "h", root, "f"
				do(2, c, true)
			case "finish":
				release()
				s.WaitIdle()
			case "cycle":
				// once around the allocator's ring; the failing calls have no effect and are not part of the history
				long := strings.Repeat("x", 113)
				for i := 0; i < 32768-12; i++ {
					c := NewCall("CREATE")
					c.Fh, c.Name = dd, long
					c = do(2, c, i < 2)
					if c.St == "OK" || c.St == "TIMEOUT" || c.St == "PANIC" {
						bad = true
						break
					}
				}
			case "create", "mkdir", "symlink":
				proc := map[string]string{"create": "CREATE", "mkdir": "MKDIR", "symlink": "SYMLINK"}[st]
				// the allocator hands out numbers in ring order: create fillers until one gets f's number
				for i := 0; i < 300; i++ {
					c := mk(2, proc, dd, "g")
					if c.St != "OK" {
						bad = true
						break
					}
					if c.RId == f.RId {
						fhG = c.RFh
						break
					}
					rm := "REMOVE"
					if proc == "MKDIR" {
						rm = "RMDIR"
					}
					mk(2, rm, dd, "g")
				}
			case "refill":
				c := NewCall("WRITE")
				c.Fh, c.Off, c.Cnt, c.DLen, c.Data, c.Stable = fhF, 0, 4096, 4096, []Run{{4096, 66}}, 2
				do(2, c, true)
				c = NewCall("SETATTR")
				c.Fh, c.SetSize, c.Size = fhF, true, 700*4096
				do(2, c, true)
			case "cut0", "cut100":
				c := NewCall("SETATTR") // too far for one transaction; the background thread it starts is held like the first one
				c.Fh, c.SetSize, c.Size = fhF, true, map[string]int{"cut0": 0, "cut100": 100}[st]
				do(2, c, true)
			case "moveout":
				c := NewCall("RENAME")
				c.Fh, c.Name, c.Fh2, c.Name2 = dD.RFh, "c", root, "c2"
				do(2, c, true)
			case "rmdirD":
				mk(2, "RMDIR", root, "D")
			case "mkdirE":
				for i := 0; i < 300; i++ {
					c := mk(2, "MKDIR", root, "E")
					if c.St != "OK" {
						bad = true
						break
					}
					if c.RId == dD.RId {
						fhE = c.RFh
						break
					}
					mk(2, "RMDIR", root, "E")
				}
			case "movein":
				if fhE != "" {
					c := NewCall("RENAME")
					c.Fh, c.Name, c.Fh2, c.Name2 = root, "c2", fhE, "c"
					do(2, c, true)
				}
			case "writeg":
				if fhG != "" {
					c := NewCall("WRITE")
					c.Fh, c.Off, c.Cnt, c.DLen, c.Data, c.Stable = fhG, 0, 16, 16, []Run{{16, 71}}, 2
					do(2, c, true)
				}
			case "removeg":
				if fhG != "" {
					mk(2, "REMOVE", dd, "g")
				}
			}
			if bad {
				break
			}
		}
		close(resume)
	}
	if e.hold == "relock" {
		// the background threads stay held until the victim has answered: a request must complete a pending
		// truncation itself before it extends the file, it cannot count on the threads getting there first
		select {
		case <-vdone:
		case <-time.After(20 * time.Second):
		}
	}
	release()
	wedged := false
	select {
	case <-vdone:
	case <-time.After(20 * time.Second):
		vv := *v
		vv.St, vv.Wedge = "TIMEOUT", wedgeKind()
		v = &vv
		wedged = true
	}
	vb := atomic.AddInt64(&seq, 1)
	mu.Lock()
	hist = append(hist, HEv{Ev: "inv", Seq: va, Cl: 1, Call: v},
		HEv{Ev: "ret", Seq: vb, Cl: 1, Call: &Call{I: v.I, Data: []Run{}, RData: []Run{}, Ents: []Ent{}, Leaked: []int{}}})
	mu.Unlock()
	sortHist(hist)
	for _, h := range hist {
		t.Emit(h)
	}
	if wedged || v.St == "PANIC" {
		Mon.Reset()
		return seg
	}
	s.WaitIdle()
	t.Emit(DumpAPI(s.API, "final"))
	t.Emit(TakeSnap(s, "run", true))
	s.Shutdown()
	return seg
}

func sortHist(h []HEv) {
	for i := 1; i < len(h); i++ {
		for j := i; j > 0 && h[j].Seq < h[j-1].Seq; j-- {
			h[j], h[j-1] = h[j-1], h[j]
		}
	}
}
