package drv

import (
	"bufio"
	"encoding/json"
	"fmt"
	"github.com/mit-pdos/go-nfsd/util/timed_disk"
	"io"
	"os"
	"sort"
	"strings"
	"time"

	"github.com/mit-pdos/go-nfsd/fh"
	"github.com/mit-pdos/go-nfsd/nfs"

	"verif/harness/vdisk"
)

// Srv is one running instance of the real server on a vdisk.
type Srv struct {
	D   *vdisk.Disk
	N   *nfs.Nfs
	API API // N, or a transport in front of it
	// Sequential: no other RPC runs concurrently, so held locks after a return are leaks
	Sequential bool
	Timeout    time.Duration
	Wedged     bool // a call panicked or never returned
	wtmax      int
	maxfs      int
}

// Start runs MakeNfs on d (formats an empty disk, recovers otherwise).
// UseTimedDisk puts util/timed_disk between every server instance and its disk.
var UseTimedDisk bool

func Start(d *vdisk.Disk, unstable bool) (s *Srv, err error) {
	defer func() {
		if r := recover(); r != nil {
			err = fmt.Errorf("MakeNfs panic: %v", r)
		}
	}()
	var n *nfs.Nfs
	if UseTimedDisk { // the wrapper `go-nfsd -stats` runs on, over a disk whose barriers take a while
		d.SlowBarrier = 150 * time.Microsecond
		n = nfs.MakeNfs(timed_disk.New(d))
	} else {
		n = nfs.MakeNfs(d)
	}
	n.Unstable = unstable
	if UseTransport {
		return &Srv{D: d, N: n, API: NewRpcAPI(n)}, nil
	}
	return &Srv{D: d, N: n, API: n}, nil
}

// Shutdown stops the instance cleanly (waits for shrinkers, flushes nothing extra).
func (s *Srv) Shutdown() { s.N.ShutdownNfs() }

// WaitIdle waits until no shrinker thread runs.
func (s *Srv) WaitIdle() bool {
	for i := 0; i < 20000; i++ {
		if s.N.VerifShrinker().VerifNThread() == 0 {
			return true
		}
		time.Sleep(200 * time.Microsecond)
	}
	return false
}

func (s *Srv) Free() (int, int) {
	st := s.N.VerifState()
	return Clamp(st.Balloc.NumFree()), Clamp(st.Ialloc.NumFree())
}

func RootFh() string { return Hex(fh.MkRootFh3().Data) }

// Do executes c, recording allocator free counts around it.
func (s *Srv) Do(c *Call) *Call {
	c.FreeB, c.FreeI = s.Free()
	b0 := Mon.Begins()
	done := make(chan struct{})
	go func() {
		defer close(done)
		c.Exec(s.API)
	}()
	select {
	case <-done:
	case <-time.After(s.timeout()):
		// the call never returned: report it and leave the goroutine behind (the instance is wedged)
		cc := *c
		cc.St = "TIMEOUT"
		cc.Txns = Mon.Begins() - b0
		cc.Leaked = Mon.Held()
		s.Wedged = true
		return &cc
	}
	c.Txns = Mon.Begins() - b0
	c.Leaked = []int{}
	if c.St == "TIMEOUT" { // Exec's own watchdog gave up: the instance is wedged as well
		s.Wedged = true
		c.Leaked = Mon.Held()
		return c
	}
	if c.St != "PANIC" {
		c.FreeB2, c.FreeI2 = s.Free()
		if s.Sequential {
			if s.N.VerifShrinker().VerifNThread() == 0 {
				c.Leaked = Mon.Held()
			}
		}
	} else {
		s.Wedged = true
	}
	return c
}

func (s *Srv) timeout() time.Duration {
	if s.Timeout > 0 {
		return s.Timeout
	}
	return 10*time.Second + ExecTimeout
}

// ---------------------------------------------------------------------------
// trace writer

type Trace struct {
	w   *bufio.Writer
	f   io.Closer
	N   int
	enc *json.Encoder
}

func NewTrace(path string) (*Trace, error) {
	f, err := os.Create(path)
	if err != nil {
		return nil, err
	}
	w := bufio.NewWriterSize(f, 1<<20)
	enc := json.NewEncoder(w)
	enc.SetEscapeHTML(false)
	return &Trace{w: w, f: f, enc: enc}, nil
}

func (t *Trace) Emit(v interface{}) {
	if err := t.enc.Encode(v); err != nil {
		panic(err)
	}
	t.N++
	t.w.Flush() // the file is complete up to this event even if a goroutine of the server under test panics next
}

func (t *Trace) Close() {
	t.w.Flush()
	t.f.Close()
}

// Reset starts a new trace segment.
type Reset struct {
	Ev       string `json:"ev"` // "reset"
	Seg      int    `json:"seg"`
	Driver   string `json:"driver"`
	Seed     int    `json:"seed"`
	DiskSz   int    `json:"disksz"`
	Unstable bool   `json:"unstable"`
	Root     string `json:"root"`
	KeepHist bool   `json:"keephist"` // the trace contains crashprobe events: keep every abstract state
}

type Restart struct {
	Ev   string `json:"ev"` // "restart"
	Kind string `json:"kind"`
	Dump *Dump  `json:"dump"` // the tree as the new instance shows it
}

// ---------------------------------------------------------------------------
// API dump: the whole observable tree, obtained through the procedures only.

type Win struct {
	Off  int   `json:"off"`
	Len  int   `json:"len"`
	Runs []Run `json:"runs"`
}

type DObj struct {
	Path   []string `json:"path"`
	Kind   int      `json:"kind"`
	Id     int      `json:"id"`
	Fh     string   `json:"fh"`
	Size   int      `json:"size"`
	Wins   []Win    `json:"wins"`
	Target string   `json:"target"`
	Names  []string `json:"names"`
}

type Dump struct {
	Ev   string `json:"ev"` // "dump"
	Who  string `json:"who"`
	OK   bool   `json:"ok"`
	Err  string `json:"err"`
	Objs []DObj `json:"objs"`
	Dead bool   `json:"dead"` // a call of the walk did not return
}

const dumpFullLimit = 4 << 20 // files up to this size are read completely
const dumpWin = 64 << 10

// DumpAPI walks the tree from the root with READDIRPLUS/LOOKUP/GETATTR/READ/READLINK.
// Extents remembers, per handle, the byte ranges the driver wrote (from its own
// calls; not an oracle). Dumps of files too large to read completely read these
// ranges, so that the presence or absence of each write is observed.
type Extents map[string][][2]int

func (x Extents) Add(fh string, off, n int) {
	if n <= 0 {
		return
	}
	l := x[fh]
	for _, e := range l {
		if e[0] <= off && off+n <= e[0]+e[1] {
			return
		}
	}
	l = append(l, [2]int{off, n})
	if len(l) > 48 {
		l = l[len(l)-48:]
	}
	x[fh] = l
}

func DumpAPI(api API, who string) (d *Dump) { return DumpAPIx(api, who, nil) }

// DumpTolerantShort, when set and true, lets a dump accept a short READ (see above).
var DumpTolerantShort func() bool

func DumpAPIx(api API, who string, hint Extents) (d *Dump) {
	d = &Dump{Ev: "dump", Who: who, OK: true, Objs: []DObj{}}
	defer func() {
		if r := recover(); r != nil {
			d.OK = false
			d.Err = fmt.Sprint("panic: ", r)
		}
	}()
	fail := func(f string, a ...interface{}) {
		if d.OK {
			d.OK = false
			d.Err = fmt.Sprintf(f, a...)
		}
		if strings.Contains(d.Err, "TIMEOUT") || strings.Contains(d.Err, "PANIC") {
			d.Dead = true // the instance no longer answers: stop walking
		}
	}
	var walk func(path []string, fh string, depth int)
	walk = func(path []string, fh string, depth int) {
		if d.Dead {
			return
		}
		if depth > 64 || len(d.Objs) > 100000 {
			fail("tree too deep/large at %v", path)
			d.Dead = true // a cycle or a runaway tree: stop walking
			return
		}
		g := NewCall("GETATTR")
		g.Fh = fh
		g.Exec(api)
		if g.St != "OK" {
			fail("getattr %v: %s/%d", path, g.St, g.Code)
			return
		}
		o := DObj{Path: append([]string{}, path...), Kind: g.RType, Id: g.RId, Fh: fh, Size: g.RSize,
			Wins: []Win{}, Names: []string{}}
		switch g.RType {
		case 1: // REG
			read := func(off, n int) {
				got := []Run{}
				start := off // start of the window being collected
				pos := off
				flush := func(end int) {
					if end > start || (end == off+n && start == off) {
						o.Wins = append(o.Wins, Win{Off: start, Len: end - start, Runs: Enc(Dec(got))})
					}
					got = []Run{}
				}
				for pos < off+n {
					r := NewCall("READ")
					r.Fh = fh
					r.Off = pos
					r.Cnt = 1 << 16 // not above the announced rtmax
					if off+n-pos < r.Cnt {
						r.Cnt = off + n - pos
					}
					r.Exec(api)
					if r.St != "OK" {
						fail("read %v @%d: %s/%d", path, pos, r.St, r.Code)
						return
					}
					l := RunsLen(r.RData)
					if l == 0 {
						if DumpTolerantShort != nil && DumpTolerantShort() {
							// nearly full disk: a READ that has to materialise a hole comes up short. Keep what was
							// read as one window, skip the block that cannot be read and go on behind it, so that
							// the blocks that ARE mapped still take part in the comparison.
							flush(pos)
							pos = (pos/4096 + 1) * 4096
							start = pos
							continue
						}
						// not a full disk: a read that returns nothing before the end is reported as it is
						o.Wins = append(o.Wins, Win{Off: start, Len: off + n - start, Runs: Enc(Dec(got))})
						return
					}
					got = append(got, r.RData...)
					pos += l
				}
				if pos > off+n {
					pos = off + n
				}
				if start < off+n || start == off {
					flush(pos)
				}
			}
			if g.RSize <= dumpFullLimit {
				read(0, g.RSize)
			} else {
				read(0, dumpWin)
				read(g.RSize-dumpWin, dumpWin)
				for _, e := range hint[fh] {
					off, n := e[0], e[1]
					if n > 2*dumpWin {
						n = 2 * dumpWin
					}
					if off >= g.RSize {
						continue
					}
					if off+n > g.RSize {
						n = g.RSize - off
					}
					read(off, n)
				}
			}
		case 5: // LNK
			r := NewCall("READLINK")
			r.Fh = fh
			r.Exec(api)
			if r.St != "OK" {
				fail("readlink %v: %s/%d", path, r.St, r.Code)
			}
			o.Target = r.RTarget
		case 2: // DIR
			type ch struct{ name, fh string }
			var kids []ch
			cookie := 0
			seen := map[string]bool{}
			for page := 0; !d.Dead; page++ {
				if page > 100000 {
					fail("readdirplus %v does not end", path)
					break
				}
				r := NewCall("READDIRPLUS")
				r.Fh = fh
				r.Cookie = cookie
				r.DirCount = 1 << 16
				r.MaxCount = 1 << 17
				r.Exec(api)
				if r.St != "OK" {
					fail("readdirplus %v: %s/%d", path, r.St, r.Code)
					break
				}
				for _, e := range r.Ents {
					if d.Dead {
						break
					}
					cookie = e.Cookie
					if e.Name == "." || e.Name == ".." {
						continue
					}
					if seen[e.Name] {
						fail("readdirplus %v: duplicate %q", path, e.Name)
						continue
					}
					seen[e.Name] = true
					o.Names = append(o.Names, e.Name)
					// the handle comes from LOOKUP so that LOOKUP and READDIRPLUS are cross-checked by the spec
					l := NewCall("LOOKUP")
					l.Fh = fh
					l.Name = e.Name
					l.Exec(api)
					if l.St != "OK" {
						fail("lookup %v/%q: %s/%d", path, e.Name, l.St, l.Code)
						continue
					}
					if e.Plus && e.Fh != l.RFh {
						fail("readdirplus/lookup handle mismatch %v/%q", path, e.Name)
					}
					kids = append(kids, ch{e.Name, l.RFh})
				}
				if r.REof {
					break
				}
				if len(r.Ents) == 0 {
					fail("readdirplus %v: empty page without eof", path)
					break
				}
			}
			sort.Strings(o.Names)
			d.Objs = append(d.Objs, o)
			sort.Slice(kids, func(i, j int) bool { return kids[i].name < kids[j].name })
			for _, k := range kids {
				walk(append(path, k.name), k.fh, depth+1)
			}
			return
		}
		d.Objs = append(d.Objs, o)
	}
	walk([]string{}, RootFh(), 0)
	return d
}
