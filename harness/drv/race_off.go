//go:build !race

package drv

const RaceBuild = false
