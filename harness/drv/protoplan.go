package drv

import (
	"bufio"
	"encoding/json"
	"fmt"
	"os"
	"strings"
	"sync"
	"sync/atomic"
	"time"

	"verif/harness/vdisk"
)

// Replay of behaviours of the design model FsProto (spec/FsProtoGen.tla, TLC simulation) on the real server:
// the scenario "treegen" is built with the model's inode numbers (root = 1, file f = 2 inside directory D = 3, the
// next free numbers 4 and 5), every client goroutine issues its requests, and a gate at the lock hook lets the lock
// acquisitions happen in exactly the order of the model's behaviour. A real acquisition the model does not have at
// that point (or a missing one) stops the replay: the code does not follow the protocol of the model ("diverged").
// Otherwise the status of every request is compared with the model's. The history itself is validated by NfsLin like
// any other concurrent history; divergence and status differences are reported as model drift (notes).

type ppOp struct {
	P   string `json:"p"`
	H   []int  `json:"h"`
	N   string `json:"n"`
	H2  []int  `json:"h2"`
	N2  string `json:"n2"`
	V   int    `json:"v"`
	Big bool   `json:"big"`
}

type ppEv struct {
	K  string `json:"k"`
	C  int    `json:"c"`
	I  int    `json:"i"`
	St string `json:"st"`
	P  string `json:"p"`
}

type ppPlan struct {
	Todo  map[string][]ppOp `json:"todo"` // TLC prints a function with integer domain as a list or an object
	Sched []ppEv            `json:"sched"`
	Bad   string            `json:"bad"`
}

func loadPlans(file string) []ppPlan {
	f, err := os.Open(file)
	if err != nil {
		panic(err)
	}
	defer f.Close()
	var out []ppPlan
	sc := bufio.NewScanner(f)
	sc.Buffer(make([]byte, 1<<20), 1<<24)
	for sc.Scan() {
		ln := strings.TrimSpace(sc.Text())
		if !strings.HasPrefix(ln, "\"PLAN ") {
			continue
		}
		var s string
		if json.Unmarshal([]byte(ln), &s) != nil {
			continue
		}
		raw := s[5:]
		var generic struct {
			Todo  json.RawMessage `json:"todo"`
			Sched []ppEv          `json:"sched"`
			Bad   string          `json:"bad"`
		}
		if json.Unmarshal([]byte(raw), &generic) != nil {
			continue
		}
		p := ppPlan{Sched: generic.Sched, Bad: generic.Bad, Todo: map[string][]ppOp{}}
		var asList [][]ppOp
		if json.Unmarshal(generic.Todo, &asList) == nil {
			for i, l := range asList {
				p.Todo[itoa(i+1)] = l
			}
		} else if json.Unmarshal(generic.Todo, &p.Todo) != nil {
			continue
		}
		out = append(out, p)
	}
	return out
}

func itoa(i int) string { return string(rune('0' + i)) }

// usable: the real allocator is a ring, the model hands out the lowest free number; they agree as long as no number
// is freed before a later allocation
func (p ppPlan) usable() bool {
	freed := false
	for _, e := range p.Sched {
		if e.K == "fin" && e.St == "OK" && (e.P == "REMOVE" || e.P == "RENAME") {
			freed = true
		}
		if e.K == "fin" && e.P == "CREATE" && freed {
			return false
		}
	}
	return p.Bad == ""
}

func RunProtoPlans(file string, from, count int, t *Trace, seg int) int {
	plans := loadPlans(file)
	n := 0
	for k, p := range plans {
		if k < from || !p.usable() {
			continue
		}
		if n >= count {
			break
		}
		n++
		seg = runProtoPlan(k, p, t, seg)
	}
	return seg
}

func runProtoPlan(k int, plan ppPlan, t *Trace, seg int) int {
	d := vdisk.New(8000)
	s, err := Start(d, true)
	if err != nil {
		panic(err)
	}
	root := RootFh()
	t.Emit(Reset{Ev: "reset", Seg: seg, Driver: "protoplan", Seed: k, DiskSz: 8000, Unstable: true, Root: root})
	seg++
	var seq int64
	idx := 0
	var mu sync.Mutex
	var hist []HEv
	rec := func(cl int, c *Call, a, b int64) {
		mu.Lock()
		hist = append(hist, HEv{Ev: "inv", Seq: a, Cl: cl, Call: c},
			HEv{Ev: "ret", Seq: b, Cl: cl, Call: &Call{I: c.I, Data: []Run{}, RData: []Run{}, Ents: []Ent{}, Leaked: []int{}}})
		mu.Unlock()
	}
	doSeq := func(c *Call) *Call {
		c.I = idx
		idx++
		c.NLen, c.NLen2 = len(c.Name), len(c.Name2)
		a := atomic.AddInt64(&seq, 1)
		c.Exec(s.API)
		b := atomic.AddInt64(&seq, 1)
		t.Emit(HEv{Ev: "inv", Seq: a, Cl: 0, Call: c})
		t.Emit(HEv{Ev: "ret", Seq: b, Cl: 0, Call: &Call{I: c.I, Data: []Run{}, RData: []Run{}, Ents: []Ent{}, Leaked: []int{}}})
		return c
	}
	mk := func(proc, dir, name string) *Call {
		c := NewCall(proc)
		c.Fh, c.Name = dir, name
		return doSeq(c)
	}
	l := NewCall("FSINFO")
	l.Fh = root
	doSeq(l)
	pc := NewCall("PATHCONF")
	pc.Fh = root
	doSeq(pc)
	mk("CREATE", root, "tmp")    // number 2
	dD := mk("MKDIR", root, "a") // number 3
	mk("REMOVE", root, "tmp")    // 2 is free again
	s.WaitIdle()
	s.Shutdown()
	s, err = Start(d, true) // the allocator starts again at the lowest free number
	if err != nil {
		panic(err)
	}
	t.Emit(map[string]interface{}{"ev": "restart", "kind": "clean"})
	fF := mk("CREATE", dD.RFh, "a")
	if dD.St != "OK" || fF.St != "OK" || dD.RId != 3 || fF.RId != 2 {
		s.Shutdown()
		return seg // the numbers are not the model's: skip
	}
	hof := map[int]string{1: root, 2: fF.RFh, 3: dD.RFh}
	// the gate
	var gmu sync.Mutex
	cond := sync.NewCond(&gmu)
	next := 0
	diverged := ""
	lastWant := ""
	client := map[int64]int{}
	deadline := func() *time.Timer {
		return time.AfterFunc(3*time.Second, func() {
			gmu.Lock()
			if diverged == "" {
				diverged = "timeout"
			}
			cond.Broadcast()
			gmu.Unlock()
		})
	}
	// READDIRPLUS locks the children in the order of the directory's slots, the model in an arbitrary fixed order:
	// an acquisition of this client that the model has a little later, still inside the same READDIRPLUS, is moved up
	reorder := func(c int, inum int) { // called with gmu held
		if next >= len(plan.Sched) || !(plan.Sched[next].K == "acq" && plan.Sched[next].C == c && plan.Sched[next].I != inum) {
			return
		}
		for m := next + 1; m < len(plan.Sched); m++ {
			e := plan.Sched[m]
			if e.C != c {
				continue
			}
			if e.K == "fin" {
				return
			}
			if e.I == inum {
				for f := m + 1; f < len(plan.Sched); f++ { // the request these acquisitions belong to
					if plan.Sched[f].C == c && plan.Sched[f].K == "fin" {
						if plan.Sched[f].P == "READDIRPLUS" {
							plan.Sched[next], plan.Sched[m] = plan.Sched[m], plan.Sched[next]
						}
						return
					}
				}
				return
			}
		}
	}
	var pre func()
	_ = pre
	waitFor := func(match func(e ppEv) bool, what string, before func()) {
		gmu.Lock()
		tm := deadline()
		for diverged == "" {
			if before != nil {
				before()
			}
			if next < len(plan.Sched) && match(plan.Sched[next]) {
				next++
				cond.Broadcast()
				break
			}
			if next >= len(plan.Sched) {
				diverged = "more events than the model has: " + what
				cond.Broadcast()
				break
			}
			cond.Wait()
		}
		tm.Stop()
		gmu.Unlock()
	}
	Mon.Gate = func(txn int, inum uint64) {
		gmu.Lock()
		c, ok := client[goid()]
		gmu.Unlock()
		if !ok {
			return // not a client of the plan (the set-up, a dump)
		}
		gmu.Lock()
		lastWant = fmt.Sprintf("client %d wants inode %d", c, inum)
		if os.Getenv("PPDEBUG") != "" {
			fmt.Fprintf(os.Stderr, "want c%d i%d next=%d\n", c, inum, next)
		}
		gmu.Unlock()
		waitFor(func(e ppEv) bool { return e.K == "acq" && e.C == c && e.I == int(inum) }, "acquisition", func() { reorder(c, int(inum)) })
	}
	defer func() { Mon.Gate = nil }()
	var wg sync.WaitGroup
	status := map[int][]string{}
	for cs, ops := range plan.Todo {
		c := int(cs[0] - '0')
		ops := ops
		wg.Add(1)
		go func() {
			defer wg.Done()
			gmu.Lock()
			client[goid()] = c
			gmu.Unlock()
			for j, o := range ops {
				call := ppCall(o, hof)
				call.Cl, call.I = c, c*1000+j
				call.NLen, call.NLen2 = len(call.Name), len(call.Name2)
				a := atomic.AddInt64(&seq, 1)
				call.ExecRaw(s.API)
				if call.Proc == "READDIRPLUS" {
					for k := range call.Ents { // see NfsSpec.PageRules: a child's size may change while the listing is built
						call.Ents[k].Size = -1
					}
				}
				b := atomic.AddInt64(&seq, 1)
				rec(c, call, a, b)
				mu.Lock()
				status[c] = append(status[c], ppClass(call))
				mu.Unlock()
				waitFor(func(e ppEv) bool { return e.K == "fin" && e.C == c }, "finish", nil)
			}
		}()
	}
	done := make(chan struct{})
	go func() { wg.Wait(); close(done) }()
	wedged := false
	select {
	case <-done:
	case <-time.After(30 * time.Second):
		wedged = true
	}
	Mon.Gate = nil
	sortHist(hist)
	for _, h := range hist {
		t.Emit(h)
	}
	// compare the statuses with the model's
	diffs := []string{}
	if diverged == "" && !wedged {
		pos := map[int]int{}
		for _, e := range plan.Sched {
			if e.K != "fin" {
				continue
			}
			j := pos[e.C]
			pos[e.C]++
			if j < len(status[e.C]) && status[e.C][j] != e.St && !(e.St == "ERR" && status[e.C][j] != "OK") {
				diffs = append(diffs, e.P+": model "+e.St+", server "+status[e.C][j])
			}
		}
	}
	t.Emit(map[string]interface{}{"ev": "protonote", "plan": k, "diverged": diverged, "at": next, "of": len(plan.Sched), "diffs": diffs, "wedged": wedged, "lastwant": lastWant})
	if wedged {
		Mon.Reset()
		return seg
	}
	s.WaitIdle()
	t.Emit(DumpAPI(s.API, "final"))
	t.Emit(TakeSnap(s, "run", true))
	s.Shutdown()
	return seg
}

func ppCall(o ppOp, hof map[int]string) *Call {
	h := func(x []int) string {
		if len(x) > 0 {
			if v, ok := hof[x[0]]; ok {
				return v
			}
		}
		return hof[1]
	}
	var c *Call
	switch o.P {
	case "GETATTR":
		c = NewCall("GETATTR")
		c.Fh = h(o.H)
	case "WRITE":
		c = NewCall("WRITE")
		c.Fh, c.Off, c.Cnt, c.DLen, c.Data, c.Stable = h(o.H), 0, 10, 10, []Run{{10, 60 + o.V}}, 2
	case "TRUNC":
		c = NewCall("SETATTR")
		c.Fh, c.SetSize, c.Size = h(o.H), true, 0
	case "LOOKUP", "REMOVE":
		c = NewCall(o.P)
		c.Fh, c.Name = h(o.H), o.N
	case "CREATE":
		c = NewCall("CREATE")
		c.Fh, c.Name, c.How = h(o.H), o.N, 1 // GUARDED: an existing name is refused
	case "RENAME":
		c = NewCall("RENAME")
		c.Fh, c.Name, c.Fh2, c.Name2 = h(o.H), o.N, h(o.H2), o.N2
	case "READDIRPLUS":
		c = NewCall("READDIRPLUS")
		c.Fh, c.DirCount, c.MaxCount = h(o.H), 4096, 16384
	default:
		c = NewCall("NULL")
	}
	return c
}

func ppClass(c *Call) string {
	switch {
	case c.St == "OK":
		return "OK"
	case c.St == "STALE":
		return "STALE"
	case c.Code == 2:
		return "NOENT"
	case c.Code == 17:
		return "EXIST"
	case c.Code == 28:
		return "NOSPC"
	}
	return "ERR"
}
