package drv

import (
	"crypto/sha1"
	"encoding/json"
	"fmt"
	"math/rand"
	"os"
	"strings"
	"time"

	"verif/harness/vdisk"
)

// Crash engine: run a workload on a recording disk, then for crash points of the
// recorded stream of writes/barriers (and sampled losses of un-barriered writes)
// build the image, run the real recovery (MakeNfs) on it and record what the
// recovered server shows: tree dump (API) and structural snapshot.

type CrashCfg struct {
	Seed     int
	Ops      int
	DiskSz   uint64
	Unstable bool
	Profile  string
	Avoid    map[string]bool
	Loss     int // random loss sets per window (besides none / each single / all-but-last)
	Stride   int // probe every Stride-th event boundary (1 = all)
	Cont     int // number of continuation segments (crash, then keep serving)
	Nested   int // number of nested recovery-crash experiments
	MaxProbe int
}

type CrashProbe struct {
	Ev       string    `json:"ev"` // "crashprobe"
	P        int       `json:"p"`
	NLost    int       `json:"nlost"`
	Window   int       `json:"window"`
	Acked    int       `json:"acked"`
	Invoked  int       `json:"invoked"`
	OK       bool      `json:"ok"`
	Err      string    `json:"err"`
	Count    int       `json:"count"` // crash images with this same outcome
	Depth    int       `json:"depth"`
	Dump     *Dump     `json:"dump"`
	Snap     *Snap     `json:"snap"`
	Inflight []*Call   `json:"inflight"`
	RawReads []RawRead `json:"rawreads"` // start-up reads of home blocks that the recovered log supersedes
	InoStart int       `json:"inostart"`
}

func quiesce(d *vdisk.Disk, s *Srv) {
	s.WaitIdle()
	last := -1
	for i := 0; i < 400; i++ {
		n := d.NEvents()
		if n == last {
			return
		}
		last = n
		time.Sleep(3 * time.Millisecond)
	}
}

// recoverOn runs the real server on img and reports what it shows.
// RawRead is a read of a home block during start-up whose recovered log holds a newer version of that block.
type RawRead struct {
	Addr   int    `json:"addr"`
	H      string `json:"h"`      // content the read returned
	Logged string `json:"logged"` // content the recovered log holds for that block
}

var lastRawReads []RawRead

func recoverOn(img *vdisk.Disk, unstable bool, ext Extents) (ok bool, errs string, dump *Dump, snap *Snap) {
	logged := LoggedOnDisk(img)
	raws := []RawRead{}
	img.OnRead = func(a uint64, data []byte) {
		if l, ok := logged[a]; ok && a >= walHomeLo {
			raws = append(raws, RawRead{Addr: int(a), H: hashBlock(data), Logged: l})
		}
	}
	s, err := Start(img, unstable)
	img.OnRead = nil
	lastRawReads = raws
	if err != nil {
		// never a JSON null in a trace (TLC's Json module refuses it): an empty snapshot stands for "no recovered server"
		return false, err.Error(), &Dump{Ev: "dump", Who: "recovered", Objs: []DObj{}}, emptySnap()
	}
	snap = TakeSnap(s, "recovered", true)
	DumpTolerantShort = func() bool { fb, _ := s.Free(); return fb < 64 }
	dump = DumpAPIx(s.API, "recovered", ext)
	DumpTolerantShort = nil
	func() {
		defer func() { recover() }()
		s.Shutdown()
	}()
	return true, "", dump, snap
}

func emptySnap() *Snap {
	return &Snap{Ev: "snap", Who: "none", Bbm: []Iv{}, Ibm: []Iv{}, Inodes: []SInode{}, Dirs: []SDir{}, NonZero: []Iv{}, Balloc: []Iv{}, Ialloc: []Iv{}, Icache: []SCache{}, Ipos: []int{}}
}

func staleOnly(r []RawRead, inostart int) []RawRead {
	o := []RawRead{}
	for _, x := range r {
		if x.H != x.Logged && x.Addr != inostart {
			o = append(o, x)
		}
	}
	return o
}

func hashOf(v interface{}) string {
	b, _ := json.Marshal(v)
	return fmt.Sprintf("%x", sha1.Sum(b))
}

// lossSets returns the loss sets to try for a window of n un-barriered writes.
func lossSets(n int, r *rand.Rand, extra int) []map[int]bool {
	sets := []map[int]bool{nil}
	if n <= 1 {
		if n == 1 {
			sets = append(sets, map[int]bool{0: true})
		}
		return sets
	}
	for i := 0; i < n && i < 24; i++ { // one write missing
		sets = append(sets, map[int]bool{i: true})
	}
	ab := map[int]bool{} // only the last write present
	for i := 0; i < n-1; i++ {
		ab[i] = true
	}
	sets = append(sets, ab)
	for k := 0; k < extra; k++ {
		m := map[int]bool{}
		for i := 0; i < n; i++ {
			if r.Intn(2) == 0 {
				m[i] = true
			}
		}
		sets = append(sets, m)
	}
	return sets
}

// RunCrash runs one crash experiment and writes it to t as segments starting at seg; returns the next free segment number.
func RunCrash(cfg CrashCfg, t *Trace, seg int) int {
	d := vdisk.New(cfg.DiskSz)
	d.StartRecording()
	s, err := Start(d, cfg.Unstable)
	if err != nil {
		panic(err)
	}
	p0 := d.NEvents() // the events before this point are the initial format's
	g := &seqGen{cfg: SeqCfg{Seed: cfg.Seed, Profile: cfg.Profile, Avoid: cfg.Avoid, Unstable: cfg.Unstable, DiskSz: cfg.DiskSz},
		r: rand.New(rand.NewSource(int64(cfg.Seed))), s: s, t: t, enumC: map[string][]int{}, ext: Extents{}, mark: true}
	g.root = &gobj{fh: RootFh(), kind: 2, alive: true}
	s.Sequential = true
	t.Emit(Reset{Ev: "reset", Seg: seg, Driver: "crash/" + cfg.Profile, Seed: cfg.Seed, DiskSz: int(cfg.DiskSz), Unstable: cfg.Unstable,
		Root: g.root.fh, KeepHist: true})
	seg++
	g.limits()
	if cfg.Profile == "script" {
		crashScript(g, cfg.Seed/1000) // the -seed value selects the script (Seed = seed*1000 + segment)
	} else {
		for n := 0; n < cfg.Ops && !s.Wedged; n++ {
			g.step()
		}
	}
	if s.Wedged {
		Mon.Reset()
		return seg
	}
	quiesce(d, s)
	events := d.StopRecording()
	s.Shutdown()
	calls := g.calls
	// index the markers
	type pt struct{ acked, invoked int }
	pts := make([]pt, len(events)+1)
	a, inv := 0, 0
	for i, e := range events {
		pts[i] = pt{a, inv}
		if e.Kind == vdisk.EvMark {
			if e.Mark == "inv" {
				inv++
			} else if e.Mark == "ret" {
				a++
			}
		}
	}
	pts[len(events)] = pt{a, inv}
	base := vdisk.New(cfg.DiskSz)
	r := rand.New(rand.NewSource(int64(cfg.Seed) + 7))
	seen := map[string]*CrashProbe{}
	order := []*CrashProbe{}
	nprobe := 0
	type contPt struct {
		p    int
		lost map[int]bool
		pend bool // the recovered image holds a live file whose truncation is still to be completed
	}
	var contPts []contPt
	stride := cfg.Stride
	if stride < 1 {
		stride = 1
	}
	// crash points inside the initial format (before the first MakeNfs returned) count as well: no operation has been
	// issued, the recovered file system must be the empty one
	for p := 0; p <= len(events); p++ {
		if p > p0 && p < len(events) && events[p-1].Kind == vdisk.EvMark {
			continue // a marker changes nothing on the disk; the boundary after it equals the one before
		}
		// with a stride the boundaries next to a write of the journal's two header blocks are kept: a header write is a
		// commit point (or the end of an installation), the one place where the set of recovered operations changes
		hdr := func(q int) bool { return q >= 0 && q < len(events) && events[q].Kind == vdisk.EvWrite && events[q].Addr <= 1 }
		if p > p0 && (p-p0)%stride != 0 && p != len(events) && !hdr(p-1) && !hdr(p) {
			continue
		}
		win := vdisk.Window(events, p)
		sets := lossSets(len(win), r, cfg.Loss)
		// the all-present image at p is the prefix image; images with losses only when p ends a window (next is a barrier or the end)
		if !(p == len(events) || events[p].Kind == vdisk.EvBarrier) {
			sets = sets[:1]
		}
		for _, lost := range sets {
			if cfg.MaxProbe > 0 && nprobe >= cfg.MaxProbe {
				break
			}
			nprobe++
			img := vdisk.CrashImage(base, events, p, lost)
			ok, es, dump, snap := recoverOn(img, cfg.Unstable, g.ext)
			cp := &CrashProbe{Ev: "crashprobe", P: p, NLost: len(lost), Window: len(win), Acked: pts[p].acked, Invoked: pts[p].invoked,
				OK: ok, Err: es, Count: 1, Depth: 1, Dump: dump, Snap: snap, Inflight: []*Call{}, RawReads: lastRawReads}
			if snap != nil {
				cp.InoStart = snap.InoStart
			}
			key := fmt.Sprint(cp.Acked, cp.Invoked, ok, hashOf(dump), hashOf(snap), len(staleOnly(lastRawReads, cp.InoStart)) > 0)
			if q, dup := seen[key]; dup {
				q.Count++
				continue
			}
			seen[key] = cp
			order = append(order, cp)
			pend := false
			if snap != nil {
				for _, in := range snap.Inodes {
					if in.Kind == 1 && in.Ssz > (in.Size+4095)/4096 {
						pend = true
					}
				}
			}
			contPts = append(contPts, contPt{p, lost, pend})
		}
	}
	for _, w := range WalStream(events, p0) {
		t.Emit(w)
	}
	for _, cp := range order {
		t.Emit(cp)
	}
	fmt.Fprintf(os.Stderr, "crash: %d events, %d images, %d distinct outcomes\n", len(events), nprobe, len(order))
	// nested: crash during the recovery of a crash image
	for k := 0; k < cfg.Nested && len(contPts) > 0; k++ {
		c := contPts[r.Intn(len(contPts))]
		img := vdisk.CrashImage(base, events, c.p, c.lost)
		b2 := img.Clone()
		img.StartRecording()
		s2, err := Start(img, cfg.Unstable)
		if err != nil {
			continue
		}
		quiesce(img, s2)
		ev2 := img.StopRecording()
		func() { defer func() { recover() }(); s2.Shutdown() }()
		for q := 0; q <= len(ev2); q++ {
			if q > 0 && q < len(ev2) && ev2[q-1].Kind != vdisk.EvWrite && ev2[q-1].Kind != vdisk.EvBarrier {
				continue
			}
			win := vdisk.Window(ev2, q)
			sets := lossSets(len(win), r, 1)
			if !(q == len(ev2) || ev2[q].Kind == vdisk.EvBarrier) {
				sets = sets[:1]
			}
			for _, lost := range sets {
				img2 := vdisk.CrashImage(b2, ev2, q, lost)
				ok, es, dump, snap := recoverOn(img2, cfg.Unstable, g.ext)
				cp := &CrashProbe{Ev: "crashprobe", P: c.p, NLost: len(c.lost) + len(lost), Window: len(win), Acked: pts[c.p].acked,
					Invoked: pts[c.p].invoked, OK: ok, Err: es, Count: 1, Depth: 2, Dump: dump, Snap: snap, Inflight: []*Call{}, RawReads: lastRawReads}
				if snap != nil {
					cp.InoStart = snap.InoStart
				}
				key := fmt.Sprint(cp.Acked, cp.Invoked, ok, hashOf(dump), hashOf(snap))
				if q2, dup := seen[key]; dup {
					q2.Count++
					continue
				}
				seen[key] = cp
				t.Emit(cp)
			}
		}
	}
	// continuation: crash, recover, keep serving
	for k := 0; k < cfg.Cont && len(contPts) > 0; k++ {
		c := contPts[r.Intn(len(contPts))]
		if k == 0 { // the first continuation starts, when there is one, from an image in which a live file is still being cut
			var pp []contPt
			for _, x := range contPts {
				if x.pend {
					pp = append(pp, x)
				}
			}
			if len(pp) > 0 {
				c = pp[r.Intn(len(pp))]
			}
		}
		img := vdisk.CrashImage(base, events, c.p, c.lost)
		s2, err := Start(img, cfg.Unstable)
		if err != nil {
			continue
		}
		s2.Sequential = true
		t.Emit(Reset{Ev: "reset", Seg: seg, Driver: "crashcont/" + cfg.Profile, Seed: cfg.Seed, DiskSz: int(cfg.DiskSz), Unstable: cfg.Unstable,
			Root: g.root.fh})
		seg++
		ak, iv := pts[c.p].acked, pts[c.p].invoked
		for i := 0; i < ak && i < len(calls); i++ {
			t.Emit(calls[i])
		}
		infl := []*Call{}
		if iv > ak && ak < len(calls) {
			infl = append(infl, calls[ak])
		}
		snap := TakeSnap(s2, "recovered", true)
		g2 := &seqGen{cfg: g.cfg, r: rand.New(rand.NewSource(int64(cfg.Seed) + int64(k))), s: s2, t: t, enumC: map[string][]int{}, ext: g.ext}
		g2.cfg.Profile = "mix"
		g2.root = g.root
		g2.i = 100000
		g2.wtmax, g2.maxfs, g2.nmax = g.wtmax, g.maxfs, g.nmax
		t.Emit(&CrashProbe{Ev: "crash", P: c.p, NLost: len(c.lost), Acked: ak, Invoked: iv, OK: true, Count: 1, Depth: 1,
			Dump: g2.mkDump(s2, "recovered"), Snap: snap, Inflight: infl, RawReads: []RawRead{}})
		// objects the generator may use afterwards: those it knew (dead ones are fine too: they must be stale)
		g2.objs = g.objs
		g2.dead = g.dead
		// reuse inode numbers / touch files so that half-freed objects get completed, then require no leak
		pending := map[int]bool{}
		for _, in := range snap.Inodes {
			if in.Ssz > (in.Size+4095)/4096 {
				pending[in.Inum] = true
			}
		}
		for n := 0; n < 30 && !s2.Wedged && len(pending) > 0; n++ {
			c := NewCall("CREATE")
			c.Fh, c.Name, c.NLen = g2.root.fh, fmt.Sprintf("reuse%d", n), len(fmt.Sprintf("reuse%d", n))
			g2.emit(c)
			g2.learn(c)
			if c.St == "OK" {
				delete(pending, c.RId)
			}
		}
		for _, o := range g2.objs {
			if len(pending) == 0 || s2.Wedged {
				break
			}
			if o.alive && o.kind == 1 {
				c := NewCall("SETATTR") // no attribute set: touches the file (completes a pending shrink)
				c.Fh = o.fh
				g2.emit(c)
				if c.St == "OK" {
					delete(pending, c.RId)
				}
			}
		}
		// grow every file the history knew again and read what lies beyond its recovered size: bytes that were cut off before
		// the crash (and blocks a half-done truncation has not freed) must read as zeros
		nreg := 0
		for _, o := range g2.objs {
			if o.kind != 1 || nreg >= 4 || s2.Wedged {
				continue
			}
			nreg++
			// first an append of a few bytes (a write that starts at the end and ends inside a block: it must not bring back
			// what a half-done truncation still holds in that block), then the growth
			end := -1
			ga := NewCall("GETATTR")
			ga.Fh = o.fh
			g2.emit(ga)
			if ga.St == "OK" && ga.HasAttr && ga.RSize < 1<<30 {
				end = ga.RSize
				w := NewCall("WRITE")
				w.Fh, w.Off, w.Cnt, w.DLen, w.Stable = o.fh, end, 100, 100, 2
				w.Data = g2.payload(100)
				g2.learn(g2.emit(w))
			}
			c := NewCall("SETATTR")
			c.Fh, c.SetSize, c.Size = o.fh, true, 700*4096
			g2.emit(c)
			if end >= 0 && end < 690*4096 {
				r := NewCall("READ")
				r.Fh, r.Off, r.Cnt = o.fh, end, 2*4096
				g2.emit(r)
			}
			for _, off := range []int{0, 2 * 4096, 4*4096 + 100, 528 * 4096, 598 * 4096} {
				r := NewCall("READ")
				r.Fh, r.Off, r.Cnt = o.fh, off, 6*4096
				g2.emit(r)
			}
		}
		for n := 0; n < 25 && !s2.Wedged; n++ {
			g2.step()
		}
		if !s2.Wedged {
			s2.WaitIdle()
			who := "aftercrash"
			if len(pending) == 0 {
				who = "run" // every half-freed object was reused or touched: no leak may remain
			}
			t.Emit(TakeSnap(s2, who, true))
			t.Emit(g2.mkDump(s2, "run"))
			s2.Shutdown()
		} else {
			Mon.Reset()
		}
	}
	return seg
}

// crashScript: directed workloads for the crash engine (patterns in which atomicity or durability is at risk):
// writes that fill holes without growing the file, pre-sized files, truncations large enough for the background
// shrinker, UNSTABLE/COMMIT sequences with read-only calls in between, renames over targets, removals of big files.
func crashScript(g *seqGen, variant int) {
	const B = 4096
	root := g.root.fh
	mk := func(proc, dir, name string) string {
		c := NewCall(proc)
		c.Fh, c.Name, c.NLen = dir, name, len(name)
		if proc == "SYMLINK" {
			c.Target, c.TLen = "/some/target", 12
		}
		c = g.emit(c)
		g.learn(c)
		return c.RFh
	}
	wr := func(fh string, off, n, stable int) {
		c := NewCall("WRITE")
		c.Fh, c.Off, c.Cnt, c.DLen, c.Stable = fh, off, n, n, stable
		c.Data = g.payload(n)
		g.learn(g.emit(c))
	}
	tr := func(fh string, size int) {
		c := NewCall("SETATTR")
		c.Fh, c.SetSize, c.Size = fh, true, size
		g.emit(c)
	}
	simple := func(proc, fh string) {
		c := NewCall(proc)
		c.Fh, c.Cnt = fh, 100
		g.emit(c)
	}
	rn := func(d, n, d2, n2 string) {
		c := NewCall("RENAME")
		c.Fh, c.Name, c.Fh2, c.Name2, c.NLen, c.NLen2 = d, n, d2, n2, len(n), len(n2)
		g.learn(g.emit(c))
	}
	rm := func(proc, d, n string) {
		c := NewCall(proc)
		c.Fh, c.Name, c.NLen = d, n, len(n)
		g.learn(g.emit(c))
	}
	switch variant % 8 {
	case 0: // holes filled by non-growing multi-block writes; pre-sized file
		f := mk("CREATE", root, "f")
		wr(f, B, B, 2)   // block 1, block 0 stays a hole
		wr(f, 0, 2*B, 2) // fills the hole, does not grow the file
		h := mk("CREATE", root, "h")
		tr(h, 32*B)
		wr(h, 0, 12*B, 2) // crosses from direct into indirect blocks inside the pre-set size
		wr(h, 6*B+100, 3*B, 1)
		wr(h, 20*B, 5000, 2)
		tr(h, 7*B+10)
		wr(h, 2*B, 2*B, 2)
	case 1: // truncations that need the background shrinker; removal of a big file
		f := mk("CREATE", root, "big")
		wr(f, 0, 3*B, 2)
		wr(f, 530*B, 2*B, 2)
		tr(f, 2*B) // aligned, > 511 blocks cut off
		wr(f, 540*B, 100, 2)
		tr(f, B+17) // unaligned
		wr(f, 600*B, B, 2)
		rm("REMOVE", root, "big")
		mk("CREATE", root, "next")
	case 2: // UNSTABLE / COMMIT with read-only calls in between, two files
		a := mk("CREATE", root, "a")
		b := mk("CREATE", root, "b")
		wr(a, 0, 5000, 0)
		simple("GETATTR", a)
		simple("COMMIT", a)
		wr(b, 0, 3000, 0)
		wr(a, 4096, 4096, 0)
		simple("READ", a)
		simple("COMMIT", a)
		wr(b, 8192, 100, 0)
		simple("GETATTR", b)
		simple("COMMIT", b)
		wr(a, 100, 50, 0)
		mk("MKDIR", root, "d")
		wr(b, 0, 10, 0)
	case 5: // more inodes in use than the inode cache holds between an UNSTABLE write and its COMMIT
		x := mk("CREATE", root, "x")
		var others []string
		for i := 0; i < 104; i++ {
			others = append(others, mk("CREATE", root, fmt.Sprintf("o%03d", i)))
		}
		wr(x, 0, 4096, 0)
		for _, o := range others {
			simple("GETATTR", o)
		}
		simple("COMMIT", x)
		wr(others[0], 0, 100, 0)
		for _, o := range others[50:] {
			simple("GETATTR", o)
		}
		simple("COMMIT", others[0])
		simple("GETATTR", x)
	case 4: // a request that is refused because its transaction is larger than the journal, between UNSTABLE writes and COMMIT
		a := mk("CREATE", root, "a")
		b := mk("CREATE", root, "b")
		wr(a, 0, 5000, 0)
		{
			c := NewCall("SYMLINK")
			c.Fh, c.Name, c.NLen = root, "huge", 4
			c.Target = strings.Repeat("t", 2400000)
			c.TLen = len(c.Target)
			g.learn(g.emit(c))
		}
		simple("COMMIT", a)
		wr(b, 0, 3000, 0)
		simple("GETATTR", b)
		simple("COMMIT", b)
		wr(a, 8192, 100, 2)
	case 6, 7: // large writes while the in-memory log is nearly full of UNSTABLE data: the journal has to flush in the middle of
		// appending the request (go-journal's MemAppend), or absorbs nothing; one request must still be one transaction
		x := mk("CREATE", root, "x")
		y := mk("CREATE", root, "y")
		wr(x, 0, 254*B, 2)
		pend := []int{100, 100, 100}
		big := []int{254, 130}
		if variant%8 == 7 {
			pend = []int{200, 190}
			big = []int{400, 128}
		}
		for i, n := range pend {
			wr(y, i*200*B, n*B, 0)
		}
		wr(x, 0, big[0]*B, 2) // over x's old contents: all of it or none of it
		simple("GETATTR", x)
		for i, n := range pend {
			wr(y, i*200*B+50*B, n*B, 0)
		}
		wr(x, 100*B, big[1]*B, 1)
		tr(x, 10*B)
		for i, n := range pend {
			wr(y, i*200*B+25*B, n*B, 0)
		}
		wr(x, 5*B+7, big[0]*B, 0)
		simple("COMMIT", x)
	case 3: // namespace: renames over existing targets, directory trees
		d := mk("MKDIR", root, "d")
		e := mk("MKDIR", d, "e")
		f := mk("CREATE", d, "f")
		wr(f, 0, 9000, 2)
		g1 := mk("CREATE", root, "g")
		wr(g1, 0, 100, 2)
		rn(d, "f", root, "g")
		mk("SYMLINK", e, "l")
		rn(e, "l", d, "l2")
		rm("REMOVE", d, "l2")
		rm("RMDIR", d, "e")
		rn(root, "g", d, "g")
		rm("REMOVE", d, "g")
		rm("RMDIR", root, "d")
	}
}
