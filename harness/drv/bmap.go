package drv

import (
	"math/rand"

	"verif/harness/vdisk"
)

// Conformance of the real block map with its model (spec/BlockMap.tla, ND = NB = 2): operation sequences over the
// model's eight block indices are executed on the real server at the corresponding positions of the real tree
// (last direct / first and last indirect / first and last block of the first and of the second double-indirect
// subtree), with exactly as many free blocks as the model has; after every operation the number of blocks written
// and the number of free blocks are recorded and BlockMapTrace.tla requires them to be what the model computes.

// model index -> real block index (8 direct, 512 per index block)
var bmReal = []int{0, 7, 8, 519, 520, 1031, 1032, 1543}

func bmSize(s int) int { // model size (blocks) -> real size in blocks
	if s == 0 {
		return 0
	}
	return bmReal[s-1] + 1
}

// pairs of consecutive model indices that are consecutive in the real tree too (a two-block write can span them)
var bmPair = map[int]bool{1: true, 3: true, 5: true}

type BmOp struct {
	Op string `json:"op"` // write | trunc
	Bn int    `json:"bn"`
	N  int    `json:"n"`
}

func RunBmap(seed, count int, t *Trace, seg int) int {
	r := rand.New(rand.NewSource(int64(seed)))
	for e := 0; e < count; e++ {
		k := 1 + r.Intn(7)
		nops := 2 + r.Intn(3)
		var ops []BmOp
		size := 0
		for len(ops) < nops {
			if r.Intn(3) != 0 {
				bn := r.Intn(8)
				n := 1
				if bmPair[bn] && r.Intn(2) == 0 {
					n = 2
				}
				ops = append(ops, BmOp{"write", bn, n})
				if bn+n > size {
					size = bn + n // (an upper bound: the write may be short)
				}
			} else {
				ops = append(ops, BmOp{"trunc", 0, r.Intn(9)})
			}
		}
		seg = runBmapOne(seed*10000+e, k, ops, t, seg)
	}
	return seg
}

func runBmapOne(id, k int, ops []BmOp, t *Trace, seg int) int {
	const B = 4096
	d := vdisk.New(2700)
	s, err := Start(d, true)
	if err != nil {
		panic(err)
	}
	s.Sequential = true
	p := &P{S: s, T: t, Root: RootFh(), Unst: true}
	t.Emit(Reset{Ev: "reset", Seg: seg, Driver: "bmap", Seed: id, DiskSz: 2700, Unstable: true, Root: p.Root})
	seg++
	lim := p.Call("FSINFO", p.Root)
	p.do(lim)
	s.wtmax, s.maxfs = lim.Wtmax, lim.MaxFs
	p.do(p.Call("PATHCONF", p.Root))
	f := p.Create(p.Root, "f").RFh
	filler := p.Create(p.Root, "filler").RFh
	off := 0
	for i := 0; i < 3000; i++ {
		fb, _ := s.Free()
		if fb <= k {
			break
		}
		n := fb - k
		if n > 64 {
			n = 64
		}
		if fb-k <= 3 {
			n = 1
		}
		w := p.Write(filler, off, n*B, 2)
		if w.St != "OK" {
			break
		}
		off += w.RCount
	}
	fb, _ := s.Free()
	if fb != k { // could not reach the exact amount (an index block of the filler): skip this experiment
		s.Shutdown()
		return seg
	}
	t.Emit(map[string]interface{}{"ev": "bminit", "free": k})
	msize := 0 // the file's size in the model's block indices is tracked by the specification; here only for truncation arguments
	_ = msize
	for _, o := range ops {
		ev := map[string]interface{}{"ev": "bm", "op": o.Op, "bn": o.Bn, "n": o.N, "done": 0, "st": ""}
		if o.Op == "write" {
			c := p.Write(f, bmReal[o.Bn]*B, o.N*B, 2)
			ev["st"] = c.St
			if c.St == "OK" {
				ev["done"] = c.RCount / B
			}
		} else {
			c := p.Trunc(f, bmSize(o.N)*B)
			ev["st"] = c.St
		}
		if s.Wedged {
			return seg
		}
		s.WaitIdle()
		fb, _ := s.Free()
		ev["free"] = fb
		g := p.Getattr(f)
		ev["size"] = g.RSize / B
		t.Emit(ev)
		t.Emit(TakeSnap(s, "run", true))
	}
	p.Remove(p.Root, "f")
	s.WaitIdle()
	fb, _ = s.Free()
	t.Emit(map[string]interface{}{"ev": "bmend", "free": fb})
	t.Emit(TakeSnap(s, "run", true))
	s.Shutdown()
	return seg
}
