// Package drv drives the real go-nfsd server and records ndjson traces.
package drv

import (
	"encoding/hex"
	"fmt"
	"runtime"
	"strings"
	"time"

	"github.com/mit-pdos/go-nfsd/nfstypes"
)

// HUGE is the clamp for every integer written to a trace (TLC ints are 32 bit;
// every spec rule is uniform above maxfilesize+wtmax < HUGE, and HUGE + 2^22 < 2^31).
const HUGE = 1600000000

func Clamp(v uint64) int {
	if v > HUGE {
		return HUGE
	}
	return int(v)
}

// Run is one run of a constant byte.
type Run [2]int // len, val

// Enc run-length-encodes b (lossless).
func Enc(b []byte) []Run {
	r := []Run{}
	for i := 0; i < len(b); {
		j := i
		for j < len(b) && b[j] == b[i] {
			j++
		}
		r = append(r, Run{j - i, int(b[i])})
		i = j
	}
	return r
}

// Dec expands runs.
func Dec(r []Run) []byte {
	n := 0
	for _, x := range r {
		n += x[0]
	}
	b := make([]byte, 0, n)
	for _, x := range r {
		for i := 0; i < x[0]; i++ {
			b = append(b, byte(x[1]))
		}
	}
	return b
}

func RunsLen(r []Run) int {
	n := 0
	for _, x := range r {
		n += x[0]
	}
	return n
}

// Ent is one directory entry of a READDIR/READDIRPLUS reply.
type Ent struct {
	Name   string `json:"name"`
	Id     int    `json:"id"`
	Cookie int    `json:"cookie"`
	Plus   bool   `json:"plus"` // handle+attrs present
	Fh     string `json:"fh"`
	Type   int    `json:"type"`
	Size   int    `json:"size"`
}

// Call is one RPC with its arguments and its reply, flattened. Every field is
// always present in the JSON (TLC records need all fields).
type Call struct {
	Ev   string `json:"ev"` // "call"
	I    int    `json:"i"`
	Cl   int    `json:"cl"` // client id (concurrent histories)
	Proc string `json:"proc"`
	Ino  int    `json:"ino"` // simple server: the inode number in the handle
	// arguments
	Fh       string `json:"fh"`
	Fh2      string `json:"fh2"`
	Name     string `json:"name"`
	NLen     int    `json:"nlen"`
	Name2    string `json:"name2"`
	NLen2    int    `json:"nlen2"`
	Off      int    `json:"off"`
	OffSat   bool   `json:"offsat"` // offset was clamped
	Cnt      int    `json:"cnt"`
	SetSize  bool   `json:"setsize"`
	Size     int    `json:"size"`
	SizeSat  bool   `json:"sizesat"`
	Stable   int    `json:"stable"`
	Data     []Run  `json:"data"`
	DLen     int    `json:"dlen"`
	Cookie   int    `json:"cookie"`
	DirCount int    `json:"dircount"`
	MaxCount int    `json:"maxcount"`
	How      int    `json:"how"`
	Target   string `json:"target"`
	TLen     int    `json:"tlen"`
	// reply
	St         string `json:"st"` // OK | STALE | ERR | PANIC | TIMEOUT
	Code       int    `json:"code"`
	RFh        string `json:"rfh"`
	HasFh      bool   `json:"hasfh"`
	HasAttr    bool   `json:"hasattr"`
	RType      int    `json:"rtype"`
	RSize      int    `json:"rsize"`
	RId        int    `json:"rid"`
	RData      []Run  `json:"rdata"`
	RCount     int    `json:"rcount"`
	REof       bool   `json:"reof"`
	RCommitted int    `json:"rcommitted"`
	RVerf      string `json:"rverf"`
	RTarget    string `json:"rtarget"`
	Ents       []Ent  `json:"ents"`
	// limits (FSINFO / PATHCONF)
	Wtmax   int `json:"wtmax"`
	Rtmax   int `json:"rtmax"`
	MaxFs   int `json:"maxfs"`
	NameMax int `json:"namemax"`
	// allocator free counts before/after (−1 when not observed)
	FreeB  int `json:"freeb"`
	FreeI  int `json:"freei"`
	FreeB2 int `json:"freeb2"`
	FreeI2 int `json:"freei2"`
	// raw arguments that do not fit the clamped fields (not serialised)
	RawOff  uint64 `json:"-"`
	RawSize uint64 `json:"-"`
	RawData []byte `json:"-"`
	RawFh   []byte `json:"-"`
	RawFh2  []byte `json:"-"`
	PanicV  string `json:"panic"`
	Wedge   string `json:"wedge"`  // TIMEOUT: what the blocked goroutines wait in
	Txns    int    `json:"txns"`   // transactions begun during the call
	Leaked  []int  `json:"leaked"` // inode locks still held after a sequential call returned
}

func NewCall(proc string) *Call {
	return &Call{Ev: "call", Proc: proc, Data: []Run{}, RData: []Run{}, Ents: []Ent{},
		FreeB: -1, FreeI: -1, FreeB2: -1, FreeI2: -1, Leaked: []int{}}
}

func Hex(b []byte) string { return hex.EncodeToString(b) }

func UnHex(s string) []byte {
	b, err := hex.DecodeString(s)
	if err != nil {
		panic(err)
	}
	return b
}

func StatusClass(st nfstypes.Nfsstat3) string {
	switch st {
	case nfstypes.NFS3_OK:
		return "OK"
	case nfstypes.NFS3ERR_STALE, nfstypes.NFS3ERR_BADHANDLE:
		return "STALE"
	}
	return "ERR"
}

// API is the set of procedures a server under test offers (direct calls or a transport).
type API interface {
	NFSPROC3_NULL()
	NFSPROC3_GETATTR(nfstypes.GETATTR3args) nfstypes.GETATTR3res
	NFSPROC3_SETATTR(nfstypes.SETATTR3args) nfstypes.SETATTR3res
	NFSPROC3_LOOKUP(nfstypes.LOOKUP3args) nfstypes.LOOKUP3res
	NFSPROC3_ACCESS(nfstypes.ACCESS3args) nfstypes.ACCESS3res
	NFSPROC3_READLINK(nfstypes.READLINK3args) nfstypes.READLINK3res
	NFSPROC3_READ(nfstypes.READ3args) nfstypes.READ3res
	NFSPROC3_WRITE(nfstypes.WRITE3args) nfstypes.WRITE3res
	NFSPROC3_CREATE(nfstypes.CREATE3args) nfstypes.CREATE3res
	NFSPROC3_MKDIR(nfstypes.MKDIR3args) nfstypes.MKDIR3res
	NFSPROC3_SYMLINK(nfstypes.SYMLINK3args) nfstypes.SYMLINK3res
	NFSPROC3_MKNOD(nfstypes.MKNOD3args) nfstypes.MKNOD3res
	NFSPROC3_REMOVE(nfstypes.REMOVE3args) nfstypes.REMOVE3res
	NFSPROC3_RMDIR(nfstypes.RMDIR3args) nfstypes.RMDIR3res
	NFSPROC3_RENAME(nfstypes.RENAME3args) nfstypes.RENAME3res
	NFSPROC3_LINK(nfstypes.LINK3args) nfstypes.LINK3res
	NFSPROC3_READDIR(nfstypes.READDIR3args) nfstypes.READDIR3res
	NFSPROC3_READDIRPLUS(nfstypes.READDIRPLUS3args) nfstypes.READDIRPLUS3res
	NFSPROC3_FSSTAT(nfstypes.FSSTAT3args) nfstypes.FSSTAT3res
	NFSPROC3_FSINFO(nfstypes.FSINFO3args) nfstypes.FSINFO3res
	NFSPROC3_PATHCONF(nfstypes.PATHCONF3args) nfstypes.PATHCONF3res
	NFSPROC3_COMMIT(nfstypes.COMMIT3args) nfstypes.COMMIT3res
}

func (c *Call) fh() nfstypes.Nfs_fh3 {
	if c.RawFh != nil {
		return nfstypes.Nfs_fh3{Data: c.RawFh}
	}
	return nfstypes.Nfs_fh3{Data: UnHex(c.Fh)}
}

func (c *Call) fh2() nfstypes.Nfs_fh3 {
	if c.RawFh2 != nil {
		return nfstypes.Nfs_fh3{Data: c.RawFh2}
	}
	return nfstypes.Nfs_fh3{Data: UnHex(c.Fh2)}
}

func (c *Call) off() uint64 {
	if c.OffSat {
		return c.RawOff
	}
	return uint64(c.Off)
}

func (c *Call) setStatus(st nfstypes.Nfsstat3) bool {
	c.St = StatusClass(st)
	c.Code = int(st)
	return st == nfstypes.NFS3_OK
}

func (c *Call) setAttr(a nfstypes.Fattr3) {
	c.HasAttr = true
	c.RType = int(a.Ftype)
	c.RSize = Clamp(uint64(a.Size))
	c.RId = Clamp(uint64(a.Fileid))
}

func (c *Call) setPostAttr(a nfstypes.Post_op_attr) {
	if a.Attributes_follow {
		c.setAttr(a.Attributes)
	}
}

func (c *Call) data() []byte {
	if c.RawData != nil {
		return c.RawData
	}
	return Dec(c.Data)
}

// Exec performs the call against api and fills in the reply fields. A panic in
// the server is caught and recorded as St = "PANIC" (in production it would
// kill the process: rfc1057 runs handlers without recover).
var AfterExec func(c *Call)

// ExecTimeout bounds every call: a call that does not return is reported as St = "TIMEOUT" (the goroutine is left behind).
var ExecTimeout = 12 * time.Second

// Exec performs the call under a watchdog.
func (c *Call) Exec(api API) {
	done := make(chan struct{})
	cc := *c
	go func() {
		defer close(done)
		cc.ExecRaw(api)
	}()
	select {
	case <-done:
		*c = cc
	case <-time.After(ExecTimeout):
		c.St = "TIMEOUT"
		c.Wedge = wedgeKind()
		c.PanicV = stackSummary()
	}
}

// stackSummary: where the goroutines that are inside go-nfsd / go-journal code stand (for the replay file of a hang)
func stackSummary() string {
	buf := make([]byte, 1<<20)
	n := runtime.Stack(buf, true)
	var out []string
	for _, g := range strings.Split(string(buf[:n]), "\n\n") {
		if !strings.Contains(g, "mit-pdos/") {
			continue
		}
		var fr []string
		for _, ln := range strings.Split(g, "\n") {
			if strings.HasPrefix(ln, "github.com/mit-pdos/") || strings.HasPrefix(ln, "sync.") || strings.HasPrefix(ln, "verif/harness/vdisk") {
				f := ln
				if i := strings.Index(f, "("); i > 0 && !strings.HasPrefix(ln, "github.com/mit-pdos/go-nfsd/nfs.(*Nfs)") {
					f = strings.TrimPrefix(f, "github.com/mit-pdos/")
				}
				if i := strings.LastIndex(f, "("); i > 0 {
					f = f[:i]
				}
				fr = append(fr, strings.TrimPrefix(f, "github.com/mit-pdos/"))
				if len(fr) >= 7 {
					break
				}
			}
		}
		if len(fr) > 0 {
			out = append(out, strings.Join(fr, " < "))
		}
		if len(out) >= 8 {
			break
		}
	}
	r := strings.Join(out, " || ")
	if len(r) > 1800 {
		r = r[:1800]
	}
	return r
}

func (c *Call) ExecRaw(api API) {
	if AfterExec != nil {
		defer func() { AfterExec(c) }()
	}
	defer func() {
		if r := recover(); r != nil {
			if rr, ok := r.(RpcRefused); ok {
				c.St, c.Code, c.PanicV = "ERR", 10099, "rpc layer: "+rr.Msg
				return
			}
			c.St = "PANIC"
			c.PanicV = fmt.Sprint(r)
			if len(c.PanicV) > 200 {
				c.PanicV = c.PanicV[:200]
			}
		}
	}()
	switch c.Proc {
	case "MNULL", "MNT", "UMNT", "UMNTALL", "DUMP", "EXPORT": // the MOUNT program (the path travels in Name)
		execMount(api, c)
	case "NULL":
		api.NFSPROC3_NULL()
		c.St = "OK"
	case "GETATTR":
		r := api.NFSPROC3_GETATTR(nfstypes.GETATTR3args{Object: c.fh()})
		if c.setStatus(r.Status) {
			c.setAttr(r.Resok.Obj_attributes)
		}
	case "SETATTR":
		var sa nfstypes.Sattr3
		if c.SetSize {
			sa.Size.Set_it = true
			if c.SizeSat {
				sa.Size.Size = nfstypes.Size3(c.RawSize)
			} else {
				sa.Size.Size = nfstypes.Size3(c.Size)
			}
		}
		if c.How == 1 { // also touch times (ignored by the reference)
			sa.Mtime.Set_it = nfstypes.SET_TO_SERVER_TIME
			sa.Atime.Set_it = nfstypes.SET_TO_SERVER_TIME
		}
		if c.How == 2 {
			sa.Mode.Set_it = true
			sa.Mode.Mode = 0644
		}
		r := api.NFSPROC3_SETATTR(nfstypes.SETATTR3args{Object: c.fh(), New_attributes: sa})
		if c.setStatus(r.Status) {
			c.setPostAttr(r.Resok.Obj_wcc.After)
		}
	case "LOOKUP":
		r := api.NFSPROC3_LOOKUP(nfstypes.LOOKUP3args{What: nfstypes.Diropargs3{Dir: c.fh(), Name: nfstypes.Filename3(c.Name)}})
		if c.setStatus(r.Status) {
			c.RFh = Hex(r.Resok.Object.Data)
			c.HasFh = true
			c.setPostAttr(r.Resok.Obj_attributes)
		}
	case "ACCESS":
		r := api.NFSPROC3_ACCESS(nfstypes.ACCESS3args{Object: c.fh(), Access: 0x3f})
		c.setStatus(r.Status)
	case "READLINK":
		r := api.NFSPROC3_READLINK(nfstypes.READLINK3args{Symlink: c.fh()})
		if c.setStatus(r.Status) {
			c.RTarget = string(r.Resok.Data)
		}
	case "READ":
		r := api.NFSPROC3_READ(nfstypes.READ3args{File: c.fh(), Offset: nfstypes.Offset3(c.off()), Count: nfstypes.Count3(c.Cnt)})
		if c.setStatus(r.Status) {
			c.RData = Enc(r.Resok.Data)
			c.RCount = int(r.Resok.Count)
			c.REof = r.Resok.Eof
			c.setPostAttr(r.Resok.File_attributes)
		}
	case "WRITE":
		wdata := c.data()
		r := api.NFSPROC3_WRITE(nfstypes.WRITE3args{File: c.fh(), Offset: nfstypes.Offset3(c.off()), Count: nfstypes.Count3(c.Cnt),
			Stable: nfstypes.Stable_how(c.Stable), Data: wdata})
		// the argument memory belongs to the caller again once the call has returned (the RPC server recycles its
		// request buffers): reuse it, so that a server that kept a reference to it shows
		for i := range wdata {
			wdata[i] = 0xEE
		}
		if c.setStatus(r.Status) {
			c.RCount = int(r.Resok.Count)
			c.RCommitted = int(r.Resok.Committed)
			c.RVerf = Hex(r.Resok.Verf[:])
			c.setPostAttr(r.Resok.File_wcc.After)
		}
	case "CREATE":
		how := nfstypes.Createhow3{Mode: nfstypes.Createmode3(c.How)}
		if c.SetSize { // initial attributes: a size for the new file
			how.Obj_attributes.Size.Set_it = true
			if c.SizeSat {
				how.Obj_attributes.Size.Size = nfstypes.Size3(c.RawSize)
			} else {
				how.Obj_attributes.Size.Size = nfstypes.Size3(c.Size)
			}
		}
		r := api.NFSPROC3_CREATE(nfstypes.CREATE3args{Where: nfstypes.Diropargs3{Dir: c.fh(), Name: nfstypes.Filename3(c.Name)}, How: how})
		if c.setStatus(r.Status) {
			if r.Resok.Obj.Handle_follows {
				c.RFh = Hex(r.Resok.Obj.Handle.Data)
				c.HasFh = true
			}
			c.setPostAttr(r.Resok.Obj_attributes)
		}
	case "MKDIR":
		r := api.NFSPROC3_MKDIR(nfstypes.MKDIR3args{Where: nfstypes.Diropargs3{Dir: c.fh(), Name: nfstypes.Filename3(c.Name)}})
		if c.setStatus(r.Status) {
			if r.Resok.Obj.Handle_follows {
				c.RFh = Hex(r.Resok.Obj.Handle.Data)
				c.HasFh = true
			}
			c.setPostAttr(r.Resok.Obj_attributes)
		}
	case "SYMLINK":
		r := api.NFSPROC3_SYMLINK(nfstypes.SYMLINK3args{Where: nfstypes.Diropargs3{Dir: c.fh(), Name: nfstypes.Filename3(c.Name)},
			Symlink: nfstypes.Symlinkdata3{Symlink_data: nfstypes.Nfspath3(c.Target)}})
		if c.setStatus(r.Status) {
			if r.Resok.Obj.Handle_follows {
				c.RFh = Hex(r.Resok.Obj.Handle.Data)
				c.HasFh = true
			}
			c.setPostAttr(r.Resok.Obj_attributes)
		}
	case "MKNOD":
		r := api.NFSPROC3_MKNOD(nfstypes.MKNOD3args{Where: nfstypes.Diropargs3{Dir: c.fh(), Name: nfstypes.Filename3(c.Name)}})
		c.setStatus(r.Status)
	case "REMOVE":
		r := api.NFSPROC3_REMOVE(nfstypes.REMOVE3args{Object: nfstypes.Diropargs3{Dir: c.fh(), Name: nfstypes.Filename3(c.Name)}})
		c.setStatus(r.Status)
	case "RMDIR":
		r := api.NFSPROC3_RMDIR(nfstypes.RMDIR3args{Object: nfstypes.Diropargs3{Dir: c.fh(), Name: nfstypes.Filename3(c.Name)}})
		c.setStatus(r.Status)
	case "RENAME":
		r := api.NFSPROC3_RENAME(nfstypes.RENAME3args{
			From: nfstypes.Diropargs3{Dir: c.fh(), Name: nfstypes.Filename3(c.Name)},
			To:   nfstypes.Diropargs3{Dir: c.fh2(), Name: nfstypes.Filename3(c.Name2)}})
		c.setStatus(r.Status)
	case "LINK":
		r := api.NFSPROC3_LINK(nfstypes.LINK3args{File: c.fh(), Link: nfstypes.Diropargs3{Dir: c.fh2(), Name: nfstypes.Filename3(c.Name2)}})
		c.setStatus(r.Status)
	case "READDIR":
		r := api.NFSPROC3_READDIR(nfstypes.READDIR3args{Dir: c.fh(), Cookie: nfstypes.Cookie3(c.Cookie), Count: nfstypes.Count3(c.Cnt)})
		if c.setStatus(r.Status) {
			for e := r.Resok.Reply.Entries; e != nil; e = e.Nextentry {
				c.Ents = append(c.Ents, Ent{Name: string(e.Name), Id: Clamp(uint64(e.Fileid)), Cookie: Clamp(uint64(e.Cookie))})
			}
			c.REof = r.Resok.Reply.Eof
		}
	case "READDIRPLUS":
		r := api.NFSPROC3_READDIRPLUS(nfstypes.READDIRPLUS3args{Dir: c.fh(), Cookie: nfstypes.Cookie3(c.Cookie),
			Dircount: nfstypes.Count3(c.DirCount), Maxcount: nfstypes.Count3(c.MaxCount)})
		if c.setStatus(r.Status) {
			for e := r.Resok.Reply.Entries; e != nil; e = e.Nextentry {
				en := Ent{Name: string(e.Name), Id: Clamp(uint64(e.Fileid)), Cookie: Clamp(uint64(e.Cookie))}
				if e.Name_handle.Handle_follows && e.Name_attributes.Attributes_follow {
					en.Plus = true
					en.Fh = Hex(e.Name_handle.Handle.Data)
					en.Type = int(e.Name_attributes.Attributes.Ftype)
					en.Size = Clamp(uint64(e.Name_attributes.Attributes.Size))
					if Clamp(uint64(e.Name_attributes.Attributes.Fileid)) != en.Id {
						en.Id = -2 // entry fileid and attribute fileid disagree: never equals a real id
					}
				}
				c.Ents = append(c.Ents, en)
			}
			c.REof = r.Resok.Reply.Eof
		}
	case "FSSTAT":
		r := api.NFSPROC3_FSSTAT(nfstypes.FSSTAT3args{Fsroot: c.fh()})
		c.setStatus(r.Status)
	case "FSINFO":
		r := api.NFSPROC3_FSINFO(nfstypes.FSINFO3args{Fsroot: c.fh()})
		if c.setStatus(r.Status) {
			c.Wtmax = Clamp(uint64(r.Resok.Wtmax))
			c.Rtmax = Clamp(uint64(r.Resok.Rtmax))
			c.MaxFs = Clamp(uint64(r.Resok.Maxfilesize))
		}
	case "PATHCONF":
		r := api.NFSPROC3_PATHCONF(nfstypes.PATHCONF3args{Object: c.fh()})
		if c.setStatus(r.Status) {
			c.NameMax = Clamp(uint64(r.Resok.Name_max))
		}
	case "COMMIT":
		r := api.NFSPROC3_COMMIT(nfstypes.COMMIT3args{File: c.fh(), Offset: nfstypes.Offset3(c.off()), Count: nfstypes.Count3(c.Cnt)})
		if c.setStatus(r.Status) {
			c.RVerf = Hex(r.Resok.Verf[:])
		}
	default:
		panic("unknown proc " + c.Proc)
	}
}
