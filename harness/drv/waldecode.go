package drv

import (
	"crypto/sha1"
	"encoding/binary"
	"fmt"

	"verif/harness/vdisk"
)

// Decoding of go-journal's on-disk log (a fixed dependency): header 1 at block 0 (end position + the home address
// of every log slot), header 2 at block 1 (start position), log slots at blocks 2..512.

const (
	walSlots  = 511
	walStart  = 2
	walHomeLo = 513
)

func hashBlock(b []byte) string {
	h := sha1.Sum(b)
	return fmt.Sprintf("%x", h[:6])
}

// LoggedOnDisk returns, for a disk image, the latest logged content (hash) per home address among the
// positions [start, end) of its log - what recovery will make the logical content of those blocks.
func LoggedOnDisk(img *vdisk.Disk) map[uint64]string {
	h1, h2 := img.Peek(0), img.Peek(1)
	end := binary.LittleEndian.Uint64(h1[0:])
	start := binary.LittleEndian.Uint64(h2[0:])
	m := map[uint64]string{}
	if end < start || end-start > walSlots {
		return m
	}
	for pos := start; pos < end; pos++ {
		a := binary.LittleEndian.Uint64(h1[8+8*(pos%walSlots):])
		m[a] = hashBlock(img.Peek(walStart + pos%walSlots))
	}
	return m
}

// WalEv is one semantic event of the disk stream.
type WalEv struct {
	Ev   string   `json:"ev"` // "wal"
	K    string   `json:"k"`  // slot | hdr1 | hdr2 | home | bar | boot
	Slot int      `json:"slot"`
	Addr int      `json:"addr"`
	H    string   `json:"h"`
	End  int      `json:"end"`
	News [][2]int `json:"news"` // hdr1: [position, home address] for the positions it adds
}

// WalStream turns recorded disk events into semantic events. The stream starts with the format: MakeNfs creates the
// log, then writes the root inode and the bitmaps DIRECTLY (makeFs), and only then commits its first transaction
// (the root directory). Home writes before the first commit header are the format's; every later home write must
// be an install. (The boundary is taken from the stream itself, not from when MakeNfs returned: the installer of the
// first transaction may still be running then.)
func WalStream(events []vdisk.Event, from int) []WalEv {
	_ = from
	out := []WalEv{{Ev: "wal", K: "boot", News: [][2]int{}}}
	prevEnd := uint64(0)
	seenHdr := false
	_ = seenHdr
	committed := false // a header with a non-empty log has been written
	for _, e := range events {
		switch e.Kind {
		case vdisk.EvBarrier:
			out = append(out, WalEv{Ev: "wal", K: "bar", News: [][2]int{}})
		case vdisk.EvWrite:
			switch {
			case e.Addr == 0:
				end := binary.LittleEndian.Uint64(e.Data[0:])
				w := WalEv{Ev: "wal", K: "hdr1", End: Clamp(end), News: [][2]int{}}
				lo := prevEnd
				// the recording starts on a blank disk: before the first header write the log is empty (end = 0)
				if end < lo || end-lo > walSlots {
					lo = end // a reset: nothing new to relate
				}
				for pos := lo; pos < end; pos++ {
					a := binary.LittleEndian.Uint64(e.Data[8+8*(pos%walSlots):])
					w.News = append(w.News, [2]int{Clamp(pos), Clamp(a)})
				}
				prevEnd, seenHdr = end, true
				if end > 0 {
					committed = true
				}
				out = append(out, w)
			case e.Addr == 1:
				out = append(out, WalEv{Ev: "wal", K: "hdr2", End: Clamp(binary.LittleEndian.Uint64(e.Data[0:])), News: [][2]int{}})
			case e.Addr < walHomeLo:
				out = append(out, WalEv{Ev: "wal", K: "slot", Slot: int(e.Addr) - walStart, H: hashBlock(e.Data), News: [][2]int{}})
			default:
				if committed {
					out = append(out, WalEv{Ev: "wal", K: "home", Addr: int(e.Addr), H: hashBlock(e.Data), News: [][2]int{}})
				}
			}
		}
	}
	return out
}
