package drv

import (
	"fmt"
	"math/rand"
	"sync/atomic"
	"time"

	"verif/harness/vdisk"
)

// Lock programs: every RPC of a catalogue is run ALONE on a copy of a base state and the sequence of inode-lock
// acquisitions and releases of its transaction(s) is recorded. LockReplay.tla (TLC) then explores every
// interleaving of every pair of programs recorded from the same base state; a reachable state in which both are
// blocked is a predicted deadlock, which is afterwards replayed on the real server (ConfirmDeadlock).

type LStep struct {
	Op   string `json:"op"` // acq | rel
	Inum int    `json:"inum"`
	Ctx  string `json:"ctx"`
}

type LProg struct {
	Ev    string  `json:"ev"` // "prog"
	Group int     `json:"group"`
	Id    int     `json:"id"`
	Warm  bool    `json:"warm"`
	Call  *Call   `json:"call"`
	Steps []LStep `json:"steps"`
	Txns  int     `json:"txns"`
	Count int     `json:"count"` // RPCs with this same program
}

type ltree struct {
	img   *vdisk.Disk
	dirs  []string // handles
	files []string
	names map[string][]string // dir handle -> names
	dead  string
}

// buildGroup builds base state number gid (deterministic in gid and seed).
func buildGroup(gid, seed int) *ltree {
	r := rand.New(rand.NewSource(int64(seed)*977 + int64(gid)))
	d := vdisk.New(8000)
	s, err := Start(d, true)
	if err != nil {
		panic(err)
	}
	root := RootFh()
	t := &ltree{names: map[string][]string{}}
	mk := func(proc, dir, name string) string {
		c := NewCall(proc)
		c.Fh, c.Name, c.NLen = dir, name, len(name)
		c.Exec(s.API)
		if c.St != "OK" {
			return ""
		}
		t.names[dir] = append(t.names[dir], name)
		return c.RFh
	}
	rm := func(proc, dir, name string) {
		c := NewCall(proc)
		c.Fh, c.Name, c.NLen = dir, name, len(name)
		c.Exec(s.API)
		l := t.names[dir][:0]
		for _, n := range t.names[dir] {
			if n != name {
				l = append(l, n)
			}
		}
		t.names[dir] = l
	}
	njunk := 2 + gid%4
	if gid%5 == 4 {
		njunk = 0 // everything ascending
	}
	// "dead" is created first (lowest number) and removed: after the restart the first new directory reuses its
	// inode number, so that a stale and a live handle of one number exist
	dd := mk("MKDIR", root, "dead")
	for i := 0; i < njunk; i++ {
		mk("CREATE", root, fmt.Sprintf("junk%d", i))
	}
	p := mk("MKDIR", root, "P")
	q := mk("MKDIR", root, "Q")
	t.dirs = []string{root, p, q}
	for i := 0; i < njunk; i++ {
		rm("REMOVE", root, fmt.Sprintf("junk%d", i))
	}
	rm("RMDIR", root, "dead")
	t.dead = dd
	{
		s.WaitIdle()
		s.Shutdown()
		if s, err = Start(d, true); err != nil {
			panic(err)
		}
	}
	// children: after the restart they get the freed low numbers
	sub := mk("MKDIR", p, "s")
	t.dirs = append(t.dirs, sub)
	t.files = append(t.files, mk("CREATE", p, "a"), mk("CREATE", q, "a"), mk("CREATE", q, "b"), mk("CREATE", sub, "a"),
		mk("CREATE", sub, "b")) // (two names in the directory that has the dead handle's number: a RENAME of one onto the other through the two handles)
	if r.Intn(2) == 0 {
		t.dirs = append(t.dirs, mk("MKDIR", q, "s"))
	}
	if r.Intn(2) == 0 {
		mk("SYMLINK", p, "l")
	}
	s.WaitIdle()
	s.Shutdown()
	t.img = d
	return t
}

func (t *ltree) catalogue(r *rand.Rand, max int) []*Call {
	var cs []*Call
	add := func(c *Call) { c.NLen, c.NLen2 = len(c.Name), len(c.Name2); cs = append(cs, c) }
	hs := append([]string{}, t.dirs...)
	hs = append(hs, t.dead)
	for _, d := range hs {
		ns := append([]string{".", "..", "zz"}, t.names[d]...)
		for _, n := range ns {
			for _, proc := range []string{"LOOKUP", "REMOVE", "RMDIR"} {
				c := NewCall(proc)
				c.Fh, c.Name = d, n
				add(c)
			}
		}
		for _, proc := range []string{"CREATE", "MKDIR", "SYMLINK"} {
			c := NewCall(proc)
			c.Fh, c.Name, c.Target, c.TLen = d, "new", "/t", 2
			add(c)
		}
		for _, proc := range []string{"READDIR", "READDIRPLUS", "GETATTR", "ACCESS", "FSINFO"} {
			c := NewCall(proc)
			c.Fh, c.Cnt, c.DirCount, c.MaxCount = d, 4096, 4096, 16384
			add(c)
		}
	}
	// the MOUNT program: paths through directories whose children have smaller and larger numbers than they
	for _, path := range []string{"/", "", "/P", "/P/s", "/P/s/a", "/Q", "/Q/s", "/Q/a", "/P/..", "/P/s/..", "/P/./s", "/nope", "/P/nope/x", "P/s"} {
		c := NewCall("MNT")
		c.Name = path
		add(c)
		u := NewCall("UMNT")
		u.Name = path
		add(u)
	}
	for _, proc := range []string{"DUMP", "EXPORT", "UMNTALL"} {
		add(NewCall(proc))
	}
	for _, f := range t.files {
		if f == "" {
			continue
		}
		for _, proc := range []string{"GETATTR", "READ", "WRITE", "SETATTR", "COMMIT"} {
			c := NewCall(proc)
			c.Fh, c.Cnt, c.DLen, c.Data, c.Stable, c.SetSize, c.Size = f, 100, 100, []Run{{100, 9}}, 2, proc == "SETATTR", 10
			if proc != "WRITE" {
				c.Data, c.DLen = []Run{}, 0
			}
			if proc == "COMMIT" {
				c.Cnt = 0
			}
			add(c)
		}
	}
	// the dead handle and the live directory that now has its inode number, with names that exist in the live one: a request
	// that takes the two handles for one directory because their numbers agree works on names the dead handle never had
	for _, d := range t.dirs {
		if len(d) < 16 || len(t.dead) < 16 || d[:16] != t.dead[:16] {
			continue
		}
		ns := t.names[d]
		if len(ns) < 2 {
			continue
		}
		for _, nn := range [][2]string{{ns[0], ns[1]}, {ns[0], "new"}} {
			for _, pair := range [][2]string{{d, t.dead}, {t.dead, d}} {
				c := NewCall("RENAME")
				c.Fh, c.Name, c.Fh2, c.Name2 = pair[0], nn[0], pair[1], nn[1]
				add(c)
			}
		}
	}
	var rn []*Call
	for _, d1 := range hs {
		for _, d2 := range hs {
			for _, n1 := range append([]string{"zz"}, t.names[d1]...) {
				for _, n2 := range append([]string{"new"}, t.names[d2]...) {
					c := NewCall("RENAME")
					c.Fh, c.Name, c.Fh2, c.Name2 = d1, n1, d2, n2
					c.NLen, c.NLen2 = len(n1), len(n2)
					rn = append(rn, c)
				}
			}
		}
	}
	r.Shuffle(len(rn), func(i, j int) { rn[i], rn[j] = rn[j], rn[i] })
	if len(rn) > max {
		rn = rn[:max]
	}
	return append(cs, rn...)
}

func warm(s *Srv, t *ltree) {
	for _, d := range t.dirs {
		c := NewCall("LOOKUP")
		c.Fh, c.Name = d, "zz"
		c.Exec(s.API)
	}
}

// RunLockProgs records the lock programs for ngroups base states.
var nTimeouts int

func RunLockProgs(seed, g0, ngroups, maxRename int, t *Trace) {
	t.Emit(Reset{Ev: "reset", Seg: 0, Driver: "lockprogs", Seed: seed, Root: RootFh()})
	id := 0
	for gid := g0; gid < g0+ngroups; gid++ {
		tr := buildGroup(gid, seed)
		r := rand.New(rand.NewSource(int64(seed)*31 + int64(gid)))
		cat := tr.catalogue(r, maxRename)
		seen := map[string]*LProg{}
		var order []*LProg
		for _, c0 := range cat {
			if nTimeouts >= 4 { // every call that does not return leaves a goroutine blocked or spinning: enough has been seen
				break
			}
			for _, w := range []bool{false, true} {
				c := *c0
				s, err := Start(tr.img.Clone(), true)
				if err != nil {
					panic(err)
				}
				if w {
					warm(s, tr)
				}
				Mon.Reset()
				Mon.WantCtx = true
				Mon.Record(true)
				b0 := Mon.Begins()
				cc := execWatch(s.API, &c)
				evs := Mon.Record(false)
				Mon.WantCtx = false
				p := &LProg{Ev: "prog", Group: gid, Warm: w, Call: cc, Steps: []LStep{}, Txns: Mon.Begins() - b0, Count: 1}
				for _, e := range evs {
					switch e.Ev {
					case "got":
						p.Steps = append(p.Steps, LStep{"acq", int(e.Inum), e.Ctx})
					case "want":
						if cc.St == "TIMEOUT" { // the last want of a hung call never got its lock
							p.Steps = append(p.Steps, LStep{"want", int(e.Inum), e.Ctx})
						}
					case "rel":
						p.Steps = append(p.Steps, LStep{"rel", int(e.Inum), ""})
					}
				}
				if cc.St == "TIMEOUT" || cc.St == "PANIC" {
					cc.Wedge = wedgeKind()
					p.Id = id
					id++
					t.Emit(p)
					Mon.Reset()
					if cc.St == "TIMEOUT" {
						nTimeouts++
					}
					continue
				}
				s.WaitIdle()
				s.Shutdown()
				key := fmt.Sprint(p.Steps)
				if q, ok := seen[key]; ok {
					q.Count++
					continue
				}
				p.Id = id
				id++
				seen[key] = p
				order = append(order, p)
			}
		}
		for _, p := range order {
			t.Emit(p)
		}
	}
}

// ConfirmDeadlock replays a predicted deadlock of two RPCs on the real server: each RPC runs in its own goroutine
// on a fresh copy of the base state and is held before its (n+1)-th lock acquisition until the other has reached
// its own hold point; then both proceed. Returns true when neither returns within the watchdog.
func ConfirmDeadlock(seed, gid int, warmUp bool, c1, c2 *Call, n1, n2 int) (bool, string) {
	tr := buildGroup(gid, seed)
	s, err := Start(tr.img.Clone(), true)
	if err != nil {
		return false, err.Error()
	}
	if warmUp {
		warm(s, tr)
	}
	Mon.Reset()
	var g1, g2 int64
	var w1, w2 int32
	arrived := make(chan int, 2)
	release := make(chan struct{})
	Mon.Gate = func(txn int, inum uint64) {
		g := goid()
		var cnt *int32
		var n int
		switch g {
		case atomic.LoadInt64(&g1):
			cnt, n = &w1, n1
		case atomic.LoadInt64(&g2):
			cnt, n = &w2, n2
		default:
			return
		}
		k := int(atomic.AddInt32(cnt, 1))
		if k == n+1 {
			arrived <- 1
			select {
			case <-release:
			case <-time.After(4 * time.Second):
			}
		}
	}
	d1, d2 := make(chan struct{}), make(chan struct{})
	go func() { atomic.StoreInt64(&g1, goid()); defer close(d1); c1.ExecRaw(s.API) }()
	go func() {
		time.Sleep(2 * time.Millisecond)
		atomic.StoreInt64(&g2, goid())
		defer close(d2)
		c2.ExecRaw(s.API)
	}()
	got := 0
	tm := time.After(3 * time.Second)
wait:
	for got < 2 {
		select {
		case <-arrived:
			got++
		case <-tm:
			break wait
		}
	}
	close(release)
	Mon.Gate = nil
	hung := 0
	for _, ch := range []chan struct{}{d1, d2} {
		select {
		case <-ch:
		case <-time.After(3 * time.Second):
			hung++
		}
	}
	Mon.Reset()
	if hung == 2 {
		return true, wedgeKind()
	}
	if hung == 0 {
		s.WaitIdle()
		s.Shutdown()
	}
	return false, fmt.Sprintf("reached=%d hung=%d", got, hung)
}
