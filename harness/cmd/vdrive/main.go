// vdrive drives the real go-nfsd (built from /repo with -tags verif) and writes ndjson traces.
package main

import (
	"encoding/json"
	"flag"
	"fmt"
	"os"
	"sort"
	"strings"

	"verif/harness/drv"
)

func avoidSet(s string) map[string]bool {
	m := map[string]bool{}
	for _, a := range strings.Split(s, ",") {
		if a != "" {
			m[a] = true
		}
	}
	return m
}

func main() {
	if len(os.Args) < 2 {
		fmt.Fprintln(os.Stderr, "usage: vdrive <seq|...> [flags]")
		os.Exit(2)
	}
	cmd := os.Args[1]
	fs := flag.NewFlagSet(cmd, flag.ExitOnError)
	out := fs.String("out", "trace.ndjson", "output trace")
	seed := fs.Int("seed", 1, "seed")
	nseg := fs.Int("segs", 1, "number of segments")
	steps := fs.Int("steps", 200, "steps per segment")
	profile := fs.String("profile", "mix", "generator profile(s), comma separated, cycled over segments")
	avoid := fs.String("avoid", "", "generator filters (known findings)")
	disk := fs.Uint64("disk", 20000, "disk size in blocks")
	dumpEach := fs.Int("dumpeach", 50, "dump every n steps")
	prop := fs.String("prop", "", "probes: property filter")
	specFile := fs.String("spec", "", "lockconfirm: experiment description")
	part := fs.Int("part", 0, "windows: which slice of the experiment matrix")
	parts := fs.Int("parts", 1, "windows: number of slices")
	clients := fs.Int("clients", 3, "conc: client goroutines")
	maximg := fs.Int("maximg", 0, "conc -crashpoints: crash points per history (0 = 150)")
	transport := fs.Bool("transport", false, "put the repository's XDR/RPC path (nfstypes + rfc1057 over an in-process pipe) in front of the server")
	unst := fs.Int("unst", -1, "crash: the server's unstable option (1 on, 0 off, -1 derived from the seed)")
	sconc := fs.Int("sconc", 0, "simple/kvs: concurrent clients (0 = sequential driver)")
	access := fs.Bool("access", false, "conc: record lock events and inode accesses instead of the history")
	storm := fs.Bool("storm", false, "conc: most requests truncate and re-extend the one large sparse file")
	timed := fs.Bool("timed", false, "run every server on util/timed_disk (what go-nfsd -stats does) over a disk with slow barriers")
	many := fs.Int("many", 0, "conc: extra files shared by all clients (more than the inode cache holds)")
	sizesFlag := fs.String("sizes", "", "layout: disk sizes, e.g. 1536-1600,32760-32776 (increasing)")
	fillFlag := fs.String("fill", "", "layout: sizes to fill completely")
	crashMode := fs.Bool("crashpoints", false, "simple/kvs: enumerate crash points")
	loss := fs.Int("loss", 2, "crash: random loss sets per barrier window")
	stride := fs.Int("stride", 1, "crash: probe every n-th event boundary")
	cont := fs.Int("cont", 3, "crash: continuation segments per workload")
	nested := fs.Int("nested", 1, "crash: nested recovery-crash experiments per workload")
	maxprobe := fs.Int("maxprobe", 0, "crash: cap on crash images per workload")
	delAll := fs.Bool("deleteall", false, "finish each segment by deleting everything")
	disks := fs.String("disks", "", "comma separated disk sizes cycled over segments (overrides -disk)")
	snapEach := fs.Int("snapeach", 0, "structural snapshot every n steps (0 = only at the end)")
	fs.Parse(os.Args[2:])
	drv.UseTransport = *transport
	drv.UseTimedDisk = *timed
	if os.Getenv("VERIF_DEBUG_LEAK") != "" {
		drv.AfterExec = func(c *drv.Call) {
			if h := drv.Mon.Held(); len(h) > 0 {
				fmt.Fprintf(os.Stderr, "LEAK after %s fh=%s name=%q st=%s: %v\n", c.Proc, c.Fh, c.Name, c.St, h)
			}
		}
	}
	switch cmd {
	case "seq":
		t, err := drv.NewTrace(*out)
		if err != nil {
			panic(err)
		}
		profs := strings.Split(*profile, ",")
		var dsz []uint64
		for _, x := range strings.Split(*disks, ",") {
			if x != "" {
				var v uint64
				fmt.Sscan(x, &v)
				dsz = append(dsz, v)
			}
		}
		for i := 0; i < *nseg; i++ {
			if len(dsz) > 0 {
				*disk = dsz[i%len(dsz)]
			}
			cfg := drv.SeqCfg{Seed: *seed*1000 + i, Steps: *steps, DiskSz: *disk, DeleteAll: *delAll, Unstable: i%3 != 2,
				Profile: profs[i%len(profs)], Avoid: avoidSet(*avoid), DumpEach: *dumpEach, Restarts: true, SnapEach: *snapEach,
				Snap: func(s *drv.Srv, t *drv.Trace, who string) { t.Emit(drv.TakeSnap(s, who, true)) }}
			if err := drv.RunSeq(cfg, t, i); err != nil {
				fmt.Fprintln(os.Stderr, "segment", i, "failed to start:", err)
				os.Exit(2)
			}
		}
		t.Close()
		fmt.Printf("events=%d\n", t.N)
	case "crash":
		t, err := drv.NewTrace(*out)
		if err != nil {
			panic(err)
		}
		profs := strings.Split(*profile, ",")
		seg := 0
		for i := 0; i < *nseg; i++ {
			cfg := drv.CrashCfg{Seed: *seed*1000 + i, Ops: *steps, DiskSz: *disk, Unstable: unstOpt(*unst, (*seed+i)%3 != 2), Profile: profs[i%len(profs)],
				Avoid: avoidSet(*avoid), Loss: *loss, Stride: *stride, Cont: *cont, Nested: *nested, MaxProbe: *maxprobe}
			seg = drv.RunCrash(cfg, t, seg)
		}
		t.Close()
		fmt.Printf("events=%d\n", t.N)
	case "simple", "kvs":
		t, err := drv.NewTrace(*out)
		if err != nil {
			panic(err)
		}
		seg := 0
		for i := 0; i < *nseg; i++ {
			cfg := drv.SmallCfg{Seed: *seed*1000 + i, Ops: *steps, Crash: *crashMode, Loss: *loss, Avoid: avoidSet(*avoid), DiskSz: *disk}
			if cmd == "kvs" && *sconc == -1 { // directed disk-gate schedules
				seg = drv.RunKvsGates(cfg.Seed, t, seg)
			} else if cmd == "simple" && *sconc == -1 {
				seg = drv.RunSimpleGates(cfg.Seed, t, seg)
			} else if *sconc > 1 {
				cc := drv.SmallConcCfg{Seed: cfg.Seed, Clients: *sconc, OpsPer: *steps, Crash: *crashMode, Loss: *loss, DiskSz: *disk}
				if cmd == "simple" {
					seg = drv.RunSimpleConc(cc, t, seg)
				} else {
					seg = drv.RunKvsConc(cc, t, seg)
				}
			} else if cmd == "simple" {
				seg = drv.RunSimple(cfg, t, seg)
			} else {
				seg = drv.RunKvs(cfg, t, seg)
			}
		}
		t.Close()
		fmt.Printf("events=%d\n", t.N)
	case "layout":
		t, err := drv.NewTrace(*out)
		if err != nil {
			panic(err)
		}
		var sizes []uint64
		fill := map[uint64]bool{}
		for _, x := range strings.Split(*sizesFlag, ",") {
			var a, b uint64
			if n, _ := fmt.Sscanf(x, "%d-%d", &a, &b); n == 2 {
				for v := a; v <= b; v++ {
					sizes = append(sizes, v)
				}
			} else if n, _ := fmt.Sscanf(x, "%d", &a); n == 1 {
				sizes = append(sizes, a)
			}
		}
		for _, x := range strings.Split(*fillFlag, ",") {
			var a, b uint64
			if n, _ := fmt.Sscanf(x, "%d-%d", &a, &b); n == 2 {
				for v := a; v <= b; v++ {
					fill[v] = true
				}
			} else if n, _ := fmt.Sscanf(x, "%d", &a); n == 1 {
				fill[a] = true
			}
		}
		have := map[uint64]bool{}
		for _, v := range sizes {
			have[v] = true
		}
		for v := range fill {
			if !have[v] {
				sizes = append(sizes, v)
			}
		}
		sort.Slice(sizes, func(i, j int) bool { return sizes[i] < sizes[j] })
		drv.RunLayout(sizes, fill, t, 0)
		t.Close()
		fmt.Printf("events=%d\n", t.N)
	case "conc":
		t, err := drv.NewTrace(*out)
		if err != nil {
			panic(err)
		}
		for i := 0; i < *nseg; i++ {
			drv.RunConc(drv.ConcCfg{Seed: *seed*1000 + i, Clients: *clients, OpsPer: *steps, Unstable: i%2 == 0, Avoid: avoidSet(*avoid),
				Access: *access, Many: *many, Storm: *storm, Crash: *crashMode, Loss: *loss, MaxImg: *maximg, DiskSz: concDisk(*crashMode, *disk)}, t, i)
		}
		t.Close()
		fmt.Printf("events=%d\n", t.N)
	case "windows":
		t, err := drv.NewTrace(*out)
		if err != nil {
			panic(err)
		}
		if *part == -3 {
			drv.RunCommitWindows(*seed, *parts, t, 0) // fourth family: -seed selects the slice
		} else if *part == -2 {
			drv.RunRecycleWindows(*seed, *parts, t, 0) // third family: -seed selects the slice
		} else {
			drv.RunWindows(*seed, *part, *parts, t, 0)
		}
		t.Close()
		fmt.Printf("events=%d\n", t.N)
	case "lockprogs":
		t, err := drv.NewTrace(*out)
		if err != nil {
			panic(err)
		}
		drv.RunLockProgs(*seed, *part, *nseg, *steps, t)
		t.Close()
		fmt.Printf("events=%d\n", t.N)
	case "lockconfirm":
		// -spec file: {"seed":..,"group":..,"warm1":..,"c1":{call},"c2":{call},"n1":..,"n2":..}
		b, err := os.ReadFile(*specFile)
		if err != nil {
			panic(err)
		}
		var sp struct {
			Seed, Group, N1, N2 int
			Warm                bool
			C1, C2              *drv.Call
		}
		if err := json.Unmarshal(b, &sp); err != nil {
			panic(err)
		}
		ok, info := drv.ConfirmDeadlock(sp.Seed, sp.Group, sp.Warm, sp.C1, sp.C2, sp.N1, sp.N2)
		fmt.Printf("CONFIRMED=%v %s\n", ok, info)
	case "protoplans":
		t, err := drv.NewTrace(*out)
		if err != nil {
			panic(err)
		}
		drv.RunProtoPlans(*specFile, *part, *steps, t, 0)
		t.Close()
		fmt.Printf("events=%d\n", t.N)
	case "exhaust":
		t, err := drv.NewTrace(*out)
		if err != nil {
			panic(err)
		}
		drv.RunExhaust(*seed, t, 0)
		t.Close()
		fmt.Printf("events=%d\n", t.N)
	case "bmap":
		t, err := drv.NewTrace(*out)
		if err != nil {
			panic(err)
		}
		drv.RunBmap(*seed, *steps, t, 0)
		t.Close()
		fmt.Printf("events=%d\n", t.N)
	case "txnfit":
		t, err := drv.NewTrace(*out)
		if err != nil {
			panic(err)
		}
		drv.RunTxnFit(*seed, *steps < 100, t, 0)
		t.Close()
		fmt.Printf("events=%d\n", t.N)
	case "argsweep":
		t, err := drv.NewTrace(*out)
		if err != nil {
			panic(err)
		}
		for i := 0; i < *nseg; i++ {
			drv.RunArgSweep(*seed*1000+i, *steps, avoidSet(*avoid), t, i)
		}
		t.Close()
		fmt.Printf("events=%d\n", t.N)
	case "xdr":
		t, err := drv.NewTrace(*out)
		if err != nil {
			panic(err)
		}
		if err := drv.RunXdr(*specFile, t); err != nil {
			panic(err)
		}
		t.Close()
		fmt.Printf("events=%d\n", t.N)
	case "plans":
		t, err := drv.NewTrace(*out)
		if err != nil {
			panic(err)
		}
		if err := drv.RunPlans(*specFile, *parts, *part, *maxprobe, t); err != nil {
			panic(err)
		}
		t.Close()
		fmt.Printf("events=%d\n", t.N)
	case "probes":
		t, err := drv.NewTrace(*out)
		if err != nil {
			panic(err)
		}
		drv.RunProbes(*prop, t, true)
		t.Close()
		fmt.Printf("events=%d\n", t.N)
	default:
		fmt.Fprintln(os.Stderr, "unknown command", cmd)
		os.Exit(2)
	}
}

// concDisk: histories that are crashed use the disk size given (recovery decodes the whole disk for every image)
func concDisk(crash bool, disk uint64) uint64 {
	if crash {
		return disk
	}
	return 0
}

func unstOpt(flag int, derived bool) bool {
	if flag < 0 {
		return derived
	}
	return flag == 1
}
