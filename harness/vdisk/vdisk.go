// Package vdisk is a sparse in-memory disk.Disk that can record the stream of
// writes, barriers and harness markers in one total order (a single mutex, a
// sequence counter; no wall clock) and build crash images from it.
package vdisk

import (
	"fmt"
	"sync"
	"time"
)

const BlockSize = 4096

type Kind uint8

const (
	EvWrite Kind = iota
	EvBarrier
	EvMark // harness marker (op invoke / return)
)

type Event struct {
	Kind Kind
	Addr uint64
	Data []byte // EvWrite: private copy of the block
	Mark string // EvMark
	Arg  int    // EvMark
}

var zeroBlock = make([]byte, BlockSize)

type Disk struct {
	mu     sync.Mutex
	sz     uint64
	blocks map[uint64][]byte
	rec    bool
	events []Event
	// optional raw-read observer (under mu)
	OnRead func(a uint64, data []byte)
	// Yield, when set, is called after a read or write has completed (no lock held)
	Yield func(kind string, a uint64)
	// SlowBarrier, when set, is how long a barrier is "in flight" before it takes effect
	SlowBarrier time.Duration
	Reads       uint64
	Writes      uint64
	Barrs       uint64
}

func New(sz uint64) *Disk {
	return &Disk{sz: sz, blocks: make(map[uint64][]byte)}
}

func (d *Disk) Read(a uint64) []byte {
	b := make([]byte, BlockSize)
	d.ReadTo(a, b)
	return b
}

func (d *Disk) ReadTo(a uint64, b []byte) {
	if y := d.Yield; y != nil {
		defer y("read", a) // after the lock is released: a scheduling point for the drivers of servers without hooks
	}
	d.mu.Lock()
	defer d.mu.Unlock()
	if a >= d.sz {
		panic(fmt.Errorf("out-of-bounds read at %v", a))
	}
	d.Reads++
	if blk, ok := d.blocks[a]; ok {
		copy(b, blk)
	} else {
		copy(b, zeroBlock)
	}
	if d.OnRead != nil {
		d.OnRead(a, b)
	}
}

func (d *Disk) Write(a uint64, v []byte) {
	if y := d.Yield; y != nil {
		defer y("write", a)
	}
	if len(v) != BlockSize {
		panic(fmt.Errorf("v is not block-sized (%d bytes)", len(v)))
	}
	c := make([]byte, BlockSize)
	copy(c, v)
	d.mu.Lock()
	defer d.mu.Unlock()
	if a >= d.sz {
		panic(fmt.Errorf("out-of-bounds write at %v", a))
	}
	d.Writes++
	d.blocks[a] = c
	if d.rec {
		d.events = append(d.events, Event{Kind: EvWrite, Addr: a, Data: c})
	}
}

func (d *Disk) Size() uint64 { return d.sz }

func (d *Disk) Barrier() {
	if d.SlowBarrier > 0 { // a barrier takes its time: it has flushed what was written before it when it RETURNS
		time.Sleep(d.SlowBarrier)
	}
	d.mu.Lock()
	d.Barrs++
	if d.rec {
		d.events = append(d.events, Event{Kind: EvBarrier})
	}
	d.mu.Unlock()
}

func (d *Disk) Close() {}

// Mark appends a harness marker to the event stream.
func (d *Disk) Mark(m string, arg int) {
	d.mu.Lock()
	if d.rec {
		d.events = append(d.events, Event{Kind: EvMark, Mark: m, Arg: arg})
	}
	d.mu.Unlock()
}

// StartRecording begins recording events; the current content is the base image.
func (d *Disk) StartRecording() (base *Disk) {
	d.mu.Lock()
	defer d.mu.Unlock()
	d.rec = true
	d.events = nil
	return d.cloneLocked()
}

func (d *Disk) StopRecording() []Event {
	d.mu.Lock()
	defer d.mu.Unlock()
	d.rec = false
	ev := d.events
	d.events = nil
	return ev
}

// NEvents returns the number of events recorded so far.
func (d *Disk) NEvents() int {
	d.mu.Lock()
	defer d.mu.Unlock()
	return len(d.events)
}

// EventsSnapshot returns a copy of the slice header of the events so far.
func (d *Disk) EventsSnapshot() []Event {
	d.mu.Lock()
	defer d.mu.Unlock()
	return d.events[:len(d.events):len(d.events)]
}

func (d *Disk) cloneLocked() *Disk {
	n := &Disk{sz: d.sz, blocks: make(map[uint64][]byte, len(d.blocks))}
	for a, b := range d.blocks {
		n.blocks[a] = b // blocks are immutable once stored
	}
	return n
}

// Clone returns an independent copy of the current content (no recording).
func (d *Disk) Clone() *Disk {
	d.mu.Lock()
	defer d.mu.Unlock()
	return d.cloneLocked()
}

// Apply applies a write event to the disk without recording.
func (d *Disk) Apply(e Event) {
	if e.Kind != EvWrite {
		return
	}
	d.mu.Lock()
	d.blocks[e.Addr] = e.Data
	d.mu.Unlock()
}

// Peek reads a block without counting/observing.
func (d *Disk) Peek(a uint64) []byte {
	d.mu.Lock()
	defer d.mu.Unlock()
	if blk, ok := d.blocks[a]; ok {
		return blk
	}
	return zeroBlock
}

// NonZeroBlocks returns the addresses holding a block that was written.
func (d *Disk) Blocks() map[uint64][]byte {
	d.mu.Lock()
	defer d.mu.Unlock()
	m := make(map[uint64][]byte, len(d.blocks))
	for a, b := range d.blocks {
		m[a] = b
	}
	return m
}

// CrashImage builds the image seen after a crash at event index p (events
// [0,p) issued): every write before the last barrier preceding p is present;
// of the writes after that barrier (the window) those whose window-index is in
// lost are missing. Per-block order is kept: if an earlier write to a block is
// kept and a later one lost, the earlier content stays.
func CrashImage(base *Disk, events []Event, p int, lost map[int]bool) *Disk {
	img := base.Clone()
	lastBar := -1
	for i := 0; i < p; i++ {
		if events[i].Kind == EvBarrier {
			lastBar = i
		}
	}
	w := 0
	for i := 0; i < p; i++ {
		e := events[i]
		if e.Kind != EvWrite {
			continue
		}
		if i > lastBar {
			if lost != nil && lost[w] {
				w++
				continue
			}
			w++
		}
		img.blocks[e.Addr] = e.Data
	}
	return img
}

// Window returns the indices (into events) of the un-barriered writes at crash point p.
func Window(events []Event, p int) []int {
	lastBar := -1
	for i := 0; i < p; i++ {
		if events[i].Kind == EvBarrier {
			lastBar = i
		}
	}
	var w []int
	for i := lastBar + 1; i < p; i++ {
		if events[i].Kind == EvWrite {
			w = append(w, i)
		}
	}
	return w
}
