------------------------------ MODULE DirSlots ------------------------------
(* Design model behind C13: a go-nfsd directory is an array of fixed-size slots  *)
(* (dir/dir.go); AddName takes a free slot (any: the policy is DirCache.tla's), RemName frees a *)
(* slot in place, RENAME is RemName(target) ; RemName(source) ; AddName(target),   *)
(* nothing ever moves a live entry. A listing page scans from the slot its cookie   *)
(* names, returns up to k live entries, and the cookie of an entry is the index of  *)
(* the slot AFTER it. Checked exhaustively, with directory updates between pages:   *)
(*   NoDup      no entry (name with its object) present throughout is returned twice  *)
(*   Complete   at end-of-directory every entry present throughout was returned      *)
(*   Progress   every page returns an entry or end-of-directory; at most NSlots+1    *)
(* Negative controls: Compact = TRUE (RemName moves the last entry into the hole:   *)
(* a plausible "optimisation") breaks Complete/NoDup; CookieIsOffset = TRUE (the     *)
(* cookie of an entry is its own slot - the original code, repaired) breaks NoDup.   *)
(* The model's assumption about the code - a live entry never changes its slot - is  *)
(* checked on consecutive snapshots of real runs (NfsTrace: entry-moved rule).       *)
EXTENDS Integers, Sequences, FiniteSets, TLC
CONSTANTS Names, NSlots, MaxOps, Compact, CookieIsOffset

VARIABLES slots,    \* 1..NSlots -> <<>> (free) | <<name, obj>>
          nobj,     \* objects created so far
          nops,
          rd        \* the enumeration: [cur: next slot to scan, seen: entries returned, through: entries present since it began, pages, eof]
vars == <<slots, nobj, nops, rd>>

Free == <<>>
Ents(s) == {s[i] : i \in {j \in 1..NSlots : s[j] # Free}}
SlotOf(s, n) == CHOOSE i \in 1..NSlots : s[i] # Free /\ s[i][1] = n
Has(s, n) == \E i \in 1..NSlots : s[i] # Free /\ s[i][1] = n
FirstFree(s) == CHOOSE i \in 1..NSlots : s[i] = Free /\ \A j \in 1..(i - 1) : s[j] # Free
Full(s) == \A i \in 1..NSlots : s[i] # Free
LastUsed(s) == CHOOSE i \in 1..NSlots : s[i] # Free /\ \A j \in (i + 1)..NSlots : s[j] = Free

FreeSlots(s) == {i \in 1..NSlots : s[i] = Free}
AddAt(s, e, i) == [s EXCEPT ![i] = e]       \* any free slot: the code scans from a hint (DirCache.tla), the properties must not depend on the policy
RemFrom(s, n) ==
  LET i == SlotOf(s, n) IN
  IF Compact /\ LastUsed(s) # i THEN [s EXCEPT ![i] = s[LastUsed(s)], ![LastUsed(s)] = Free]
  ELSE [s EXCEPT ![i] = Free]

NameSeq == CHOOSE q \in [1..Cardinality(Names) -> Names] : \A i, j \in 1..Cardinality(Names) : i # j => q[i] # q[j]
Obj0(n) == CHOOSE i \in 1..Cardinality(Names) : NameSeq[i] = n      \* distinct initial objects
Init == /\ slots \in {s \in [1..NSlots -> {Free} \cup {<<n, Obj0(n)>> : n \in Names}] :
                        /\ \A i, j \in 1..NSlots : (i # j /\ s[i] # Free /\ s[j] # Free) => s[i][1] # s[j][1]
                        /\ Cardinality(Ents(s)) >= 2}
        /\ nobj = Cardinality(Names) /\ nops = 0
        /\ rd = [cur |-> 1, seen |-> <<>>, through |-> Ents(slots), pages |-> 0, eof |-> FALSE]

Track(s2) == rd' = [rd EXCEPT !.through = @ \cap Ents(s2)]
Add(n) == /\ nops < MaxOps /\ ~rd.eof /\ ~Has(slots, n) /\ ~Full(slots)
          /\ \E i \in FreeSlots(slots) : slots' = AddAt(slots, <<n, nobj + 1>>, i)
          /\ nobj' = nobj + 1 /\ nops' = nops + 1 /\ Track(slots')
Rem(n) == /\ nops < MaxOps /\ ~rd.eof /\ Has(slots, n)
          /\ slots' = RemFrom(slots, n) /\ nops' = nops + 1 /\ UNCHANGED nobj /\ Track(slots')
Ren(a, b) == /\ nops < MaxOps /\ ~rd.eof /\ a # b /\ Has(slots, a)
             /\ LET o == slots[SlotOf(slots, a)][2]
                    s1 == IF Has(slots, b) THEN RemFrom(slots, b) ELSE slots
                    s2 == RemFrom(s1, a)
                IN \E i \in FreeSlots(s2) : slots' = AddAt(s2, <<b, o>>, i)
             /\ nops' = nops + 1 /\ UNCHANGED nobj /\ Track(slots')

(* one READDIR call with room for k entries *)
RECURSIVE Scan(_, _, _, _)
Scan(s, i, k, out) ==    \* returns <<entries, next cursor, eof>>
  IF i > NSlots THEN <<out, i, TRUE>>
  ELSE IF k = 0 THEN <<out, i, FALSE>>
  ELSE IF s[i] = Free THEN Scan(s, i + 1, k, out)
  ELSE Scan(s, i + 1, k - 1, Append(out, <<s[i], i>>))
Page(k) ==
  /\ ~rd.eof
  /\ LET r == Scan(slots, rd.cur, k, <<>>)
         got == r[1]
         last == IF got = <<>> THEN rd.cur ELSE got[Len(got)][2]
         nxt == IF got = <<>> THEN r[2] ELSE IF CookieIsOffset THEN last ELSE last + 1    \* the cookie handed back
     IN rd' = [rd EXCEPT !.cur = IF r[3] THEN r[2] ELSE nxt, !.seen = @ \o [j \in 1..Len(got) |-> got[j][1]],
                         !.pages = @ + 1, !.eof = r[3]]
  /\ UNCHANGED <<slots, nobj, nops>>

Next == (\E n \in Names : Add(n) \/ Rem(n)) \/ (\E a, b \in Names : Ren(a, b)) \/ (\E k \in 1..2 : Page(k)) \/ (rd.eof /\ UNCHANGED vars)
Spec == Init /\ [][Next]_vars

(* an entry that left the directory and came back during the enumeration (RENAME away and back: it may land in a later slot) *)
(* was not there throughout: it may be returned twice. The property speaks of the entries present throughout.               *)
NoDup == \A i, j \in 1..Len(rd.seen) : (i # j /\ rd.seen[i] \in rd.through) => rd.seen[i] # rd.seen[j]
Complete == rd.eof => rd.through \subseteq {rd.seen[i] : i \in 1..Len(rd.seen)}
Progress == rd.pages <= NSlots + 1
=============================================================================
