SPECIFICATION Spec
CONSTANTS
  Blocks = {"b1", "b2", "bm"}
  MaxTxn = 3
  ReadRaw = TRUE
PROPERTY AllocAtStart
CHECK_DEADLOCK FALSE
