SPECIFICATION Spec
CONSTANTS RootLast = FALSE  DotsAlways = TRUE  MaxCrash = 3
INVARIANT Usable
CHECK_DEADLOCK FALSE
