SPECIFICATION TSpec
POSTCONDITION Post
CHECK_DEADLOCK FALSE
