SPECIFICATION Spec
CONSTANTS
  MaxB = 7
  K = 4
  Budget = 2
  KeepSsz = TRUE
  MaxOps = 0
  Slack = 0
  UseResult = TRUE
  Recheck = TRUE
INVARIANTS TypeOK NoOrphan Reclaimed FreeIsEmpty NoStale
CHECK_DEADLOCK FALSE
