SPECIFICATION Spec
CONSTANTS Names = {"a", "b", "c", "d"}  NSlots = 8  MaxOps = 9  KeepOnAbort = FALSE  DelOnRem = TRUE
INVARIANTS Coherent UniqueNames DotsStay HintOk
CHECK_DEADLOCK FALSE
