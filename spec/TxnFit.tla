------------------------------- MODULE TxnFit -------------------------------
(* Room accounting of the transactions that free a file (inode/shrink.go Shrink,   *)
(* shrinkFits, indshrink; inode.Resize; alloctxn.PreCommit), behind C05 and C11:   *)
(* freeing proceeds block by block from the top while the loop condition says the   *)
(* journal transaction has room; at commit the transaction holds every block it      *)
(* dirtied - zeroed data blocks, index blocks, the inode block - plus one bitmap      *)
(* block for every bitmap area in which it freed a block (PreCommit writes them,      *)
(* Op.NDirty() does not count them before). A transaction larger than the journal      *)
(* (Cap) is refused by CommitWait; the shrinker thread then panics and the file can    *)
(* never be freed. The blocks of a file can lie in any bitmap area: the model chooses   *)
(* the area of every freed block (and whether a data block is a hole) freely and TLC     *)
(* visits every placement.                                                               *)
(*   Fits      every transaction that frees blocks fits the journal                      *)
(*   Progress  every freeing transaction frees at least one block                         *)
(* Two callers: the background shrinker / getShrink (transactions of their own) and an    *)
(* RPC that frees inside its own transaction (Resize, when shrinkFits says the whole       *)
(* range fits): that transaction already holds Pre dirty blocks and dirties up to Post     *)
(* more afterwards (FreeInode's bitmap block; RENAME's directory blocks).                  *)
(* Negative control: CountBitmaps = FALSE, Reserve = 5 (the original condition, which     *)
(* assumed two bitmap blocks) on a disk with four bitmap areas.                            *)
EXTENDS Integers, FiniteSets, TLC
CONSTANTS Cap, ND, NB, NArea, Reserve, CountBitmaps, Lens, NewSizes, Pres, Posts, Holes

VARIABLES len, newsz, ssz,     \* the file: length, the size it is cut to, how far freeing has got (all in blocks)
          mode,                \* "rpc": first transaction is the RPC's own; "bg": shrinker transactions only
          d, nb,               \* this transaction: blocks dirtied so far, number of bitmap areas in which it freed (only the number matters)
          fI, fL, fD,          \* this transaction has already dirtied: the indirect block, the current block under the double-indirect block, the double-indirect block
          freed,               \* blocks freed by this transaction
          post,                \* what the RPC dirties after Shrink
          phase, total
vars == <<len, newsz, ssz, mode, d, nb, fI, fL, fD, freed, post, phase, total>>

B(n) == IF CountBitmaps THEN n ELSE 0
Room(dd, n, r) == dd + B(n) + r < Cap                       \* shrinkFits
Min(x, y) == IF x < y THEN x ELSE y
Init == /\ len \in Lens /\ newsz \in NewSizes /\ newsz < len /\ ssz = len
        /\ mode \in {"rpc", "bg"}
        /\ nb = 0 /\ fI = FALSE /\ fL = FALSE /\ fD = FALSE /\ freed = 0 /\ total = 0
        /\ IF mode = "rpc"
           THEN /\ d \in Pres                             \* Resize has written the inode; directory blocks, ...
                /\ post \in (IF newsz = 0 THEN Posts ELSE {0})
                /\ phase = IF Room(d, 0, len - newsz) THEN "free" ELSE "handoff"
           ELSE d = 0 /\ post = 0 /\ phase = "free"

(* freeing index k = ssz - 1: transcription of Shrink's loop body. pl: the data block is present (not a hole); new: how many of the   *)
(* blocks freed in this step (the data block, the block under the double-indirect block or the indirect block, the double-indirect    *)
(* block) lie in bitmap areas in which this transaction has not freed yet                                                             *)
Free(pl, new) ==
  LET k == ssz - 1
      one == IF pl THEN 1 ELSE 0
      NewOk(cnt) == /\ new <= Min(cnt, NArea - nb)
                    /\ (nb = 0 /\ cnt > 0 => new >= 1)
                    /\ nb' = nb + new
  IN
  /\ phase = "free" /\ ssz > newsz /\ Room(d, nb, Reserve)
  /\ ssz' = k /\ freed' = freed + 1
  /\ IF k < ND
     THEN /\ d' = d + one /\ NewOk(one)
          /\ UNCHANGED <<fI, fL, fD>>
     ELSE IF k - ND < NB
     THEN LET o == k - ND
              putI == pl \/ o = 0                              \* BnumPut on the indirect block / the block is zeroed when freed
          IN /\ d' = d + one + (IF putI /\ ~fI THEN 1 ELSE 0)
             /\ NewOk(one + (IF o = 0 THEN 1 ELSE 0))
             /\ fI' = (fI \/ putI) /\ UNCHANGED <<fL, fD>>
     ELSE LET off == k - ND - NB
              i == off % NB
              o == off \div NB
              putL == pl \/ i = 0
              putD == i = 0                                    \* the entry of the freed block is cleared in the double-indirect block
          IN /\ d' = d + one + (IF putL /\ ~fL THEN 1 ELSE 0) + (IF putD /\ ~fD THEN 1 ELSE 0)
             /\ NewOk(one + (IF i = 0 THEN 1 ELSE 0) + (IF i = 0 /\ o = 0 THEN 1 ELSE 0))
             /\ fL' = (IF i = 0 THEN FALSE ELSE (fL \/ putL))  \* the next step is in the previous block
             /\ fD' = (fD \/ putD) /\ UNCHANGED fI
  /\ UNCHANGED <<len, newsz, mode, post, phase, total>>

(* the loop ends: the shrinker's transaction writes the inode; the RPC goes on *)
Finish ==
  /\ phase = "free" /\ (ssz = newsz \/ ~Room(d, nb, Reserve))
  /\ total' = d + nb + (IF mode = "bg" THEN 1 ELSE post)
  /\ phase' = "commit"
  /\ UNCHANGED <<len, newsz, ssz, mode, d, nb, fI, fL, fD, freed, post>>
Commit ==
  /\ phase = "commit"
  /\ IF ssz > newsz THEN phase' = "free" /\ mode' = "bg" ELSE phase' = "done" /\ mode' = mode
  /\ d' = 0 /\ nb' = 0 /\ fI' = FALSE /\ fL' = FALSE /\ fD' = FALSE /\ freed' = 0 /\ post' = 0
  /\ UNCHANGED <<len, newsz, ssz, total>>
Handoff ==   \* Resize leaves everything to the shrinker
  /\ phase = "handoff" /\ phase' = "free" /\ mode' = "bg" /\ d' = 0 /\ post' = 0
  /\ UNCHANGED <<len, newsz, ssz, nb, fI, fL, fD, freed, total>>

Next == (\E pl \in (IF Holes THEN BOOLEAN ELSE {TRUE}), new \in 0..3 : Free(pl, new)) \/ Finish \/ Commit \/ Handoff
Spec == Init /\ [][Next]_vars

Fits == phase = "commit" => total <= Cap
Progress == (phase = "commit" /\ mode = "bg") => freed > 0
=============================================================================
