---------------------------- MODULE SimpleTrace ----------------------------
EXTENDS SimpleSpec, Json, IOUtils
TraceFile == IF "TRACE" \in DOMAIN IOEnv THEN IOEnv.TRACE ELSE "trace.ndjson"
Trace == ndJsonDeserialize(TraceFile)
VARIABLES l, f, bad, seg, H
vars == <<l, f, bad, seg, H>>
TInit == l = 1 /\ f = SInit /\ bad = TRUE /\ seg = 0 /\ H = <<>>
Report(line, rules, e) ==
  PrintT("VIOL " \o ToJson([line |-> line, seg |-> seg, rules |-> rules, ev |-> e.ev,
                            proc |-> IF "proc" \in DOMAIN e THEN e.proc ELSE "", i |-> IF "i" \in DOMAIN e THEN e.i ELSE -1]))
Consume ==
  /\ l <= Len(Trace) /\ l' = l + 1
  /\ LET e == Trace[l] IN
     IF e.ev = "reset" THEN f' = SInit /\ bad' = FALSE /\ seg' = e.seg /\ H' = <<SInit>>
     ELSE /\ seg' = seg
          /\ IF bad THEN UNCHANGED <<f, bad>>
             ELSE CASE e.ev = "call" ->
                        LET v == SCheck(f, e) IN
                        IF v = <<>> THEN f' = SNext(f, e) /\ bad' = FALSE ELSE Report(l, v, e) /\ bad' = TRUE /\ f' = f
                    [] e.ev = "sdump" ->
                        IF SDumpOK(f, e) THEN UNCHANGED <<f, bad>>
                        ELSE Report(l, <<"C17:state-differs-from-specification">>, e) /\ bad' = TRUE /\ f' = f
                    [] e.ev = "srestart" ->
                        IF SDumpOK(f, e.dump) THEN UNCHANGED <<f, bad>>
                        ELSE Report(l, <<"C17:state-lost-or-changed-by-restart">>, e) /\ bad' = TRUE /\ f' = f
                    [] e.ev = "scrashprobe" ->
                        (* everything acknowledged is durable; the call in flight applies entirely or not at all *)
                        IF e.invoked + 1 > Len(H) THEN UNCHANGED <<f, bad>>
                        ELSE IF e.ok /\ \E k \in (e.acked + 1)..(e.invoked + 1) : SDumpOK(H[k], e.dump) THEN UNCHANGED <<f, bad>>
                        ELSE Report(l, <<"C17:recovered-state-is-not-acknowledged-prefix">>, e) /\ UNCHANGED <<f, bad>>
                    [] OTHER -> UNCHANGED <<f, bad>>
          /\ IF e.ev = "call" /\ ~bad THEN H' = Append(H, f') ELSE H' = H
TNext == Consume
TSpec == TInit /\ [][TNext]_vars
Post == PrintT("CONSUMED " \o ToString(TLCGet("stats").diameter - 1) \o " OF " \o ToString(Len(Trace)))
        /\ TLCGet("stats").diameter = Len(Trace) + 1
=============================================================================
