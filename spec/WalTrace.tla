------------------------------ MODULE WalTrace ------------------------------
(* The stream of disk writes and barriers recorded from a running server,       *)
(* decoded into journal events (harness/drv/waldecode.go), checked against the   *)
(* write-ahead discipline that go-nfsd relies on (go-journal's protocol, see      *)
(* Wal.tla for the design model):                                                 *)
(*  W1  a log header (commit point) only names slots whose content was written     *)
(*      before the last barrier;                                                   *)
(*  W2  after the initial format, every write to a home block (bitmaps, inodes,    *)
(*      data) is the installation of a version of that block that is in the log    *)
(*      under a durable header - nothing reaches the disk around the journal;      *)
(*  W3  the start position (header 2) only advances over positions that were       *)
(*      installed before the last barrier.                                         *)
EXTENDS Integers, Sequences, FiniteSets, TLC, Json, IOUtils
TraceFile == IF "TRACE" \in DOMAIN IOEnv THEN IOEnv.TRACE ELSE "trace.ndjson"
Trace == ndJsonDeserialize(TraceFile)
NSLOT == 511

VARIABLES l, slot, logd, wEnd, dEnd, dStart, inst, seg
vars == <<l, slot, logd, wEnd, dEnd, dStart, inst, seg>>
(* slot: slot -> [h, durable]; logd: position -> [addr, h]; wEnd/dEnd: end written / durable;          *)
(* dStart: start (header 2) written; inst: position -> installed (home write seen) and barriered flags *)

Empty == <<>>
TInit == l = 1 /\ slot = Empty /\ logd = Empty /\ wEnd = 0 /\ dEnd = 0 /\ dStart = 0 /\ inst = Empty /\ seg = 0

Report(line, rule, e) == PrintT("VIOL " \o ToJson([line |-> line, seg |-> seg, rules |-> <<rule>>, ev |-> "wal", proc |-> e.k, i |-> e.addr]))

Versions(addr) == {p \in DOMAIN logd : logd[p].addr = addr /\ p < dEnd}

Consume ==
  /\ l <= Len(Trace) /\ l' = l + 1
  /\ LET e == Trace[l] IN
     IF e.ev = "reset" THEN slot' = Empty /\ logd' = Empty /\ wEnd' = 0 /\ dEnd' = 0 /\ dStart' = 0 /\ inst' = Empty /\ seg' = e.seg
     ELSE IF e.ev # "wal" THEN UNCHANGED <<slot, logd, wEnd, dEnd, dStart, inst, seg>>
     ELSE /\ seg' = seg
          /\ CASE e.k = "boot" -> slot' = Empty /\ logd' = Empty /\ wEnd' = 0 /\ dEnd' = 0 /\ dStart' = 0 /\ inst' = Empty
               [] e.k = "slot" ->
                    /\ slot' = (e.slot :> [h |-> e.h, durable |-> FALSE]) @@ slot
                    /\ UNCHANGED <<logd, wEnd, dEnd, dStart, inst>>
               [] e.k = "hdr1" ->
                    LET bad == {i \in 1..Len(e.news) : LET s == e.news[i][1] % NSLOT IN s \notin DOMAIN slot \/ ~slot[s].durable} IN
                    /\ (IF bad = {} THEN TRUE ELSE Report(l, "C01:commit-header-written-before-its-log-blocks-are-durable", e))
                    /\ logd' = [p \in {e.news[i][1] : i \in 1..Len(e.news)} |->
                                 LET i == CHOOSE j \in 1..Len(e.news) : e.news[j][1] = p
                                     s == p % NSLOT
                                 IN [addr |-> e.news[i][2], h |-> IF s \in DOMAIN slot THEN slot[s].h ELSE "?"]] @@ logd
                    /\ wEnd' = e.end
                    /\ UNCHANGED <<slot, dEnd, dStart, inst>>
               [] e.k = "home" ->
                    /\ (IF \E p \in Versions(e.addr) : logd[p].h = e.h THEN TRUE
                        ELSE Report(l, "C01,C04:block-written-to-its-home-location-around-the-journal", e))
                    /\ inst' = [p \in {q \in Versions(e.addr) : logd[q].h = e.h} |-> FALSE] @@ inst
                    /\ UNCHANGED <<slot, logd, wEnd, dEnd, dStart>>
               [] e.k = "hdr2" ->
                    /\ (IF \A p \in DOMAIN logd : (p >= dStart /\ p < e.end) =>
                             (\E q \in DOMAIN logd : q >= p /\ q < dEnd /\ logd[q].addr = logd[p].addr /\ q \in DOMAIN inst /\ inst[q])
                        THEN TRUE ELSE Report(l, "C01:log-start-advanced-over-positions-not-durably-installed", e))
                    /\ dStart' = e.end
                    /\ logd' = [p \in {q \in DOMAIN logd : q >= e.end} |-> logd[p]]
                    /\ inst' = [p \in {q \in DOMAIN inst : q >= e.end} |-> inst[p]]
                    /\ UNCHANGED <<slot, wEnd, dEnd>>
               [] e.k = "bar" ->
                    /\ slot' = [s \in DOMAIN slot |-> [slot[s] EXCEPT !.durable = TRUE]]
                    /\ inst' = [p \in DOMAIN inst |-> TRUE]
                    /\ dEnd' = wEnd
                    /\ UNCHANGED <<logd, wEnd, dStart>>
               [] OTHER -> UNCHANGED <<slot, logd, wEnd, dEnd, dStart, inst>>
TSpec == TInit /\ [][Consume]_vars
Post == PrintT("CONSUMED " \o ToString(TLCGet("stats").diameter - 1) \o " OF " \o ToString(Len(Trace)))
        /\ TLCGet("stats").diameter = Len(Trace) + 1
=============================================================================
