------------------------------- MODULE NfsLin -------------------------------
(* Linearizability of concurrent histories of the real server against NfsSpec. *)
(* The trace lists invoke and return events in real-time order (one shared      *)
(* sequence counter); the invoke event carries the call WITH its reply. TLC      *)
(* searches a linearization: between the invoke and the return of a call there   *)
(* must be a point (silent action Lin) at which the reply is one the reference   *)
(* allows in the current state. A history is accepted iff the search can consume *)
(* all its lines, ending in a state whose tree equals the final dump.            *)
(* Several histories are concatenated ("reset" lines); Skip abandons a history   *)
(* so that the others are still searched; hw[seg] records the furthest line a    *)
(* non-skipping path reached in that history.                                     *)
EXTENDS NfsSpec, Json, IOUtils

TraceFile == IF "TRACE" \in DOMAIN IOEnv THEN IOEnv.TRACE ELSE "trace.ndjson"
Trace == ndJsonDeserialize(TraceFile)
N == Len(Trace)

FS == INSTANCE FsStruct

VARIABLES l, s, pend, seg
vars == <<l, s, pend, seg>>

(* pend: client -> [call, done]  for calls invoked and not yet returned *)
NoPend == <<>>
PReg(i) == 100000 + i
(* RELAX=1 (second run, for crash probes): replies of read-only calls are not checked and do not move the state -    *)
(* the property promises that calls that RETURNED survive a crash and that a call in flight applies entirely or not  *)
(* at all, not that what a reader saw from a call still in flight survives.                                          *)
Relax == "RELAX" \in DOMAIN IOEnv /\ IOEnv.RELAX = "1"
IsRead(c) == c.proc \in {"NULL", "GETATTR", "LOOKUP", "ACCESS", "READLINK", "READ", "READDIR", "READDIRPLUS", "FSSTAT", "FSINFO", "PATHCONF"}

LInit == /\ l = 1 /\ s = InitState("", TRUE) /\ pend = NoPend /\ seg = -1
         /\ TLCSet(999, -1)
         /\ \A i \in 1..N : Trace[i].ev = "reset" => TLCSet(1000 + Trace[i].seg, 0)
         /\ \A i \in 1..N : Trace[i].ev = "crashprobe" => TLCSet(PReg(i), 0)

IsReset(i) == i <= N /\ Trace[i].ev = "reset"

RECURSIVE NextReset(_)
NextReset(i) == IF i > N \/ IsReset(i) THEN i ELSE NextReset(i + 1)

Mark(i) == TLCSet(1000 + seg, IF TLCGet(1000 + seg) < i THEN i ELSE TLCGet(1000 + seg))

DoReset ==
  /\ IsReset(l)
  /\ LET e == Trace[l] IN
     /\ s' = InitState(e.root, e.unstable) /\ pend' = NoPend /\ seg' = e.seg /\ l' = l + 1
     /\ TLCSet(1000 + e.seg, IF TLCGet(1000 + e.seg) < l + 1 THEN l + 1 ELSE TLCGet(1000 + e.seg))
     /\ TLCSet(999, IF TLCGet(999) < e.seg THEN e.seg ELSE TLCGet(999))

Inv ==
  /\ l <= N /\ Trace[l].ev = "inv"
  /\ LET e == Trace[l] IN
     /\ e.cl \notin DOMAIN pend
     /\ pend' = (e.cl :> [call |-> e.call, done |-> FALSE]) @@ pend
     /\ l' = l + 1 /\ UNCHANGED <<s, seg>>
     /\ Mark(l + 1)

Lin(c) ==
  /\ c \in DOMAIN pend /\ ~pend[c].done
  /\ IF Relax /\ IsRead(pend[c].call) THEN s' = s
     ELSE Check(s, pend[c].call) = <<>> /\ s' = Next(s, pend[c].call)
  /\ pend' = [pend EXCEPT ![c].done = TRUE]
  /\ UNCHANGED <<l, seg>>

Ret ==
  /\ l <= N /\ Trace[l].ev = "ret"
  /\ LET e == Trace[l] IN
     /\ e.cl \in DOMAIN pend /\ pend[e.cl].done
     /\ pend' = [c \in DOMAIN pend \ {e.cl} |-> pend[c]]
     /\ l' = l + 1 /\ UNCHANGED <<s, seg>>
     /\ Mark(l + 1)

Final ==   \* dump / snap lines at the end of a history: all calls returned, tree as dumped
  /\ l <= N /\ Trace[l].ev \in {"dump", "snap"}
  /\ DOMAIN pend = {}
  /\ Trace[l].ev = "dump" => DumpMatches(s.objs, Trace[l])
  /\ Trace[l].ev = "snap" =>
        LET v == FS!StructRules(Trace[l])
                 \o (IF Trace[l].idle /\ Cardinality(FS!Live(Trace[l])) # Cardinality(DOMAIN s.objs)
                     THEN <<"C04,C05:live-inode-count-differs-from-reference">> ELSE <<>>)
        IN IF v = <<>> THEN TRUE ELSE PrintT("SVIOL " \o ToJson([line |-> l, seg |-> seg, rules |-> v]))
  /\ l' = l + 1 /\ UNCHANGED <<s, pend, seg>>
  /\ Mark(l + 1)

(* A crash image cut after the history events consumed so far: the recovered tree must be the tree of SOME state    *)
(* reachable here (calls that returned are in it; a call in flight is in it entirely or not at all). The line is    *)
(* consumed on every path; a path whose state matches sets the probe's register; Post prints unmatched probes.      *)
CrashProbe ==
  /\ l <= N /\ Trace[l].ev = "crashprobe"
  /\ (IF Trace[l].ok /\ DumpMatches(s.objs, Trace[l].dump) THEN TLCSet(PReg(l), 1) ELSE TRUE)
  /\ l' = l + 1 /\ UNCHANGED <<s, pend, seg>>
  /\ Mark(l + 1)

(* the server is crashed after the last call returned: the recovered tree is the durable state or a later prefix of  *)
(* the acknowledged-unstable operations, in the order of the linearization found                                     *)
FinalCrash ==
  /\ l <= N /\ Trace[l].ev = "crashfinal"
  /\ DOMAIN pend = {}
  /\ Trace[l].ok /\ MatchIdx(Candidates(s, <<>>), Trace[l].dump) # 0
  /\ l' = l + 1 /\ UNCHANGED <<s, pend, seg>>
  /\ Mark(l + 1)

Note ==     \* informational lines of the drivers (model-drift notes of replayed behaviours)
  /\ l <= N /\ Trace[l].ev = "protonote"
  /\ l' = l + 1 /\ UNCHANGED <<s, pend, seg>>
  /\ Mark(l + 1)

Restart ==  \* clean restart during the sequential set-up (everything so far was acknowledged stable)
  /\ l <= N /\ Trace[l].ev = "restart" /\ DOMAIN pend = {}
  /\ s' = AfterRecovery(s, s.objs) /\ l' = l + 1 /\ UNCHANGED <<pend, seg>>
  /\ Mark(l + 1)

Skip ==    \* abandon this history
  /\ l <= N /\ ~IsReset(l) /\ seg >= 0
  /\ l' = NextReset(l) /\ s' = InitState("", TRUE) /\ pend' = NoPend /\ seg' = -2

LNext == DoReset \/ Inv \/ Ret \/ Note \/ Final \/ FinalCrash \/ CrashProbe \/ Restart \/ Skip \/ \E c \in DOMAIN pend : Lin(c)
LSpec == LInit /\ [][LNext]_vars

(* one line per history: the furthest line reached *)
Post == /\ PrintT("LINES " \o ToString(N))
        /\ \A i \in 1..N : Trace[i].ev = "reset" =>
               PrintT("HW " \o ToString(Trace[i].seg) \o " " \o ToString(i) \o " " \o ToString(TLCGet(1000 + Trace[i].seg)))
        /\ \A i \in 1..N : (Trace[i].ev = "crashprobe" /\ TLCGet(PReg(i)) = 0) => PrintT("UNMATCHED " \o ToString(i))
=============================================================================
