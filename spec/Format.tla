------------------------------- MODULE Format -------------------------------
(* The first start of go-nfsd on an empty disk (nfs/nfs.go MakeNfs, makeFs,         *)
(* markAlloc, makeRootDir), with crashes: the disk keeps any subset of the writes    *)
(* issued since the last barrier, and the server is started again - as often as       *)
(* MaxCrash allows. MakeNfs takes a disk for formatted when the root inode has a        *)
(* kind (read from the disk itself); otherwise it writes the bitmaps and the root       *)
(* inode directly (no journal) and then creates "." and ".." in a journal               *)
(* transaction (atomic and durable when it returns).                                     *)
(*   Usable   a server that has finished starting has bitmaps, a root inode and a         *)
(*            root directory with its two entries                                         *)
(* Negative controls (the repaired defect): RootLast = FALSE (the root inode is written    *)
(* first and no barrier separates it from the bitmaps), DotsAlways = FALSE (the entries     *)
(* are created only by the start that wrote the root inode).                                *)
EXTENDS Integers, Sequences, FiniteSets, TLC
CONSTANTS RootLast, DotsAlways, MaxCrash

Items == {"bm1", "bm2", "ibm", "root"}       \* the three bitmap blocks and the root inode, written directly
VARIABLES disk,      \* items on the disk itself
          pend,      \* written since the last barrier: visible to the running server, not yet safe
          dots,      \* the root directory has its entries (a journal transaction: durable at once)
          pc, fresh, \* where the start is; whether this start found the disk unformatted
          ncrash
vars == <<disk, pend, dots, pc, fresh, ncrash>>

Init == disk = {} /\ pend = {} /\ dots = FALSE /\ pc = "start" /\ fresh = FALSE /\ ncrash = 0

Order == IF RootLast THEN <<"bm1", "bm2", "ibm", "barrier", "root", "barrier">>
         ELSE <<"root", "bm1", "bm2", "ibm">>

Start == /\ pc = "start"
         /\ fresh' = ("root" \notin disk)                     \* readRootInode: from the disk itself
         /\ pc' = IF "root" \notin disk THEN "f1" ELSE "dots"
         /\ UNCHANGED <<disk, pend, dots, ncrash>>
FormatStep(i) ==
  /\ pc = "f" \o ToString(i) /\ i <= Len(Order)
  /\ IF Order[i] = "barrier" THEN disk' = disk \cup pend /\ pend' = {}
     ELSE pend' = pend \cup {Order[i]} /\ UNCHANGED disk
  /\ pc' = IF i = Len(Order) THEN "dots" ELSE "f" \o ToString(i + 1)
  /\ UNCHANGED <<dots, fresh, ncrash>>
Dots == /\ pc = "dots"
        /\ dots' = IF DotsAlways \/ fresh THEN TRUE ELSE dots
        /\ pc' = "serving" /\ UNCHANGED <<disk, pend, fresh, ncrash>>
Crash == /\ pc # "serving" /\ ncrash < MaxCrash
         /\ \E keep \in SUBSET pend : disk' = disk \cup keep
         /\ pend' = {} /\ pc' = "start" /\ fresh' = FALSE /\ ncrash' = ncrash + 1 /\ UNCHANGED dots
Lazy == /\ pend # {} /\ \E x \in pend : disk' = disk \cup {x} /\ pend' = pend \ {x}     \* the disk writes back on its own
        /\ UNCHANGED <<dots, pc, fresh, ncrash>>

Next == Start \/ (\E i \in 1..6 : FormatStep(i)) \/ Dots \/ Crash \/ Lazy
Spec == Init /\ [][Next]_vars

Usable == pc = "serving" => (Items \subseteq (disk \cup pend) /\ dots)
=============================================================================
