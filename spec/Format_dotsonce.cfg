SPECIFICATION Spec
CONSTANTS RootLast = TRUE  DotsAlways = FALSE  MaxCrash = 3
INVARIANT Usable
CHECK_DEADLOCK FALSE
