SPECIFICATION Spec
CONSTANTS Clients = {1, 2}  MaxTxn = 4  CommitVariant = "flush"  StableVariant = "own"
INVARIANT Promise
CHECK_DEADLOCK FALSE
