-------------------------------- MODULE Wal --------------------------------
(* Design model of what go-nfsd relies on below it: a disk with a volatile       *)
(* write window (writes since the last barrier may be lost in any subset), the    *)
(* go-journal write-ahead log protocol (log slots, barrier, header 1 = commit     *)
(* point, barrier; installer: home writes, barrier, header 2, barrier) and        *)
(* go-nfsd's start-up sequence: recover the log into memory, then read the        *)
(* allocation bitmap either THROUGH the log or RAW from its home block.           *)
(*                                                                              *)
(* Each transaction t writes version t to a set of blocks (block "bm" plays the  *)
(* allocation bitmap). Checked exhaustively (Wal_MC.cfg): after any crash and     *)
(* recovery the logical disk is the state after a prefix of the committed         *)
(* transactions that contains every flushed one (CrashOK), every home write is an *)
(* install of durable log content (InstallOK), and the allocator built at         *)
(* start-up equals the logical bitmap (AllocOK) - which holds with               *)
(* ReadRaw = FALSE and fails with ReadRaw = TRUE (Wal_MC_raw.cfg: the defect      *)
(* repaired in go-nfsd commit "allocators were initialised from the raw disk").   *)
EXTENDS Integers, Sequences, FiniteSets, TLC

CONSTANTS Blocks, MaxTxn, ReadRaw

VARIABLES home,      \* durable home content: block -> version (0 = initial)
          slots,     \* durable log: position -> [blk, ver]
          hEnd, hStart,   \* durable headers
          win,       \* un-barriered writes, in issue order: [k: "slot"|"hdr1"|"home"|"hdr2", ...]
          mem,       \* in-memory log: sequence of [blk, ver]; position of mem[i] is mStart + i
          mStart, dEnd,   \* installed-up-to / logged-up-to (in-memory view)
          ntxn,      \* transactions committed so far
          txnOf,     \* position -> transaction (to know transaction boundaries)
          flushed,   \* number of transactions whose commit was acknowledged as durable
          up,        \* the server is running
          alloc,     \* allocator contents built at start-up (a version of "bm"), 0 when unknown
          lpc, ipc,  \* logger / installer program counters
          lTo, iTo   \* the position the logger / installer is working up to
vars == <<home, slots, hEnd, hStart, win, mem, mStart, dEnd, ntxn, txnOf, flushed, up, alloc, lpc, ipc, lTo, iTo>>

Txns == 1..MaxTxn
Writes(t) == IF t % 2 = 1 THEN {"bm", CHOOSE b \in (Blocks \ {"bm"}) : TRUE} ELSE (Blocks \ {"bm"}) \cup (IF t % 3 = 0 THEN {"bm"} ELSE {})

(* logical content after the first k transactions *)
Logical(k) == [b \in Blocks |-> LET W == {t \in 1..k : b \in Writes(t)} IN IF W = {} THEN 0 ELSE CHOOSE t \in W : \A u \in W : u <= t]

mEnd == mStart + Len(mem)
MemAt(p) == mem[p - mStart]

Init ==
  /\ home = [b \in Blocks |-> 0] /\ slots = <<>> /\ hEnd = 0 /\ hStart = 0 /\ win = <<>>
  /\ mem = <<>> /\ mStart = 0 /\ dEnd = 0 /\ ntxn = 0 /\ txnOf = <<>> /\ flushed = 0 /\ up = TRUE /\ alloc = 0
  /\ lpc = "idle" /\ ipc = "idle" /\ lTo = 0 /\ iTo = 0

SetToSeq(S) == LET RECURSIVE H(_) H(R) == IF R = {} THEN <<>> ELSE LET x == CHOOSE y \in R : TRUE IN <<x>> \o H(R \ {x}) IN H(S)

Commit ==   \* a transaction is appended to the in-memory log (visible to readers; not yet durable)
  /\ up /\ ntxn < MaxTxn
  /\ LET t == ntxn + 1  ws == SetToSeq(Writes(t)) IN
     /\ mem' = mem \o [i \in 1..Len(ws) |-> [blk |-> ws[i], ver |-> t]]
     /\ txnOf' = [p \in (mEnd + 1)..(mEnd + Len(ws)) |-> t] @@ txnOf
     /\ ntxn' = t
  /\ UNCHANGED <<home, slots, hEnd, hStart, win, mStart, dEnd, flushed, up, alloc, lpc, ipc, lTo, iTo>>

(* logger: slots for (dEnd, mEnd], barrier, header 1, barrier *)
LogSlots ==
  /\ up /\ lpc = "idle" /\ mEnd > dEnd
  /\ win' = win \o [i \in 1..(mEnd - dEnd) |-> [k |-> "slot", pos |-> dEnd + i, blk |-> MemAt(dEnd + i).blk, ver |-> MemAt(dEnd + i).ver]]
  /\ lpc' = "bar1" /\ lTo' = mEnd
  /\ UNCHANGED <<home, slots, hEnd, hStart, mem, mStart, dEnd, ntxn, txnOf, flushed, up, alloc, ipc, iTo>>

ApplyWin(ws) ==   \* make the writes ws durable (in order)
  LET RECURSIVE A(_, _, _, _, _)
      A(i, hm, sl, he, hs) ==
        IF i > Len(ws) THEN <<hm, sl, he, hs>>
        ELSE LET w == ws[i] IN
             CASE w.k = "slot" -> A(i + 1, hm, (w.pos :> [blk |-> w.blk, ver |-> w.ver]) @@ sl, he, hs)
               [] w.k = "hdr1" -> A(i + 1, hm, sl, w.pos, hs)
               [] w.k = "home" -> A(i + 1, [hm EXCEPT ![w.blk] = w.ver], sl, he, hs)
               [] w.k = "hdr2" -> A(i + 1, hm, sl, he, w.pos)
  IN A(1, home, slots, hEnd, hStart)

Barrier(pcvar, from, to) ==
  /\ pcvar = from
  /\ LET r == ApplyWin(win) IN home' = r[1] /\ slots' = r[2] /\ hEnd' = r[3] /\ hStart' = r[4]
  /\ win' = <<>>

LogBar1 == up /\ Barrier(lpc, "bar1", "hdr") /\ lpc' = "hdr" /\ UNCHANGED <<mem, mStart, dEnd, ntxn, txnOf, flushed, up, alloc, ipc, lTo, iTo>>
LogHdr ==
  /\ up /\ lpc = "hdr"
  /\ win' = Append(win, [k |-> "hdr1", pos |-> lTo, blk |-> "", ver |-> 0])
  /\ lpc' = "bar2"
  /\ UNCHANGED <<home, slots, hEnd, hStart, mem, mStart, dEnd, ntxn, txnOf, flushed, up, alloc, ipc, lTo, iTo>>
LogBar2 ==
  /\ up /\ Barrier(lpc, "bar2", "idle") /\ lpc' = "idle"
  /\ dEnd' = lTo
  /\ flushed' = LET P == {p \in DOMAIN txnOf : p <= lTo} IN IF P = {} THEN flushed ELSE txnOf[CHOOSE p \in P : \A q \in P : q <= p]
  /\ UNCHANGED <<mem, mStart, ntxn, txnOf, up, alloc, ipc, lTo, iTo>>

(* installer: home writes for (mStart, dEnd], barrier, header 2, barrier *)
Install ==
  /\ up /\ ipc = "idle" /\ dEnd > mStart
  /\ win' = win \o [i \in 1..(dEnd - mStart) |-> [k |-> "home", pos |-> mStart + i, blk |-> MemAt(mStart + i).blk, ver |-> MemAt(mStart + i).ver]]
  /\ ipc' = "bar1" /\ iTo' = dEnd
  /\ UNCHANGED <<home, slots, hEnd, hStart, mem, mStart, dEnd, ntxn, txnOf, flushed, up, alloc, lpc, lTo>>
InstBar1 == up /\ Barrier(ipc, "bar1", "hdr") /\ ipc' = "hdr" /\ UNCHANGED <<mem, mStart, dEnd, ntxn, txnOf, flushed, up, alloc, lpc, lTo, iTo>>
InstHdr ==
  /\ up /\ ipc = "hdr"
  /\ win' = Append(win, [k |-> "hdr2", pos |-> iTo, blk |-> "", ver |-> 0])
  /\ ipc' = "bar2"
  /\ UNCHANGED <<home, slots, hEnd, hStart, mem, mStart, dEnd, ntxn, txnOf, flushed, up, alloc, lpc, lTo, iTo>>
InstBar2 ==
  /\ up /\ Barrier(ipc, "bar2", "idle") /\ ipc' = "idle"
  /\ mem' = SubSeq(mem, iTo - mStart + 1, Len(mem))
  /\ mStart' = iTo
  /\ UNCHANGED <<dEnd, ntxn, txnOf, flushed, up, alloc, lpc, lTo, iTo>>

(* crash: any subset of the window reaches the disk (per-address order kept by applying the chosen writes in order) *)
Crash ==
  /\ up
  /\ \E keep \in SUBSET (1..Len(win)) :
       LET ks == SetToSeq(keep)
           sorted == [i \in 1..Len(ks) |-> CHOOSE x \in keep : Cardinality({y \in keep : y < x}) = i - 1]
           r == ApplyWin([i \in 1..Len(sorted) |-> win[sorted[i]]])
       IN home' = r[1] /\ slots' = r[2] /\ hEnd' = r[3] /\ hStart' = r[4]
  /\ win' = <<>> /\ up' = FALSE /\ mem' = <<>> /\ mStart' = 0 /\ dEnd' = 0 /\ alloc' = 0 /\ lpc' = "idle" /\ ipc' = "idle" /\ lTo' = 0 /\ iTo' = 0
  /\ UNCHANGED <<ntxn, txnOf, flushed>>

(* start-up: recover the log into memory; build the allocator from the bitmap *)
LogicalNow(b) ==   \* what a read through the log returns
  LET P == {p \in (hStart + 1)..hEnd : p \in DOMAIN slots /\ slots[p].blk = b} IN
  IF P = {} THEN home[b] ELSE slots[CHOOSE p \in P : \A q \in P : q <= p].ver
Restart ==
  /\ ~up
  /\ mem' = [i \in 1..(hEnd - hStart) |-> slots[hStart + i]]
  /\ mStart' = hStart /\ dEnd' = hEnd
  /\ alloc' = IF ReadRaw THEN home["bm"] ELSE LogicalNow("bm")
  /\ up' = TRUE
  (* transactions that were never logged are gone: the history continues from the recovered prefix *)
  /\ LET K == {k \in 0..ntxn : [b \in Blocks |-> LogicalNow(b)] = Logical(k)} IN
     ntxn' = IF K = {} THEN ntxn ELSE CHOOSE k \in K : \A j \in K : j <= k
  /\ txnOf' = [p \in {q \in DOMAIN txnOf : q <= hEnd} |-> txnOf[p]]
  /\ UNCHANGED <<home, slots, hEnd, hStart, win, flushed, lpc, ipc, lTo, iTo>>

Next == Commit \/ LogSlots \/ LogBar1 \/ LogHdr \/ LogBar2 \/ Install \/ InstBar1 \/ InstHdr \/ InstBar2 \/ Crash \/ Restart
Spec == Init /\ [][Next]_vars

(*--------------------------------------------------------------------------*)
DiskLogical == [b \in Blocks |-> LogicalNow(b)]

(* the durable logical disk is always the state after a prefix of the transactions, containing all flushed ones *)
CrashOK == \E k \in flushed..ntxn : DiskLogical = Logical(k)

(* a home block only ever holds versions that are in the durable log or older (nothing bypasses the log) *)
InstallOK == \A b \in Blocks : home[b] = 0 \/ \E k \in 0..ntxn : home[b] = Logical(k)[b]

(* the allocator built at start-up equals the logical bitmap *)
AllocAtStart == [][(~up /\ up') => alloc' = LogicalNow("bm")']_vars
Bound == ntxn <= MaxTxn
=============================================================================
