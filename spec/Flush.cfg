SPECIFICATION Spec
CONSTANTS Clients = {1, 2}  MaxTxn = 4  CommitVariant = "own"  StableVariant = "own"
INVARIANT Promise
CHECK_DEADLOCK FALSE
