SPECIFICATION Spec
CONSTANTS Clients = {1, 2}  MaxTxn = 4  CommitVariant = "own"  StableVariant = "own"
INVARIANTS Promise Whole
CHECK_DEADLOCK FALSE
