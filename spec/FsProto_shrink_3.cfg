SPECIFICATION Spec
CONSTANTS
  NI = 3
  Names = {"a", "b"}
  Clients = {1, 2, 3}
  RecheckGen = TRUE
  SortLocks = TRUE
  PlusLocksKids = FALSE
  Scenario = "shrink"
  MaxTries = 6
  RecheckName = TRUE
  LowestFree = FALSE
  OneOp = {1, 2, 3}
INVARIANTS TypeOK Refines NoSelfWait NoDeadlock LocksReleased TakenReturned RetryBound
CHECK_DEADLOCK TRUE
