SPECIFICATION LSpec
POSTCONDITION Post
CHECK_DEADLOCK FALSE
