SPECIFICATION Spec
CONSTANTS
  ND = 2
  NB = 2
  NBlocks = 9
  UndoFresh = TRUE
  MaxOps = 5
INVARIANTS NoLeak Covered EmptyAtZero
CHECK_DEADLOCK FALSE
