SPECIFICATION Spec
CONSTANTS Clients = {1, 2}  MaxTxn = 4  CommitVariant = "own"  StableVariant = "late"
INVARIANT Promise
CHECK_DEADLOCK FALSE
