SPECIFICATION Spec
CONSTANTS Names = {"a", "b", "c"}  NSlots = 6  MaxOps = 7  KeepOnAbort = TRUE  DelOnRem = TRUE
INVARIANTS Coherent UniqueNames DotsStay HintOk
CHECK_DEADLOCK FALSE
