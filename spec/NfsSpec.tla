------------------------------ MODULE NfsSpec ------------------------------
(* The abstract NFSv3 server of go-nfsd (layer L2 of DESIGN.md): a tree of      *)
(* objects with run-length encoded file contents, file handles, announced      *)
(* limits, READDIR sessions, write stability and the durability history.        *)
(*                                                                              *)
(* The module is written as pure operators over an explicit state record s      *)
(* and an event record e (one RPC with its arguments AND its reply):            *)
(*     Check(s, e)  = the sequence of rules of the reference that the reply     *)
(*                    violates (<<>> = the reply is one the reference allows)   *)
(*     Next(s, e)   = the state after e                                          *)
(* Implementation choices (new handle, new file id, bytes written by a short    *)
(* write, page boundaries, cookies) are bound from the reply and constrained.   *)
(* NfsTrace.tla replays recorded events through these operators; NfsMC.tla      *)
(* enumerates small events and keeps those with Check = <<>>.                    *)
(*                                                                              *)
(* Every rule name starts with the ids of the properties it protects.           *)
EXTENDS Integers, Sequences, FiniteSets, TLC, Rle

HUGE == 1600000000     \* clamp used by the harness for every integer

REG == 1
DIR == 2
LNK == 5

EmptyFn == <<>>

RootId == 1

(*--------------------------------------------------------------------------*)
(* State                                                                      *)

NoLim == [known |-> FALSE, wtmax |-> 0, maxfs |-> 0, rtmax |-> 0, pcknown |-> FALSE, namemax |-> 0]

MkObj(kind, fh, id, parent) ==
  [kind |-> kind, fh |-> fh, id |-> id, data |-> <<>>, target |-> "", tlen |-> 0,
   ents |-> EmptyFn, parent |-> parent]

InitState(rootfh, unstable) ==
  [objs    |-> (RootId :> MkObj(DIR, rootfh, 1, RootId)),
   next    |-> 2,
   issued  |-> {rootfh},
   lim     |-> NoLim,
   hist    |-> <<>>,       \* abstract states (objs) after each op since the durability point
   histw   |-> <<>>,       \* object written by that op (0 = other)
   histn   |-> <<>>,       \* ordinal of the call that produced that state
   nops    |-> 0,          \* calls processed
   durable |-> (RootId :> MkObj(DIR, rootfh, 1, RootId)),   \* state at the durability point
   sess    |-> EmptyFn,    \* dir ObjId -> enumeration session
   cookies |-> EmptyFn,    \* dir ObjId -> cookies returned so far
   boot    |-> 1,
   verf    |-> "",         \* write verifier of this instance ("" = not yet seen)
   oldverfs|-> {},
   unstable|-> unstable]

Ids(s) == DOMAIN s.objs

ObjOf(s, fh) ==
  IF \E o \in DOMAIN s.objs : s.objs[o].fh = fh
  THEN CHOOSE o \in DOMAIN s.objs : s.objs[o].fh = fh ELSE 0

(* class of a handle-typed argument *)
HCls(s, fh) == IF ObjOf(s, fh) # 0 THEN "live" ELSE IF fh \in s.issued THEN "dead" ELSE "unknown"

SizeOf(o) == IF o.kind = REG THEN RLen(o.data) ELSE IF o.kind = LNK THEN o.tlen ELSE -1  \* -1: not fixed by the reference

Names(o) == DOMAIN o.ents

IsEmptyDir(o) == o.kind = DIR /\ DOMAIN o.ents = {}

BadName(n) == n = "" \/ n = "." \/ n = ".."

RECURSIVE IsAncestorOrSelf(_, _, _, _)
(* is a an ancestor of (or equal to) d ?  fuel bounds the walk *)
IsAncestorOrSelf(objs, a, d, fuel) ==
  IF d = a THEN TRUE
  ELSE IF d = RootId \/ fuel = 0 THEN FALSE
  ELSE IsAncestorOrSelf(objs, a, objs[d].parent, fuel - 1)

RECURSIVE Subtree(_, _, _)
Subtree(objs, o, fuel) ==
  IF fuel = 0 \/ objs[o].kind # DIR THEN {o}
  ELSE {o} \cup UNION {Subtree(objs, objs[o].ents[n], fuel - 1) : n \in DOMAIN objs[o].ents}

Remove(f, k) == [x \in DOMAIN f \ {k} |-> f[x]]
Drop(f, ks) == [x \in DOMAIN f \ ks |-> f[x]]

Fail(cond, rule) == IF cond THEN <<rule>> ELSE <<>>

(*--------------------------------------------------------------------------*)
(* Space: the reference does not model free space. When the allocator free     *)
(* counts logged with the call (before it) are below the worst-case need of     *)
(* the request, failing for lack of space is accepted (the op must then have     *)
(* no effect, like any failure).                                                  *)

BlocksOf(n) == (n + 4095) \div 4096

NeedBlocks(e) ==
  CASE e.proc = "WRITE"   -> BlocksOf(RMin(e.cnt, e.dlen)) + 5
    [] e.proc = "READ"    -> BlocksOf(e.cnt) + 5          \* READ materialises holes
    [] e.proc = "SYMLINK" -> BlocksOf(e.tlen) + 5
    [] e.proc \in {"CREATE", "MKDIR", "RENAME"} -> 6
    [] OTHER -> 0

Tight(e) == \/ (e.freeb >= 0 /\ e.freeb < NeedBlocks(e))
            \/ (e.freei >= 0 /\ e.freei < 1 /\ e.proc \in {"CREATE", "MKDIR", "SYMLINK"})

(*--------------------------------------------------------------------------*)
(* Expected outcome class of a call: "OK" must succeed; "STALE" must fail as   *)
(* stale; "ERR" must fail; "ANY" may fail or succeed (if it succeeds the         *)
(* normal effect rules apply); "NOEFF" anything without effect, reply free.      *)

WithH(s, fh, then) ==
  LET c == HCls(s, fh) IN IF c = "live" THEN then ELSE IF c = "dead" THEN "STALE" ELSE "ERR"

ReqLen(e) == RMin(e.cnt, e.dlen)

NewNameExp(s, d, e) ==   \* common part of CREATE / MKDIR / SYMLINK / MKNOD
  IF s.objs[d].kind # DIR THEN "ERR"
  ELSE IF BadName(e.name) THEN "ERR"
  ELSE IF s.lim.pcknown /\ e.nlen > s.lim.namemax THEN "ERR"
  ELSE IF ~s.lim.pcknown /\ e.nlen > 100 THEN "ANY"
  ELSE "OK"

ExpCall(s, e) ==
  LET o == ObjOf(s, e.fh) IN
  CASE e.proc \in {"MNT", "UMNT"} /\ e.nlen > 1024 -> "ANY"    \* longer than MNTPATHLEN: not a well-formed MOUNT message
    [] e.proc \in {"NULL", "MNULL", "MNT", "UMNT", "UMNTALL", "DUMP", "EXPORT"} -> "OK"   \* MOUNT procedures: no effect
    [] e.proc \in {"GETATTR", "ACCESS", "FSINFO", "PATHCONF"} -> WithH(s, e.fh, "OK")
    [] e.proc \in {"MKNOD", "LINK", "FSSTAT"} -> "ERR"
    [] e.proc = "SETATTR" ->
         WithH(s, e.fh,
           IF ~e.setsize THEN "OK"
           ELSE IF s.objs[o].kind # REG THEN "ERR"
           ELSE IF e.sizesat THEN "ERR"
           ELSE IF ~s.lim.known THEN "ANY"
           ELSE IF e.size > s.lim.maxfs THEN "ERR" ELSE "OK")
    [] e.proc = "LOOKUP" ->
         WithH(s, e.fh,
           IF s.objs[o].kind # DIR THEN "ERR"
           ELSE IF e.name \in {".", ".."} \/ e.name \in Names(s.objs[o]) THEN "OK" ELSE "ERR")
    [] e.proc = "READLINK" -> WithH(s, e.fh, IF s.objs[o].kind = LNK THEN "OK" ELSE "ERR")
    [] e.proc = "READ" -> WithH(s, e.fh, IF s.objs[o].kind = REG THEN "OK" ELSE "ERR")
    [] e.proc = "WRITE" ->
         WithH(s, e.fh,
           IF s.objs[o].kind # REG THEN "ERR"
           ELSE IF e.cnt # e.dlen THEN "ANY"      \* count disagrees with data: refuse, or treat min as the request
           ELSE IF ~s.lim.known THEN "ANY"
           ELSE IF e.offsat THEN (IF e.cnt = 0 THEN "NOEFF" ELSE "ERR")
           ELSE IF e.off > s.lim.maxfs - ReqLen(e) THEN (IF e.cnt = 0 THEN "NOEFF" ELSE "ERR")
           ELSE IF e.cnt > s.lim.wtmax THEN "ANY"   \* refuse or short write
           ELSE "OK")
    [] e.proc = "COMMIT" ->
         WithH(s, e.fh,
           IF s.objs[o].kind # REG THEN "ERR"
           ELSE IF e.off = 0 /\ e.cnt = 0 /\ ~e.offsat THEN "OK" ELSE "ANY")
    [] e.proc = "CREATE" ->
         WithH(s, e.fh,
           LET b == NewNameExp(s, o, e) IN
           IF b # "OK" THEN b
           ELSE IF e.name \in Names(s.objs[o])
                THEN (IF e.how = 0 THEN "ANY" ELSE "ERR")       \* UNCHECKED may return the existing file
                ELSE IF e.how = 2 THEN "ANY" ELSE "OK")         \* EXCLUSIVE may be unsupported
    [] e.proc \in {"MKDIR", "SYMLINK"} ->
         WithH(s, e.fh,
           LET b == NewNameExp(s, o, e) IN
           IF b # "OK" THEN b
           ELSE IF e.name \in Names(s.objs[o]) THEN "ERR"
           ELSE IF e.proc = "SYMLINK" /\ (e.tlen = 0 \/ e.tlen > 1024) THEN "ANY"
           ELSE "OK")
    [] e.proc \in {"REMOVE", "RMDIR"} ->
         WithH(s, e.fh,
           IF s.objs[o].kind # DIR THEN "ERR"
           ELSE IF BadName(e.name) THEN "ERR"
           ELSE IF e.name \notin Names(s.objs[o]) THEN "ERR"
           ELSE LET c == s.objs[s.objs[o].ents[e.name]] IN
                IF c.kind = DIR /\ ~IsEmptyDir(c) THEN "ERR"
                ELSE IF e.proc = "RMDIR" /\ c.kind # DIR THEN "ERR"
                ELSE IF e.proc = "REMOVE" /\ c.kind = DIR THEN "ANY"   \* REMOVE of an empty directory: either
                ELSE "OK")
    [] e.proc = "RENAME" ->
         LET c1 == HCls(s, e.fh)  c2 == HCls(s, e.fh2)  t == ObjOf(s, e.fh2) IN
         IF c1 = "unknown" \/ c2 = "unknown" THEN "ERR"
         ELSE IF c1 = "dead" \/ c2 = "dead" THEN "STALE"
         ELSE IF s.objs[o].kind # DIR \/ s.objs[t].kind # DIR THEN "ERR"
         ELSE IF BadName(e.name) \/ BadName(e.name2) THEN "ERR"
         ELSE IF e.name \notin Names(s.objs[o]) THEN "ERR"
         ELSE IF s.lim.pcknown /\ e.nlen2 > s.lim.namemax THEN "ERR"
         ELSE IF ~s.lim.pcknown /\ e.nlen2 > 100 THEN "ANY"
         ELSE LET src == s.objs[o].ents[e.name] IN
              IF s.objs[src].kind = DIR /\ IsAncestorOrSelf(s.objs, src, t, 200) THEN "ERR"
              ELSE IF e.name2 \in Names(s.objs[t])
                   THEN LET tgt == s.objs[t].ents[e.name2] IN
                        IF tgt = src THEN "OK"
                        ELSE IF (s.objs[tgt].kind = DIR) # (s.objs[src].kind = DIR) THEN "ERR"
                        ELSE IF s.objs[tgt].kind = DIR /\ ~IsEmptyDir(s.objs[tgt]) THEN "ERR"
                        ELSE IF s.objs[tgt].kind # s.objs[src].kind THEN "ANY"  \* file over symlink etc.
                        ELSE "OK"
                   ELSE "OK"
    [] e.proc \in {"READDIR", "READDIRPLUS"} ->
         WithH(s, e.fh,
           IF s.objs[o].kind # DIR THEN "ERR"
           ELSE IF e.cookie # 0 /\ (o \notin DOMAIN s.cookies \/ e.cookie \notin s.cookies[o]) THEN "NOEFF"
           ELSE IF e.proc = "READDIR" /\ e.cnt < 400 THEN "ANY"          \* may be too small for one entry
           ELSE IF e.proc = "READDIRPLUS" /\ (e.maxcount < 800 \/ e.dircount < 300) THEN "ANY"
           ELSE "OK")
    [] OTHER -> "ERR"

(* a request that is ill-formed in itself may be refused for that before its handles are looked at *)
IllFormed(e) ==
  \/ e.proc \in {"CREATE", "MKDIR", "SYMLINK", "MKNOD", "REMOVE", "RMDIR"} /\ BadName(e.name)
  \/ e.proc = "RENAME" /\ (BadName(e.name) \/ BadName(e.name2))
  \/ e.proc = "CREATE" /\ e.how = 2

(* an expected success may fail for lack of space *)
Exp(s, e) == LET x == ExpCall(s, e) IN
             IF x = "OK" /\ Tight(e) THEN "ANY"
             ELSE IF x = "STALE" /\ IllFormed(e) THEN "ERR" ELSE x

StatusRules(s, e, x) ==
  CASE e.st = "PANIC" -> <<"ALL,C11:no-reply-PANIC">>
    [] e.st = "TIMEOUT" -> <<"ALL,C06,C11:no-reply-TIMEOUT">>
    [] x = "OK"    -> Fail(e.st # "OK", "C02,C19:refused-but-reference-succeeds")
    [] x = "STALE" -> IF e.st = "OK" THEN <<"C08:dead-handle-accepted">>
                      ELSE Fail(e.st # "STALE", "C08:dead-handle-not-reported-stale")
    [] x = "ERR"   -> Fail(e.st = "OK", "C02,C19:accepted-but-reference-refuses")
    [] OTHER -> <<>>

(*--------------------------------------------------------------------------*)
(* Reply rules and effects of a successful call                               *)

AttrRules(e, o, tag) ==   \* attributes in the reply are those of object record o
  IF ~e.hasattr THEN <<>>
  ELSE Fail(e.rtype # o.kind, tag \o ":attr-type")
       \o Fail(e.rid # o.id, tag \o ":attr-fileid")
       \o Fail(SizeOf(o) >= 0 /\ e.rsize # SizeOf(o), tag \o ":attr-size")

FreshRules(s, e) ==   \* a new object's handle and file id
  Fail(~e.hasfh, "C02:new-object-without-handle")
  \o Fail(e.hasfh /\ e.rfh \in s.issued, "C08:handle-reused")
  \o Fail(e.hasattr /\ \E x \in Ids(s) : s.objs[x].id = e.rid, "C02,C08:fileid-in-use")

(* the objs map after a successful call (identity for read-only calls) *)
EffObjs(s, e) ==
  LET o == ObjOf(s, e.fh) IN
  CASE e.proc = "SETATTR" /\ e.setsize ->
         [s.objs EXCEPT ![o].data = RTrunc(@, e.size)]
    [] e.proc = "WRITE" ->
         LET n == RMin(e.rcount, ReqLen(e)) IN
         [s.objs EXCEPT ![o].data = RWrite(@, e.off, RSlice(e.data, 0, n))]
    [] e.proc \in {"CREATE", "MKDIR", "SYMLINK"} ->
         IF e.name \in Names(s.objs[o]) THEN s.objs     \* UNCHECKED create of an existing file
         ELSE LET kind == IF e.proc = "CREATE" THEN REG ELSE IF e.proc = "MKDIR" THEN DIR ELSE LNK
                  (* initial attributes: a server may ignore the size sent with CREATE (go-nfsd does) or apply it - then it   *)
                  (* must be one SETATTR would accept, and the reply says which of the two happened                            *)
                  sized == e.proc = "CREATE" /\ e.setsize /\ ~e.sizesat /\ e.size > 0 /\ s.lim.known /\ e.size <= s.lim.maxfs
                           /\ e.hasattr /\ e.rsize = e.size
                  new  == [MkObj(kind, e.rfh, e.rid, IF kind = DIR THEN o ELSE 0)
                             EXCEPT !.target = e.target, !.tlen = e.tlen, !.data = IF sized THEN RTrunc(<<>>, e.size) ELSE <<>>]
              IN [s.objs EXCEPT ![o].ents = @ @@ (e.name :> s.next)] @@ (s.next :> new)
    [] e.proc \in {"REMOVE", "RMDIR"} ->
         LET c == s.objs[o].ents[e.name] IN
         Drop([s.objs EXCEPT ![o].ents = Remove(@, e.name)], Subtree(s.objs, c, 200))
    [] e.proc = "RENAME" ->
         LET t   == ObjOf(s, e.fh2)
             src == s.objs[o].ents[e.name]
             has == e.name2 \in Names(s.objs[t])
             tgt == IF has THEN s.objs[t].ents[e.name2] ELSE 0
         IN IF has /\ tgt = src THEN s.objs
            ELSE LET o1 == [s.objs EXCEPT ![o].ents = Remove(@, e.name)]
                     o2 == [o1 EXCEPT ![t].ents = (e.name2 :> src) @@ @]
                     o3 == IF s.objs[src].kind = DIR THEN [o2 EXCEPT ![src].parent = t] ELSE o2
                 IN IF has THEN Drop(o3, Subtree(s.objs, tgt, 200)) ELSE o3
    [] OTHER -> s.objs

(* names a listing of directory d may contain, with the object each denotes *)
EntObj(s, d, n) == IF n = "." THEN d ELSE IF n = ".." THEN s.objs[d].parent ELSE s.objs[d].ents[n]

PageRules(s, e, d) ==
  LET E  == e.ents
      ns == {E[i].name : i \in 1..Len(E)}
      ok == \A i \in 1..Len(E) : E[i].name \in {".", ".."} \cup Names(s.objs[d])
  IN Fail(Cardinality(ns) # Len(E), "C13:duplicate-name-in-page")
     \o Fail(Cardinality({E[i].cookie : i \in 1..Len(E)}) # Len(E), "C13:duplicate-cookie-in-page")
     \o Fail(~ok, "C02,C13:entry-not-in-directory")
     \o Fail(ok /\ \E i \in 1..Len(E) : E[i].id # s.objs[EntObj(s, d, E[i].name)].id, "C02,C13:entry-fileid")
     \o Fail(ok /\ \E i \in 1..Len(E) : E[i].plus /\
                LET x == s.objs[EntObj(s, d, E[i].name)] IN
                  \/ E[i].fh # x.fh \/ E[i].type # x.kind
                  \/ (SizeOf(x) >= 0 /\ E[i].size >= 0 /\ E[i].size # SizeOf(x)), "C02,C13:entry-handle-or-attributes")
                  (* size = -1: not compared. The attributes of a READDIRPLUS entry are read under that child's lock, one child   *)
                  (* at a time: in a concurrent history each is a read of its own, valid at some moment of the call, and the      *)
                  (* concurrent drivers record -1 for them (names, file ids, handles and types are still those of one state).    *)
     \o Fail(~e.reof /\ Len(E) = 0, "C13:empty-page-without-eof")
     \o Fail(\E i \in 1..Len(E) : E[i].cookie = 0, "C13:entry-cookie-is-the-start-cookie")

(* the enumeration session of directory d *)
SessOf(s, d) == IF d \in DOMAIN s.sess THEN s.sess[d]
                ELSE [active |-> FALSE, last |-> 0, seen |-> {}, through |-> {}, ever |-> {}, pages |-> 0]

SessRules(s, e, d) ==
  LET E   == e.ents
      ns  == {E[i].name : i \in 1..Len(E)}
      ss  == SessOf(s, d)
      cont == e.cookie # 0 /\ ss.active /\ e.cookie = ss.last
  IN IF ~cont THEN <<>>
     ELSE (* "exactly once" is promised for the entries that are there throughout; a name that was listed, then re-bound to    *)
          (* another object (RENAME over it: the new entry may sit in a later slot) or removed and created again, is a new  *)
          (* entry when it is listed again (choice 13). SessTrack takes such names out of `through`.                       *)
          Fail(ns \cap ss.seen \cap ss.through # {}, "C13:entry-returned-twice")
          \o Fail(~(ns \subseteq (ss.ever \cup {".", ".."})), "C13:entry-never-in-directory")
          \o Fail(e.reof /\ ~((ss.through \cap Names(s.objs[d])) \subseteq (ss.seen \cup ns)), "C02,C13:entry-missed")
          \o Fail(ss.pages > Cardinality(ss.ever) + 4, "C13:enumeration-does-not-end")

SessNext(s, e, d) ==
  LET E   == e.ents
      ns  == {E[i].name : i \in 1..Len(E)}
      ss  == SessOf(s, d)
      cur == Names(s.objs[d])
      last == IF Len(E) = 0 THEN 0 ELSE E[Len(E)].cookie
      cont == e.cookie # 0 /\ ss.active /\ e.cookie = ss.last
      new == IF e.cookie = 0
             THEN [active |-> ~e.reof /\ Len(E) > 0, last |-> last, seen |-> ns, through |-> cur, ever |-> cur, pages |-> 1]
             ELSE IF cont
             THEN [ss EXCEPT !.active = ~e.reof /\ Len(E) > 0, !.last = last, !.seen = @ \cup ns, !.pages = @ + 1]
             ELSE [ss EXCEPT !.active = FALSE]
  IN (d :> new) @@ s.sess

FirstPageRules(s, e, d) ==   \* a listing that starts at cookie 0 and reports eof is complete
  LET E == e.ents  ns == {E[i].name : i \in 1..Len(E)} IN
  Fail(e.cookie = 0 /\ e.reof /\ ~(Names(s.objs[d]) \subseteq ns), "C02,C13:entry-missed")

ReplyRules(s, e) ==
  LET o == ObjOf(s, e.fh) IN
  CASE e.proc = "GETATTR" -> Fail(~e.hasattr, "C02:getattr-without-attributes") \o AttrRules(e, s.objs[o], "C02")
    [] e.proc = "SETATTR" ->
         IF e.setsize THEN AttrRules(e, [s.objs[o] EXCEPT !.data = RTrunc(@, e.size)], "C02,C12")
         ELSE AttrRules(e, s.objs[o], "C02")
    [] e.proc = "LOOKUP" ->
         LET c == EntObj(s, o, e.name) IN
         Fail(e.rfh # s.objs[c].fh, "C02,C08:lookup-handle") \o AttrRules(e, s.objs[c], "C02")
    [] e.proc = "READLINK" -> Fail(e.rtarget # s.objs[o].target, "C02:readlink-target")
    [] e.proc = "READ" ->
         LET size == RLen(s.objs[o].data)
             want == IF e.offsat THEN <<>> ELSE RRead(s.objs[o].data, e.off, e.cnt)
             got  == e.rdata
             n    == RLen(got)
         IN Fail(n > RLen(want) \/ got # RSlice(want, 0, n), "C02,C12:read-data")
            \o Fail(n = 0 /\ RLen(want) > 0, "C02,C12:read-returns-nothing")      \* (also on a full disk: a hole reads as zeros)
            \o Fail(e.rcount # n, "C02:read-count")
            \o Fail(s.lim.known /\ s.lim.rtmax > 0 /\ n > s.lim.rtmax, "C11,C19:read-reply-larger-than-rtmax")
            \o Fail(e.reof /\ ~e.offsat /\ e.off + n < size, "C02:read-eof-early")
            \o Fail(~e.reof /\ (e.offsat \/ e.off >= size), "C02:read-eof-missing")
    [] e.proc = "WRITE" ->
         LET m == ReqLen(e)
             n == e.rcount
             new == [s.objs[o] EXCEPT !.data = RWrite(@, e.off, RSlice(e.data, 0, RMin(n, m)))]
         IN Fail(n > m \/ (m > 0 /\ n = 0 /\ ~Tight(e)) , "C02,C19:write-count")
            \o Fail(e.rcommitted < e.stable, "C07:committed-weaker-than-requested")
            \o Fail(~s.unstable /\ e.rcommitted = 0, "C07:unstable-reply-with-option-off")
            \o AttrRules(e, new, "C02")
            \o Fail(s.verf # "" /\ e.rverf # s.verf, "C07:verifier-changed-within-instance")
            \o Fail(e.rverf \in s.oldverfs, "C07:verifier-same-as-earlier-instance")
    [] e.proc = "COMMIT" ->
         Fail(s.verf # "" /\ e.rverf # s.verf, "C07:verifier-changed-within-instance")
         \o Fail(e.rverf \in s.oldverfs, "C07:verifier-same-as-earlier-instance")
    [] e.proc = "CREATE" /\ e.name \in Names(s.objs[o]) ->
         LET c == s.objs[s.objs[o].ents[e.name]] IN
         Fail(c.kind # REG, "C02:create-over-non-file")
         \o Fail(e.hasfh /\ e.rfh # c.fh, "C02:create-existing-handle") \o AttrRules(e, c, "C02")
    [] e.proc \in {"CREATE", "MKDIR", "SYMLINK"} ->
         FreshRules(s, e)
         \o Fail(e.hasattr /\ e.rtype # (IF e.proc = "CREATE" THEN REG ELSE IF e.proc = "MKDIR" THEN DIR ELSE LNK), "C02:new-object-type")
         \o Fail(e.hasattr /\ e.proc = "CREATE" /\ e.rsize # 0, "C02,C12:new-file-not-empty")
         \o Fail(e.hasattr /\ e.proc = "SYMLINK" /\ e.rsize # e.tlen, "C02:symlink-size")
    [] e.proc \in {"READDIR", "READDIRPLUS"} ->
         PageRules(s, e, o) \o SessRules(s, e, o) \o FirstPageRules(s, e, o)
    [] e.proc = "MNT" -> Fail(e.rfh # s.objs[RootId].fh, "C02,C16:mount-returns-other-than-the-root-handle")
    [] e.proc \in {"FSINFO"} ->
         Fail(s.lim.known /\ (e.wtmax # s.lim.wtmax \/ e.maxfs # s.lim.maxfs), "C19:limits-changed")
    [] e.proc \in {"PATHCONF"} -> Fail(s.lim.pcknown /\ e.namemax # s.lim.namemax, "C19:limits-changed")
    [] OTHER -> <<>>

(*--------------------------------------------------------------------------*)
(* Check and Next                                                              *)

Check(s, e) ==
  LET x  == Exp(s, e)
      sr == StatusRules(s, e, x)
  IN IF sr # <<>> THEN sr
     ELSE IF e.st = "OK" /\ x # "NOEFF" THEN ReplyRules(s, e) ELSE <<>>

Mutating(e) == e.proc \in {"SETATTR", "WRITE", "CREATE", "MKDIR", "SYMLINK", "REMOVE", "RMDIR", "RENAME"}

(* keep active sessions in step with a changed directory. A directory entry is a name WITH the object it denotes: *)
(* a name that is re-bound to another object (RENAME over it, REMOVE + CREATE) is a removed entry and an added one,  *)
(* neither of which was in the directory throughout the enumeration.                                                *)
SessTrack(sess, old, objs) ==
  [d \in DOMAIN sess |->
     IF ~sess[d].active THEN sess[d]
     ELSE IF d \notin DOMAIN objs THEN [sess[d] EXCEPT !.active = FALSE]
     ELSE [sess[d] EXCEPT !.through = {n \in @ \cap DOMAIN objs[d].ents : n \in DOMAIN old[d].ents /\ old[d].ents[n] = objs[d].ents[n]},
                          !.ever = @ \cup DOMAIN objs[d].ents]]

LastWrite(histw, o) ==   \* index of the last history entry that wrote object o (0 = none)
  LET I == {i \in 1..Len(histw) : histw[i] = o} IN
  IF I = {} THEN 0 ELSE CHOOSE i \in I : \A j \in I : j <= i

NextCore(s, e) ==
  IF e.st # "OK" \/ Exp(s, e) = "NOEFF" THEN s
  ELSE
  LET o     == ObjOf(s, e.fh)
      objs2 == IF Mutating(e) THEN EffObjs(s, e) ELSE s.objs
      chg   == objs2 # s.objs
      isnew == e.proc \in {"CREATE", "MKDIR", "SYMLINK"} /\ chg
      stableAck == IF e.proc = "WRITE" THEN e.rcommitted >= 1 ELSE TRUE
      (* durability: an acknowledged change is durable unless it was acknowledged UNSTABLE *)
      s1 == [s EXCEPT !.objs = objs2,
                      !.next = IF isnew THEN @ + 1 ELSE @,
                      !.issued = IF isnew THEN @ \cup {e.rfh} ELSE @]
      s2 == IF ~chg THEN s1
            ELSE IF stableAck THEN [s1 EXCEPT !.durable = objs2, !.hist = <<>>, !.histw = <<>>, !.histn = <<>>]
            ELSE [s1 EXCEPT !.hist = Append(@, objs2), !.histw = Append(@, o), !.histn = Append(@, s.nops + 1)]
      s3 == IF e.proc = "COMMIT"
            THEN LET k == LastWrite(s2.histw, o) IN
                 IF k = 0 THEN s2
                 ELSE [s2 EXCEPT !.durable = s2.hist[k],
                                 !.hist = SubSeq(s2.hist, k + 1, Len(s2.hist)),
                                 !.histw = SubSeq(s2.histw, k + 1, Len(s2.histw)),
                                 !.histn = SubSeq(s2.histn, k + 1, Len(s2.histn))]
            ELSE s2
      s4 == IF chg THEN [s3 EXCEPT !.sess = SessTrack(@, s.objs, objs2),
                                   !.cookies = [d \in DOMAIN @ \cap DOMAIN objs2 |-> @[d]]]
            ELSE s3
      s5 == IF e.proc \in {"READDIR", "READDIRPLUS"}
            THEN [s4 EXCEPT !.sess = SessNext(s4, e, o),
                            !.cookies = (o :> ((IF o \in DOMAIN @ THEN @[o] ELSE {})
                                               \cup {e.ents[i].cookie : i \in 1..Len(e.ents)})) @@ @]
            ELSE s4
      s6 == IF e.proc = "FSINFO" THEN [s5 EXCEPT !.lim.known = TRUE, !.lim.wtmax = e.wtmax, !.lim.maxfs = e.maxfs, !.lim.rtmax = e.rtmax]
            ELSE IF e.proc = "PATHCONF" THEN [s5 EXCEPT !.lim.pcknown = TRUE, !.lim.namemax = e.namemax]
            ELSE IF e.proc \in {"WRITE", "COMMIT"} /\ s5.verf = "" THEN [s5 EXCEPT !.verf = e.rverf]
            ELSE s5
  IN s6

Next(s, e) == [NextCore(s, e) EXCEPT !.nops = s.nops + 1]

(* Bulk population of a directory (event "bulk"): n CREATEs of new names in one directory, all acknowledged NFS3_OK, *)
(* issued by the driver without one trace event each (directories of tens of thousands of entries). e.map: name ->   *)
(* index, e.fhs / e.ids: the handle and file id returned for that index. The effect is that of the n calls: n new    *)
(* empty regular files, all durable (CREATE is a stable operation).                                                   *)
BulkOk(s, e) == /\ ObjOf(s, e.fh) # 0 /\ s.objs[ObjOf(s, e.fh)].kind = DIR
                /\ DOMAIN e.map \cap Names(s.objs[ObjOf(s, e.fh)]) = {}
                /\ s.hist = <<>>
Bulk(s, e) ==
  LET o == ObjOf(s, e.fh)
      n == Len(e.fhs)
      ents2 == [nm \in DOMAIN e.map |-> s.next + e.map[nm] - 1]
      new == [i \in s.next..(s.next + n - 1) |-> MkObj(REG, e.fhs[i - s.next + 1], e.ids[i - s.next + 1], 0)]
      objs2 == [s.objs EXCEPT ![o].ents = @ @@ ents2] @@ new
  IN [s EXCEPT !.objs = objs2, !.next = @ + n, !.issued = @ \cup {e.fhs[i] : i \in 1..n},
               !.durable = objs2, !.sess = SessTrack(@, s.objs, objs2), !.nops = @ + n]

(*--------------------------------------------------------------------------*)
(* Dumps: the whole tree as seen through the API                               *)

RECURSIVE Resolve(_, _, _, _)
(* object reached from o by following path p from index i; 0 if absent *)
Resolve(objs, o, p, i) ==
  IF i > Len(p) THEN o
  ELSE IF objs[o].kind # DIR \/ p[i] \notin DOMAIN objs[o].ents THEN 0
  ELSE Resolve(objs, objs[o].ents[p[i]], p, i + 1)

WinOK(data, w) == w.runs = RSlice(data, w.off, w.off + w.len)

DumpObjRules(objs, d) ==
  LET x == Resolve(objs, RootId, d.path, 1) IN
  IF x = 0 THEN <<"dump:unexpected-object">>
  ELSE LET o == objs[x] IN
       Fail(d.kind # o.kind, "dump:kind")
       \o Fail(d.fh # o.fh, "dump:handle")
       \o Fail(d.id # o.id, "dump:fileid")
       \o Fail(o.kind = REG /\ (d.size # RLen(o.data) \/ \E i \in 1..Len(d.wins) : ~WinOK(o.data, d.wins[i])), "dump:content")
       \o Fail(o.kind = LNK /\ d.target # o.target, "dump:target")
       \o Fail(o.kind = DIR /\ {d.names[i] : i \in 1..Len(d.names)} # DOMAIN o.ents, "dump:names")

(* rules violated by dump record dm when the abstract tree is objs *)
DumpRules(objs, dm) ==
  IF ~dm.ok THEN <<"dump:failed">>
  ELSE LET D == dm.objs
           bad == {i \in 1..Len(D) : DumpObjRules(objs, D[i]) # <<>>}
       IN Fail(Len(D) # Cardinality(DOMAIN objs), "dump:object-count")
          \o (IF bad = {} THEN <<>> ELSE DumpObjRules(objs, D[CHOOSE i \in bad : \A j \in bad : i <= j]))

DumpMatches(objs, dm) == DumpRules(objs, dm) = <<>>

(* for diagnostics: the first dumped object that does not match, with what the reference has *)
DumpBad(objs, dm) ==
  LET D == dm.objs
      bad == {i \in 1..Len(D) : DumpObjRules(objs, D[i]) # <<>>}
  IN IF bad = {} THEN <<>>
     ELSE LET i == CHOOSE i \in bad : \A j \in bad : i <= j
              x == Resolve(objs, RootId, D[i].path, 1)
          IN [path |-> D[i].path, got |-> D[i],
              want |-> IF x = 0 THEN <<>> ELSE [size |-> SizeOf(objs[x]), data |-> objs[x].data, names |-> DOMAIN objs[x].ents]]

(*--------------------------------------------------------------------------*)
(* Restart and crash: the state becomes the durable state or any later         *)
(* acknowledged-unstable prefix; bound from the dump taken after recovery.     *)

Candidates(s, extra) == <<s.durable>> \o s.hist \o extra

(* index of the first candidate matching the dump, 0 if none *)
MatchIdx(cands, dm) ==
  LET I == {i \in 1..Len(cands) : DumpMatches(cands[i], dm)} IN
  IF I = {} THEN 0 ELSE CHOOSE i \in I : \A j \in I : i <= j

AfterRecovery(s, objs) ==
  [s EXCEPT !.objs = objs, !.durable = objs, !.hist = <<>>, !.histw = <<>>, !.histn = <<>>,
            !.sess = EmptyFn, !.boot = @ + 1,
            !.cookies = [d \in DOMAIN @ \cap DOMAIN objs |-> @[d]],
            !.oldverfs = IF s.verf = "" THEN @ ELSE @ \cup {s.verf}, !.verf = ""]
=============================================================================
