------------------------------ MODULE LockTrace ------------------------------
(* Lock discipline (the mechanism behind C14): a cached inode is read or written *)
(* only by a goroutine whose transaction holds that inode's lock. The trace is    *)
(* the sequence of lock events (got/rel, from fstxn.VerifHook) and inode-method   *)
(* entries (acc, from inode.VerifAccess), totally ordered by one counter taken    *)
(* under one mutex, each tagged with the goroutine that executed it. Accesses to  *)
(* shared memory outside the inodes are observed by running the same histories     *)
(* under Go's race detector: a report about two accesses in server code is an       *)
(* event of the trace ("race") and is rejected.                                      *)
EXTENDS Integers, Sequences, FiniteSets, TLC, Json, IOUtils
TraceFile == IF "TRACE" \in DOMAIN IOEnv THEN IOEnv.TRACE ELSE "trace.ndjson"
Trace == ndJsonDeserialize(TraceFile)
VARIABLES l, held, seg, nacc
vars == <<l, held, seg, nacc>>
TInit == l = 1 /\ held = <<>> /\ seg = 0 /\ nacc = 0
HeldBy(g) == IF g \in DOMAIN held THEN held[g] ELSE {}
Report(line, rule, e) == PrintT("VIOL " \o ToJson([line |-> line, seg |-> seg, rules |-> <<rule>>, ev |-> "lk", proc |-> e.what, i |-> e.inum]))
Consume ==
  /\ l <= Len(Trace) /\ l' = l + 1
  /\ LET e == Trace[l] IN
     IF e.ev = "reset" THEN held' = <<>> /\ seg' = e.seg /\ nacc' = nacc
     ELSE IF e.ev = "race" THEN      \* a report of Go's race detector about two accesses in server code (appended by the engine)
          /\ PrintT("VIOL " \o ToJson([line |-> l, seg |-> seg, rules |-> <<"C14:unsynchronised-accesses-observed-by-the-race-detector">>,
                                        ev |-> "race", proc |-> e.what, i |-> 0]))
          /\ UNCHANGED <<held, seg, nacc>>
     ELSE IF e.ev # "lk" THEN UNCHANGED <<held, seg, nacc>>
     ELSE /\ seg' = seg
          /\ CASE e.k = "got" -> held' = (e.g :> (HeldBy(e.g) \cup {e.inum})) @@ held /\ nacc' = nacc
               [] e.k = "rel" ->
                    /\ (IF e.inum \in HeldBy(e.g) THEN TRUE ELSE Report(l, "C14,C06:lock-released-by-a-goroutine-that-does-not-hold-it", e))
                    /\ held' = (e.g :> (HeldBy(e.g) \ {e.inum})) @@ held /\ nacc' = nacc
               [] e.k = "acc" ->
                    /\ (IF e.inum \in HeldBy(e.g) THEN TRUE ELSE Report(l, "C14:cached-inode-accessed-without-its-lock", e))
                    /\ UNCHANGED held /\ nacc' = nacc + 1
               [] OTHER -> UNCHANGED <<held, nacc>>
TSpec == TInit /\ [][Consume]_vars
Post == PrintT("CONSUMED " \o ToString(TLCGet("stats").diameter - 1) \o " OF " \o ToString(Len(Trace)))
        /\ TLCGet("stats").diameter = Len(Trace) + 1
=============================================================================
