------------------------------ MODULE KvsLin ------------------------------
(* C18, concurrent part: linearizability of concurrent histories of the real    *)
(* kvs against KvsSpec, and crash-consistency of those histories.                *)
(* Lines: reset | inv (call with its reply) | ret | kcrashprobe | kdump (final). *)
(* A history is accepted iff the search consumes all its lines (hw register).    *)
(* A crash probe placed after the k-th history event carries the state recovered *)
(* from a crash image cut between the k-th and (k+1)-th event: it must equal the *)
(* state of SOME linearization prefix reachable at that line - every call that   *)
(* returned is in it, a call in flight is in it entirely or not at all. The      *)
(* probe line is consumed on every path; a path whose state matches sets the     *)
(* probe's register; Post prints the probes no path matched (evaluated in a      *)
(* second run with RELAX=1, see below).                                          *)
EXTENDS KvsSpec, Json, IOUtils

TraceFile == IF "TRACE" \in DOMAIN IOEnv THEN IOEnv.TRACE ELSE "trace.ndjson"
Trace == ndJsonDeserialize(TraceFile)
N == Len(Trace)

VARIABLES l, f, pend, seg, rng
vars == <<l, f, pend, seg, rng>>
ToSet(q) == {q[i] : i \in 1..Len(q)}
NoPend == <<>>
(* RELAX=1: replies of read-only calls are not checked. Used for the crash probes: the property promises that calls   *)
(* that RETURNED survive and that a call in flight applies entirely or not at all; it does not promise that a value    *)
(* a reader saw from a call still in flight survives the crash (kvs.Get does return such values).                      *)
Relax == "RELAX" \in DOMAIN IOEnv /\ IOEnv.RELAX = "1"
IsRead(c) == c.op = "get"
PReg(i) == 100000 + i

LInit == /\ l = 1 /\ f = <<>> /\ rng = <<0, 0>> /\ pend = NoPend /\ seg = -1
         /\ \A i \in 1..N : Trace[i].ev = "reset" => TLCSet(1000 + Trace[i].seg, 0)
         /\ \A i \in 1..N : Trace[i].ev = "kcrashprobe" => TLCSet(PReg(i), 0)

IsReset(i) == i <= N /\ Trace[i].ev = "reset"
RECURSIVE NextReset(_)
NextReset(i) == IF i > N \/ IsReset(i) THEN i ELSE NextReset(i + 1)
Mark(i) == TLCSet(1000 + seg, IF TLCGet(1000 + seg) < i THEN i ELSE TLCGet(1000 + seg))

DoReset ==
  /\ IsReset(l)
  /\ LET e == Trace[l] IN
     /\ f' = KInit(ToSet(e.keys)) /\ rng' = <<e.lo, e.hi>> /\ pend' = NoPend /\ seg' = e.seg /\ l' = l + 1
     /\ TLCSet(1000 + e.seg, IF TLCGet(1000 + e.seg) < l + 1 THEN l + 1 ELSE TLCGet(1000 + e.seg))

Inv ==
  /\ l <= N /\ Trace[l].ev = "inv"
  /\ LET e == Trace[l] IN
     /\ e.cl \notin DOMAIN pend
     /\ pend' = (e.cl :> [call |-> e.call, done |-> FALSE]) @@ pend
     /\ l' = l + 1 /\ UNCHANGED <<f, seg, rng>>
     /\ Mark(l + 1)

Lin(c) ==
  /\ c \in DOMAIN pend /\ ~pend[c].done
  /\ (Relax /\ IsRead(pend[c].call)) \/ KCheck(f, pend[c].call, rng[1], rng[2]) = <<>>
  /\ f' = KNext(f, pend[c].call, rng[1], rng[2])
  /\ pend' = [pend EXCEPT ![c].done = TRUE]
  /\ UNCHANGED <<l, seg, rng>>

Ret ==
  /\ l <= N /\ Trace[l].ev = "ret"
  /\ LET e == Trace[l] IN
     /\ e.cl \in DOMAIN pend /\ pend[e.cl].done
     /\ pend' = [c \in DOMAIN pend \ {e.cl} |-> pend[c]]
     /\ l' = l + 1 /\ UNCHANGED <<f, seg, rng>>
     /\ Mark(l + 1)

Probe ==
  /\ l <= N /\ Trace[l].ev = "kcrashprobe"
  /\ (IF Trace[l].ok /\ KDumpOK(f, Trace[l].dump) THEN TLCSet(PReg(l), 1) ELSE TRUE)
  /\ l' = l + 1 /\ UNCHANGED <<f, pend, seg, rng>>
  /\ Mark(l + 1)

Final ==
  /\ l <= N /\ Trace[l].ev = "kdump"
  /\ DOMAIN pend = {}
  /\ KDumpOK(f, Trace[l])
  /\ l' = l + 1 /\ UNCHANGED <<f, pend, seg, rng>>
  /\ Mark(l + 1)

Skip ==
  /\ l <= N /\ ~IsReset(l) /\ seg >= 0
  /\ l' = NextReset(l) /\ f' = <<>> /\ pend' = NoPend /\ seg' = -2 /\ rng' = <<0, 0>>

LNext == DoReset \/ Inv \/ Ret \/ Probe \/ Final \/ Skip \/ \E c \in DOMAIN pend : Lin(c)
LSpec == LInit /\ [][LNext]_vars

Post == /\ PrintT("LINES " \o ToString(N))
        /\ \A i \in 1..N : Trace[i].ev = "reset" =>
               PrintT("HW " \o ToString(Trace[i].seg) \o " " \o ToString(i) \o " " \o ToString(TLCGet(1000 + Trace[i].seg)))
        /\ \A i \in 1..N : (Trace[i].ev = "kcrashprobe" /\ TLCGet(PReg(i)) = 0) => PrintT("UNMATCHED " \o ToString(i))
=============================================================================
