------------------------------ MODULE KvsSpec ------------------------------
(* kvs/: keys are block addresses, values whole blocks (here: the byte a        *)
(* constant block is filled with; 0 = never written). A multi-put installs all  *)
(* of its pairs (later pairs of the same key win) or none and is durable when    *)
(* it returns; a get returns the latest value.                                   *)
EXTENDS Integers, Sequences, FiniteSets, TLC

KInit(keys) == [k \in keys |-> 0]

RECURSIVE ApplyPairs(_, _, _)
ApplyPairs(kv, ps, i) == IF i > Len(ps) THEN kv ELSE ApplyPairs([kv EXCEPT ![ps[i][1]] = ps[i][2]], ps, i + 1)

KFail(cond, rule) == IF cond THEN <<rule>> ELSE <<>>

JournalCap == 511    \* a put of more distinct blocks than the journal holds may be refused as a whole

InRange(k, lo, hi) == k >= lo /\ k < hi
PutKeys(e) == {e.pairs[i][1] : i \in 1..Len(e.pairs)}

(* lo..hi-1 is the valid key range. An out-of-range key must be refused (kvs panics by design) without effect. *)
KCheck(kv, e, lo, hi) ==
  IF e.op = "put" THEN
       IF \E k \in PutKeys(e) : ~InRange(k, lo, hi)
       THEN KFail(e.st = "OK" /\ e.ok, "C18:put-with-key-outside-the-store-accepted")
       ELSE IF e.st # "OK" THEN <<"ALL,C18:no-reply-" \o e.st>>
       ELSE KFail(~e.ok /\ Cardinality(PutKeys(e)) <= JournalCap, "C18:put-failed")
  ELSE IF ~InRange(e.key, lo, hi)
       THEN KFail(e.st = "OK" /\ e.ok /\ e.key # hi, "C18:get-with-key-outside-the-store-accepted")  \* key = hi: latitude (see DESIGN)
       ELSE IF e.st # "OK" THEN <<"ALL,C18:no-reply-" \o e.st>>
       ELSE KFail(~e.ok, "C18:get-failed") \o KFail(e.val # kv[e.key], "C18:get-returns-other-than-latest-put")

KNext(kv, e, lo, hi) ==
  IF e.op = "put" /\ e.ok /\ e.st = "OK" /\ \A k \in PutKeys(e) : InRange(k, lo, hi) THEN ApplyPairs(kv, e.pairs, 1) ELSE kv

KDumpOK(kv, d) == \A i \in 1..Len(d.kv) : d.kv[i][1] \in DOMAIN kv /\ kv[d.kv[i][1]] = d.kv[i][2]
=============================================================================
