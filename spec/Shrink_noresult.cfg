SPECIFICATION Spec
CONSTANTS
  MaxB = 5
  K = 3
  Budget = 1
  KeepSsz = TRUE
  MaxOps = 8
  Slack = 0
  UseResult = FALSE
  Recheck = TRUE
INVARIANTS TypeOK NoOrphan Reclaimed FreeIsEmpty NoStale
CHECK_DEADLOCK FALSE
