SPECIFICATION Spec
CONSTANTS
  Names = {"a", "b", "c"}
  NSlots = 4
  MaxOps = 3
  Compact = TRUE
  CookieIsOffset = FALSE
INVARIANTS NoDup Complete Progress
CHECK_DEADLOCK FALSE
