------------------------------- MODULE XdrVec -------------------------------
(* Prints the test vectors: one JSON line per (top-level type, value) with the bytes Xdr.tla assigns. *)
EXTENDS XdrNfs, Json
CONSTANT Depth
Tops == LET RECURSIVE H(_) H(R) == IF R = {} THEN <<>> ELSE LET x == CHOOSE y \in R : TRUE IN <<x>> \o H(R \ {x}) IN H(TopTypes)
Emit(tn) == LET vs == Var(NfsTypes, tn, Depth) IN
            \A j \in 1..Len(vs) : PrintT("VEC " \o ToJson([type |-> tn, val |-> vs[j], bytes |-> Enc(NfsTypes, tn, vs[j])]))
(* the list-shaped results keep their names, handles and attributes several levels further down than any other type: *)
(* for them the variations go deeper (every field of an entry, first and second entry of a list)                        *)
Lists == {"READDIR3res", "READDIRPLUS3res", "exportsopt3", "mountopt3"} \cap TopTypes
EmitDeep(tn) == LET vs == Var(NfsTypes, tn, Depth + 4)
                    shallow == Var(NfsTypes, tn, Depth) IN
                \A j \in 1..Len(vs) : (\E k \in 1..Len(shallow) : shallow[k] = vs[j])
                                       \/ PrintT("VEC " \o ToJson([type |-> tn, val |-> vs[j], bytes |-> Enc(NfsTypes, tn, vs[j])]))
ASSUME \A i \in 1..Len(Tops) : Emit(Tops[i])
ASSUME \A i \in 1..Len(Tops) : Tops[i] \in Lists => EmitDeep(Tops[i])
ASSUME PrintT("PROCS " \o ToJson(Procs))
VARIABLE x
Init == x = 0
Next == UNCHANGED x
=============================================================================
