------------------------------- MODULE XdrVec -------------------------------
(* Prints the test vectors: one JSON line per (top-level type, value) with the bytes Xdr.tla assigns. *)
EXTENDS XdrNfs, Json
CONSTANT Depth
Tops == LET RECURSIVE H(_) H(R) == IF R = {} THEN <<>> ELSE LET x == CHOOSE y \in R : TRUE IN <<x>> \o H(R \ {x}) IN H(TopTypes)
Emit(tn) == LET vs == Var(NfsTypes, tn, Depth) IN
            \A j \in 1..Len(vs) : PrintT("VEC " \o ToJson([type |-> tn, val |-> vs[j], bytes |-> Enc(NfsTypes, tn, vs[j])]))
ASSUME \A i \in 1..Len(Tops) : Emit(Tops[i])
ASSUME PrintT("PROCS " \o ToJson(Procs))
VARIABLE x
Init == x = 0
Next == UNCHANGED x
=============================================================================
