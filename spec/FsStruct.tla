------------------------------ MODULE FsStruct ------------------------------
(* The on-disk / in-memory STRUCTURE of go-nfsd as state predicates: an fsck    *)
(* written in TLA+. Input: a snapshot record S produced by the harness' decoder  *)
(* (harness/drv/snap.go) from the logical disk of a server (home blocks          *)
(* overlaid with the log) and, for a running server, its caches and allocators.  *)
(* The predicates speak only about what properties C04 C05 C10 C12 C15 state.    *)
(* Each operator returns the sequence of violated rules (<<>> = holds).          *)
EXTENDS Integers, Sequences, FiniteSets, TLC

BS == 4096
SLOT == 128
NAMEMAX == 112

SMin(a, b) == IF a < b THEN a ELSE b
SMax(a, b) == IF a > b THEN a ELSE b
SFail(cond, rule) == IF cond THEN <<rule>> ELSE <<>>

(* interval lists << <<lo, hi>>, ... >> denote the union of [lo, hi) *)
Covers(iv, lo, hi) == lo >= hi \/ \E i \in 1..Len(iv) : iv[i][1] <= lo /\ hi <= iv[i][2]
Clip(iv, lo, hi) == UNION {SMax(iv[i][1], lo)..(SMin(iv[i][2], hi) - 1) : i \in 1..Len(iv)}
IvSet(iv) == UNION {iv[i][1]..(iv[i][2] - 1) : i \in 1..Len(iv)}

Blocks(n) == (n + BS - 1) \div BS

Range(f) == {f[i] : i \in 1..Len(f)}

(* inode number -> decoded inode *)
(* (large snapshots carry ipos, the position of every inode number in S.inodes: the search below is quadratic) *)
IMap(S) == LET I == 1..Len(S.inodes) IN
           IF "ipos" \in DOMAIN S /\ Len(S.ipos) > 0
           THEN [x \in {S.inodes[k].inum : k \in I} |-> S.inodes[S.ipos[x + 1]]]
           ELSE [x \in {S.inodes[k].inum : k \in I} |-> S.inodes[CHOOSE k \in I : S.inodes[k].inum = x]]
DMap(S) == LET I == 1..Len(S.dirs) IN
           [x \in {S.dirs[k].inum : k \in I} |-> S.dirs[CHOOSE k \in I : S.dirs[k].inum = x]]

Live(S) == {S.inodes[k].inum : k \in {j \in 1..Len(S.inodes) : S.inodes[j].kind # 0}}

Shrinking(in) == in.ssz > Blocks(in.size)
Top(in) == SMax(Blocks(in.size), in.ssz)

PtrsOf(in) == {in.data[j][2] : j \in 1..Len(in.data)} \cup {in.ind[j][1] : j \in 1..Len(in.ind)}
NPtrs(in) == Len(in.data) + Len(in.ind)

(* number of pointers of the first k inodes, as the number of pointer occurrences <<inode index, list, position>> *)
(* (a recursive sum is quadratic in TLC for tens of thousands of inodes)                                          *)
SumN(S, k) == Cardinality(UNION {{<<i, 1, j>> : j \in 1..Len(S.inodes[i].data)} \cup {<<i, 2, j>> : j \in 1..Len(S.inodes[i].ind)} : i \in 1..k})

Owned(S) == UNION {PtrsOf(S.inodes[k]) : k \in 1..Len(S.inodes)}

(*--------------------------------------------------------------------------*)
LayoutRules(S) ==
  SFail(~(/\ S.nlog > 0 /\ S.nlog <= S.bbmstart
          /\ S.nbbm > 0 /\ S.bbmstart + S.nbbm <= S.ibmstart
          /\ S.ibmstart + 1 <= S.inostart
          /\ S.ninode > 1 /\ S.inostart + (S.ninode + 31) \div 32 <= S.datastart
          /\ S.datastart < S.size
          /\ S.nbbm * 32768 >= S.size), "C15:regions-overlap-or-leave-the-disk")

PtrRules(S) ==
  SFail(\E k \in 1..Len(S.inodes) : S.inodes[k].bad # "", "C04:block-map-undecodable")
  \o SFail(\E k \in 1..Len(S.inodes) : \E p \in PtrsOf(S.inodes[k]) : p < S.datastart \/ p >= S.size,
           "C04:pointer-outside-data-region")
  \o SFail(SumN(S, Len(S.inodes)) # Cardinality(Owned(S)), "C04:block-with-two-owners")

SizeRules(S) ==
  SFail(\E k \in 1..Len(S.inodes) : LET in == S.inodes[k] IN
          \E j \in 1..Len(in.data) : in.data[j][1] >= Top(in), "C04:block-beyond-size")
  \o SFail(\E k \in 1..Len(S.inodes) : LET in == S.inodes[k] IN
          in.kind = 0 /\ ~Shrinking(in) /\ NPtrs(in) > 0, "C04,C05:free-inode-holds-blocks")
  \o SFail(\E k \in 1..Len(S.inodes) : S.inodes[k].kind \notin {0, 1, 2, 5}, "C04:unknown-inode-kind")
  \o SFail(\E k \in 1..Len(S.dirs) : S.dirs[k].short, "C04:directory-size-not-a-multiple-of-slot")

BitmapRules(S) ==
  SFail(~Covers(S.bbm, 0, S.datastart), "C04,C15:metadata-blocks-not-marked-used")
  \o SFail(~Covers(S.bbm, S.size, S.nbbm * 32768), "C04,C15:bits-beyond-the-disk-not-marked-used")
  \o SFail(Clip(S.bbm, S.datastart, S.size) # Owned(S) \cap (S.datastart..(S.size - 1)),
           "C04,C05,C15:block-bitmap-differs-from-blocks-owned")
  \o SFail(IvSet(S.ibm) # {0, 1} \cup Live(S), "C04,C05,C15:inode-bitmap-differs-from-inodes-in-use")

(* directories form a tree rooted at inode 1 in which every live inode has exactly one name *)
Ents(d) == {j \in 1..Len(d.slots) : d.slots[j].name \notin {".", ".."}}

RECURSIVE Reach(_, _, _, _)
Reach(D, frontier, seen, fuel) ==
  IF frontier = {} \/ fuel = 0 THEN seen
  ELSE LET nxt == UNION {{D[x].slots[j].inum : j \in Ents(D[x])} : x \in frontier \cap DOMAIN D}
       IN Reach(D, nxt \ seen, seen \cup nxt, fuel - 1)

TreeRules(S) ==
  LET D == DMap(S)
      M == IMap(S)
      live == Live(S)
      (* every entry <<directory, slot index>>, the inodes they name; "exactly one name" without counting per inode: *)
      (* no inode other than the root is named by two entries iff there are as many such entries as inodes named    *)
      P == UNION {{<<dd, jj>> : jj \in Ents(D[dd])} : dd \in DOMAIN D}
      named == {D[p[1]].slots[p[2]].inum : p \in P}
      twice == Cardinality({p \in P : D[p[1]].slots[p[2]].inum # 1}) # Cardinality(named \ {1})
      dot(d, nm) == {j \in 1..Len(D[d].slots) : D[d].slots[j].name = nm}
      parentOK(d) == \/ d = 1 /\ \A j \in dot(d, "..") : D[d].slots[j].inum = 1
                     \/ d # 1 /\ \A j \in dot(d, "..") :
                          LET p == D[d].slots[j].inum IN
                          p \in DOMAIN D /\ \E q \in Ents(D[p]) : D[p].slots[q].inum = d
  IN SFail(1 \notin live \/ 1 \notin DOMAIN D, "C04:no-root-directory")
     \o SFail(\E d \in DOMAIN D : \E j \in Ents(D[d]) : D[d].slots[j].inum \notin live, "C04:entry-names-a-free-inode")
     \o SFail(twice \/ ~((live \ {1}) \subseteq named), "C04:live-object-without-exactly-one-name")
     \o SFail(1 \in live /\ 1 \in named, "C04:root-has-a-name")
     \o SFail(1 \in DOMAIN D /\ Reach(D, {1}, {1}, 300) # live, "C04:objects-not-reachable-from-root")
     \o SFail(\E d \in DOMAIN D : Cardinality(dot(d, ".")) # 1 \/ Cardinality(dot(d, "..")) # 1
                \/ \E j \in dot(d, ".") : D[d].slots[j].inum # d \/ D[d].slots[j].slot # 0
                \/ \E j2 \in dot(d, "..") : D[d].slots[j2].slot # 1, "C04:dot-or-dotdot-wrong")
     \o SFail(\E d \in DOMAIN D : ~parentOK(d), "C04:dotdot-is-not-the-parent")
     \o SFail(\E d \in DOMAIN D : d \notin DOMAIN M \/ M[d].kind # 2, "C04:directory-decoding")

(* link counts: go-nfsd has no LINK, so a file, symlink or other non-directory has exactly one link; a directory has *)
(* a base count plus one per subdirectory (its '..'); the base (1 in go-nfsd, 2 in POSIX) is read from the root, so *)
(* the rule states the consistency the property's "'.' and '..' are right" asks for, not a convention. A live     *)
(* inode with link count 0 makes every request that touches it panic (fstxn.GetInodeInum).                        *)
LinkRules(S) ==
  LET D == DMap(S)
      M == IMap(S)
      live == Live(S)
      sub(d) == Cardinality({j \in Ents(D[d]) : D[d].slots[j].inum \in DOMAIN D})
      base == IF 1 \in DOMAIN D /\ 1 \in DOMAIN M THEN M[1].nlink - sub(1) ELSE 1
  IN SFail(\E i \in live : M[i].nlink < 1, "C04,C11:live-inode-with-link-count-zero")
     \o SFail(\E i \in live \ DOMAIN D : M[i].nlink # 1, "C04,C05:link-count-of-a-non-directory-is-not-one")
     \o SFail(base \notin {1, 2} \/ \E d \in DOMAIN D \cap DOMAIN M : M[d].nlink # base + sub(d),
              "C04,C05:directory-link-count-differs-from-subdirectories")

NameRules(S) ==
  SFail(\E k \in 1..Len(S.dirs) : LET d == S.dirs[k] IN
          Cardinality({d.slots[j].name : j \in 1..Len(d.slots)}) # Len(d.slots), "C04:duplicate-name")
  \o SFail(\E k \in 1..Len(S.dirs) : LET d == S.dirs[k] IN
          \E j \in 1..Len(d.slots) : d.slots[j].nlen < 1 \/ d.slots[j].nlen > NAMEMAX, "C04:ill-formed-name")

ZeroRules(S) ==
  SFail(~(Clip(S.nonzero, S.datastart, S.size) \subseteq Clip(S.bbm, S.datastart, S.size)), "C12:free-block-not-zero")

IdleRules(S) ==
  (* after a crash a half-freed object may remain until its number is reused or it is touched *)
  IF ~S.idle \/ S.who # "run" THEN <<>>
  ELSE SFail(\E k \in 1..Len(S.inodes) : Shrinking(S.inodes[k]), "C05:half-freed-object-when-idle")

ZeroIno == [kind |-> 0, nlink |-> 0, gen |-> 0, size |-> 0, ssz |-> 0, tm |-> <<0, 0, 0, 0>>, blks |-> <<0, 0, 0, 0, 0, 0, 0, 0, 0, 0>>]
Proj(in) == [kind |-> in.kind, nlink |-> in.nlink, gen |-> in.gen, size |-> in.size, ssz |-> in.ssz, tm |-> in.tm, blks |-> in.blks]

CacheRules(S) ==
  IF ~S.running THEN <<>>
  ELSE LET M == IMap(S)  D == DMap(S) IN
       SFail(\E k \in 1..Len(S.icache) : LET c == S.icache[k] IN
               Proj(c) # (IF c.inum \in DOMAIN M THEN Proj(M[c.inum]) ELSE ZeroIno), "C10,C09:cached-inode-differs-from-disk")
       \o SFail(\E k \in 1..Len(S.icache) : LET c == S.icache[k] IN
               c.hasdc /\ c.kind = 2 /\ c.inum \in DOMAIN D /\
               {<<c.dc[j].name, c.dc[j].inum, c.dc[j].off>> : j \in 1..Len(c.dc)}
                 # {<<D[c.inum].slots[j].name, D[c.inum].slots[j].inum, D[c.inum].slots[j].slot * SLOT>> : j \in 1..Len(D[c.inum].slots)},
               "C10,C09:name-cache-differs-from-directory")

AllocRules(S) ==
  IF ~S.running \/ ~S.idle THEN <<>>
  ELSE SFail(S.balloc # S.bbm, "C05,C10,C09:block-allocator-differs-from-bitmap")
       \o SFail(S.ialloc # S.ibm, "C05,C10,C09:inode-allocator-differs-from-bitmap")

StructRules(S) ==
  LET a == LayoutRules(S) \o PtrRules(S) IN
  IF a # <<>> THEN a
  ELSE SizeRules(S) \o BitmapRules(S) \o TreeRules(S) \o LinkRules(S) \o NameRules(S) \o ZeroRules(S) \o IdleRules(S)
       \o CacheRules(S) \o AllocRules(S)

(* what a failed operation must leave unchanged: everything except the caches' LRU order *)
(* an entry (name, inode) that is in directory d in both snapshots sits in the same slot *)
(* (names are unique within a directory: an entry common to both has one slot in each, so it moved iff fewer    *)
(* <<name, inode, slot>> triples than <<name, inode>> pairs are common)                                          *)
EntryMoved(D1, D2) ==
  \E a \in 1..Len(D1), b \in 1..Len(D2) :
     /\ D1[a].inum = D2[b].inum
     /\ LET T(d) == {<<d.slots[x].name, d.slots[x].inum, d.slots[x].slot>> : x \in {y \in 1..Len(d.slots) : d.slots[y].inum # 0}}
            K(d) == {<<d.slots[x].name, d.slots[x].inum>> : x \in {y \in 1..Len(d.slots) : d.slots[y].inum # 0}}
        IN Cardinality(K(D1[a]) \cap K(D2[b])) # Cardinality(T(D1[a]) \cap T(D2[b]))
Frame(S) == [bbm |-> S.bbm, ibm |-> S.ibm, inodes |-> S.inodes, dirs |-> S.dirs, nonzero |-> S.nonzero,
             balloc |-> S.balloc, ialloc |-> S.ialloc]
=============================================================================
