SPECIFICATION Spec
CONSTANTS
  Blocks = {"b1", "b2", "bm"}
  MaxTxn = 3
  ReadRaw = FALSE
INVARIANTS CrashOK InstallOK
PROPERTY AllocAtStart
CHECK_DEADLOCK FALSE
