SPECIFICATION TSpec
CONSTANTS Cap = 511  ND = 8  NB = 512  NArea = 4  Reserve = 7  CountBitmaps = TRUE  Holes = FALSE
  Lens = {1}  NewSizes = {0}  Pres = {1, 2, 3, 4}  Posts = {0, 1, 2, 3, 4, 5}
POSTCONDITION Post
CHECK_DEADLOCK FALSE
