SPECIFICATION Spec
CONSTANTS
  Names = {"a", "b", "c"}
  NSlots = 5
  MaxOps = 4
  Compact = FALSE
  CookieIsOffset = FALSE
INVARIANTS NoDup Complete Progress
CHECK_DEADLOCK FALSE
