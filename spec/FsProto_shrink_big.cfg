SPECIFICATION Spec
CONSTANTS
  NI = 3
  Names = {"a", "b"}
  Clients = {1, 2}
  RecheckGen = TRUE
  SortLocks = TRUE
  PlusLocksKids = FALSE
  Scenario = "shrink"
  MaxTries = 5
  RecheckName = TRUE
  LowestFree = FALSE
  OneOp = {}
INVARIANTS TypeOK Refines NoSelfWait NoDeadlock LocksReleased TakenReturned RetryBound
CHECK_DEADLOCK TRUE
