INIT Init
NEXT Next
CONSTANT Depth = 3
