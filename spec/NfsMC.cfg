SPECIFICATION MCSpec
CONSTANTS
  MaxObjs = 3
  MaxNext = 4
  MaxPath = 4
  MaxHist = 2
  AvoidDirCross = TRUE
CONSTRAINT Bound
VIEW View
INVARIANTS CanonAccepted TreeOK HandlesOK DurableOK ContentOK
PROPERTY RefusedUnchanged
CHECK_DEADLOCK FALSE
