-------------------------------- MODULE Flush --------------------------------
(* What "stable" rests on in go-nfsd (fstxn/commit.go, nfs COMMIT) and go-journal   *)
(* (obj.Log: doCommit, CommitWait, Flush): transactions are appended to an in-memory *)
(* log, a logger thread makes a growing prefix of it durable, and a caller that        *)
(* promises stability waits until the prefix covers a POSITION. CommitWait(true)        *)
(* waits for the position its own append returned. Log.Flush() waits for the SHARED      *)
(* position field that every doCommit overwrites - also the doCommit of a transaction     *)
(* that is refused as too large, which sets it to 0 (a FIXME in the dependency).           *)
(*   Promise   whatever a returned request has promised to be stable is durable:            *)
(*             a stable request its own transaction and everything appended before it,      *)
(*             COMMIT everything appended before it was called                               *)
(* COMMIT variants: "own" (as built: COMMIT appends a small transaction of its own and       *)
(* waits for it), "flush" (the original: Log.Flush() - negative control, the repaired         *)
(* defect); StableVariant "late" (a seeded change: append without waiting, release the         *)
(* locks, then Log.Flush()) is the second negative control.                                    *)
(*   Whole     the durable prefix (what a crash at this instant recovers) holds every request   *)
(*             entirely or not at all: go-nfsd appends ONE transaction per request, and the     *)
(*             logger's prefix grows by whole transactions. StableVariant "split" (a seeded     *)
(*             change, r18e: a large WRITE logged in pieces, all but the last unstable, in the   *)
(*             belief that they reach the disk in one group commit) is the negative control:     *)
(*             the logger - or the journal itself, when the in-memory log is full - makes the    *)
(*             first piece durable alone.                                                         *)
EXTENDS Integers, Sequences, FiniteSets, TLC
CONSTANTS Clients, MaxTxn, CommitVariant, StableVariant

VARIABLES len,       \* transactions in the in-memory log
          durable,   \* length of the durable prefix
          pos,       \* the shared position field of obj.Log
          pc, my,    \* per client: what it is doing, the position it waits for (0 = the shared field, read when waiting)
          mark,      \* per client: the log length its request has to cover
          promised,  \* the largest log position some returned request promised to be stable
          owner,     \* the request every appended transaction belongs to
          open       \* requests that have appended some of their transactions and not yet all
vars == <<len, durable, pos, pc, my, mark, promised, owner, open>>

Init == len = 0 /\ durable = 0 /\ pos = 0 /\ pc = [c \in Clients |-> "idle"] /\ my = [c \in Clients |-> 0]
        /\ mark = [c \in Clients |-> 0] /\ promised = 0 /\ owner = <<>> /\ open = {}

Max(a, b) == IF a > b THEN a ELSE b
(* an UNSTABLE write: appended, answered at once, promises nothing *)
New == len + 1      \* a fresh request id (the position of its first transaction)
Unstable(c) == /\ pc[c] = "idle" /\ len < MaxTxn /\ len' = len + 1 /\ pos' = len + 1 /\ owner' = Append(owner, New)
               /\ UNCHANGED <<durable, pc, my, mark, promised, open>>
(* a request the journal refuses as too large: nothing appended, the shared position reset *)
Refused(c) == /\ pc[c] = "idle" /\ pos' = 0 /\ UNCHANGED <<len, durable, pc, my, mark, promised, owner, open>>
(* a stable request (FILE_SYNC write, CREATE ...): appends, then waits *)
StableBegin(c) ==
  /\ pc[c] = "idle" /\ StableVariant # "split" /\ len < MaxTxn /\ len' = len + 1 /\ pos' = len + 1 /\ owner' = Append(owner, New)
  /\ pc' = [pc EXCEPT ![c] = "wait"] /\ mark' = [mark EXCEPT ![c] = len + 1]
  /\ my' = [my EXCEPT ![c] = IF StableVariant = "late" THEN 0 ELSE len + 1]     \* "late": Log.Flush() after the locks are gone
  /\ UNCHANGED <<durable, promised, open>>
(* "split": the request is logged in two pieces; the first is committed without waiting, the second as the request asked *)
SplitFirst(c) ==
  /\ pc[c] = "idle" /\ StableVariant = "split" /\ len + 1 < MaxTxn /\ len' = len + 1 /\ pos' = len + 1 /\ owner' = Append(owner, New)
  /\ open' = open \cup {New} /\ pc' = [pc EXCEPT ![c] = "piece"] /\ mark' = [mark EXCEPT ![c] = New]
  /\ UNCHANGED <<durable, my, promised>>
SplitSecond(c) ==
  /\ pc[c] = "piece" /\ len' = len + 1 /\ pos' = len + 1 /\ owner' = Append(owner, mark[c])
  /\ open' = open \ {mark[c]} /\ pc' = [pc EXCEPT ![c] = "wait"] /\ mark' = [mark EXCEPT ![c] = len + 1]
  /\ my' = [my EXCEPT ![c] = len + 1] /\ UNCHANGED <<durable, promised>>
(* COMMIT *)
CommitBegin(c) ==
  /\ pc[c] = "idle"
  /\ IF CommitVariant = "own"
     THEN /\ len < MaxTxn /\ len' = len + 1 /\ pos' = len + 1 /\ owner' = Append(owner, New)
          /\ my' = [my EXCEPT ![c] = len + 1] /\ mark' = [mark EXCEPT ![c] = len + 1]
     ELSE /\ UNCHANGED <<len, pos, owner>> /\ my' = [my EXCEPT ![c] = 0] /\ mark' = [mark EXCEPT ![c] = len]
  /\ pc' = [pc EXCEPT ![c] = "wait"] /\ UNCHANGED <<durable, promised, open>>
(* the wait ends when the durable prefix covers the position waited for; then the request returns *)
Return(c) ==
  /\ pc[c] = "wait"
  /\ durable >= (IF my[c] = 0 THEN pos ELSE my[c])
  /\ promised' = Max(promised, mark[c])
  /\ pc' = [pc EXCEPT ![c] = "idle"] /\ UNCHANGED <<len, durable, pos, my, mark, owner, open>>
Logger == /\ durable < len /\ \E d \in (durable + 1)..len : durable' = d
          /\ UNCHANGED <<len, pos, pc, my, mark, promised, owner, open>>

Next == (\E c \in Clients : Unstable(c) \/ Refused(c) \/ StableBegin(c) \/ SplitFirst(c) \/ SplitSecond(c) \/ CommitBegin(c) \/ Return(c)) \/ Logger
Spec == Init /\ [][Next]_vars

Promise == promised <= durable
Whole == \A i \in 1..durable : owner[i] \notin open /\ \A j \in (durable + 1)..len : owner[j] # owner[i]
=============================================================================
