-------------------------------- MODULE Flush --------------------------------
(* What "stable" rests on in go-nfsd (fstxn/commit.go, nfs COMMIT) and go-journal   *)
(* (obj.Log: doCommit, CommitWait, Flush): transactions are appended to an in-memory *)
(* log, a logger thread makes a growing prefix of it durable, and a caller that        *)
(* promises stability waits until the prefix covers a POSITION. CommitWait(true)        *)
(* waits for the position its own append returned. Log.Flush() waits for the SHARED      *)
(* position field that every doCommit overwrites - also the doCommit of a transaction     *)
(* that is refused as too large, which sets it to 0 (a FIXME in the dependency).           *)
(*   Promise   whatever a returned request has promised to be stable is durable:            *)
(*             a stable request its own transaction and everything appended before it,      *)
(*             COMMIT everything appended before it was called                               *)
(* COMMIT variants: "own" (as built: COMMIT appends a small transaction of its own and       *)
(* waits for it), "flush" (the original: Log.Flush() - negative control, the repaired         *)
(* defect); StableVariant "late" (a seeded change: append without waiting, release the         *)
(* locks, then Log.Flush()) is the second negative control.                                    *)
EXTENDS Integers, Sequences, FiniteSets, TLC
CONSTANTS Clients, MaxTxn, CommitVariant, StableVariant

VARIABLES len,       \* transactions in the in-memory log
          durable,   \* length of the durable prefix
          pos,       \* the shared position field of obj.Log
          pc, my,    \* per client: what it is doing, the position it waits for (0 = the shared field, read when waiting)
          mark,      \* per client: the log length its request has to cover
          promised   \* the largest log position some returned request promised to be stable
vars == <<len, durable, pos, pc, my, mark, promised>>

Init == len = 0 /\ durable = 0 /\ pos = 0 /\ pc = [c \in Clients |-> "idle"] /\ my = [c \in Clients |-> 0]
        /\ mark = [c \in Clients |-> 0] /\ promised = 0

Max(a, b) == IF a > b THEN a ELSE b
(* an UNSTABLE write: appended, answered at once, promises nothing *)
Unstable(c) == /\ pc[c] = "idle" /\ len < MaxTxn /\ len' = len + 1 /\ pos' = len + 1
               /\ UNCHANGED <<durable, pc, my, mark, promised>>
(* a request the journal refuses as too large: nothing appended, the shared position reset *)
Refused(c) == /\ pc[c] = "idle" /\ pos' = 0 /\ UNCHANGED <<len, durable, pc, my, mark, promised>>
(* a stable request (FILE_SYNC write, CREATE ...): appends, then waits *)
StableBegin(c) ==
  /\ pc[c] = "idle" /\ len < MaxTxn /\ len' = len + 1 /\ pos' = len + 1
  /\ pc' = [pc EXCEPT ![c] = "wait"] /\ mark' = [mark EXCEPT ![c] = len + 1]
  /\ my' = [my EXCEPT ![c] = IF StableVariant = "late" THEN 0 ELSE len + 1]     \* "late": Log.Flush() after the locks are gone
  /\ UNCHANGED <<durable, promised>>
(* COMMIT *)
CommitBegin(c) ==
  /\ pc[c] = "idle"
  /\ IF CommitVariant = "own"
     THEN /\ len < MaxTxn /\ len' = len + 1 /\ pos' = len + 1
          /\ my' = [my EXCEPT ![c] = len + 1] /\ mark' = [mark EXCEPT ![c] = len + 1]
     ELSE /\ UNCHANGED <<len, pos>> /\ my' = [my EXCEPT ![c] = 0] /\ mark' = [mark EXCEPT ![c] = len]
  /\ pc' = [pc EXCEPT ![c] = "wait"] /\ UNCHANGED <<durable, promised>>
(* the wait ends when the durable prefix covers the position waited for; then the request returns *)
Return(c) ==
  /\ pc[c] = "wait"
  /\ durable >= (IF my[c] = 0 THEN pos ELSE my[c])
  /\ promised' = Max(promised, mark[c])
  /\ pc' = [pc EXCEPT ![c] = "idle"] /\ UNCHANGED <<len, durable, pos, my, mark>>
Logger == /\ durable < len /\ \E d \in (durable + 1)..len : durable' = d
          /\ UNCHANGED <<len, pos, pc, my, mark, promised>>

Next == (\E c \in Clients : Unstable(c) \/ Refused(c) \/ StableBegin(c) \/ CommitBegin(c) \/ Return(c)) \/ Logger
Spec == Init /\ [][Next]_vars

Promise == promised <= durable
=============================================================================
