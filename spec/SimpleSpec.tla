----------------------------- MODULE SimpleSpec -----------------------------
(* SimpleNFS (simple/): 30 files (inode numbers 2..31) of at most 4096 bytes.   *)
(* Same style as NfsSpec: Check(s, e) = violated rules, Next(s, e) = next state. *)
EXTENDS Integers, Sequences, FiniteSets, TLC, Rle

MaxSz == 4096
Valid(i) == i >= 2 /\ i < 32
SInit == [i \in 2..31 |-> <<>>]          \* file contents (run-length encoded)

SFail(cond, rule) == IF cond THEN <<rule>> ELSE <<>>

SExp(f, e) ==
  CASE e.proc = "NULL" -> "OK"
    [] e.proc = "GETATTR" -> IF e.ino = 1 \/ Valid(e.ino) THEN "OK" ELSE "ERR"
    [] e.proc = "SETATTR" -> IF ~Valid(e.ino) THEN "ERR"
                             ELSE IF ~e.setsize THEN "OK"
                             ELSE IF e.sizesat \/ e.size > MaxSz THEN "ERR" ELSE "OK"
    [] e.proc = "READ" -> IF Valid(e.ino) THEN "OK" ELSE "ERR"
    [] e.proc = "WRITE" -> IF ~Valid(e.ino) THEN "ERR"
                           ELSE IF e.cnt # e.dlen THEN "ERR"                       \* mismatched count
                           ELSE IF e.offsat \/ e.off + e.cnt > MaxSz THEN "ERR"     \* beyond 4096 bytes
                           ELSE IF e.off > RLen(f[e.ino]) THEN "ERR"                \* would leave a hole
                           ELSE "OK"
    [] e.proc = "COMMIT" -> IF Valid(e.ino) THEN "OK" ELSE "ERR"
    [] e.proc \in {"LOOKUP", "ACCESS", "FSINFO", "READDIR", "PATHCONF", "FSSTAT"} -> "ANY"   \* not part of the statement
    [] OTHER -> "ERR"                                                                  \* unsupported procedures

SStatus(e, x) ==
  CASE e.st \in {"PANIC", "TIMEOUT"} -> <<"ALL,C17,C11:no-reply-" \o e.st>>
    [] x = "OK" -> SFail(e.st # "OK", "C17:refused-but-specification-succeeds")
    [] x = "ERR" -> SFail(e.st = "OK", "C17:accepted-but-specification-refuses")
    [] OTHER -> <<>>

SReply(f, e) ==
  CASE e.proc = "GETATTR" /\ Valid(e.ino) -> SFail(~e.hasattr \/ e.rsize # RLen(f[e.ino]) \/ e.rtype # 1, "C17:getattr")
    [] e.proc = "READ" ->
         LET c == f[e.ino]  size == RLen(c)
             want == IF e.offsat THEN <<>> ELSE RRead(c, e.off, e.cnt)
             n == RLen(want)
         IN SFail(e.rdata # want \/ e.rcount # n, "C17:read-data")
            \o SFail(e.reof # (e.offsat \/ e.off >= size \/ e.off + n >= size), "C17:read-eof-flag")
    [] e.proc = "WRITE" -> SFail(e.rcount # e.cnt, "C17:write-count") \o SFail(e.rcommitted # 2, "C17:write-not-file-sync")
    [] OTHER -> <<>>

SCheck(f, e) ==
  LET x == SExp(f, e)  sr == SStatus(e, x) IN
  IF sr # <<>> THEN sr ELSE IF e.st = "OK" /\ x = "OK" THEN SReply(f, e) ELSE <<>>

SNext(f, e) ==
  IF e.st # "OK" \/ SExp(f, e) # "OK" THEN f
  ELSE CASE e.proc = "WRITE" -> [f EXCEPT ![e.ino] = RWrite(@, e.off, e.data)]
         [] e.proc = "SETATTR" /\ e.setsize -> [f EXCEPT ![e.ino] = RTrunc(@, e.size)]
         [] OTHER -> f

SDumpOK(f, d) ==
  /\ Len(d.files) = 30
  /\ \A k \in 1..Len(d.files) : LET x == d.files[k] IN
        x.ok /\ x.ino \in DOMAIN f /\ x.size = RLen(f[x.ino]) /\ x.runs = f[x.ino]
=============================================================================
