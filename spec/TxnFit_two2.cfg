\* negative control (the original condition: two bitmap blocks assumed), scaled: journal of 24 blocks, 2 direct pointers, index blocks of 22 pointers (as in the code, a file that an RPC frees
\* completely inside its own transaction has no double-indirect block), four bitmap areas, holes anywhere
SPECIFICATION Spec
CONSTANTS Cap = 24  ND = 2  NB = 22  NArea = 2  Reserve = 5  CountBitmaps = FALSE  Holes = TRUE
  Lens = {1, 2, 3, 5, 12, 17, 18, 19, 20, 21, 22, 23, 24, 25, 26, 40, 46, 47, 48, 68, 69, 70}  NewSizes = {0, 1, 2, 10, 23, 24, 25, 46, 47}
  Pres = {1, 2, 3, 4}  Posts = {0, 1, 2}
INVARIANTS Fits Progress
CHECK_DEADLOCK FALSE
