SPECIFICATION Spec
CONSTANTS Clients = {1, 2}  MaxTxn = 4  CommitVariant = "own"  StableVariant = "split"
INVARIANTS Promise Whole
CHECK_DEADLOCK FALSE
