------------------------------ MODULE BlockMap ------------------------------
(* The block map of an inode, transcribed from inode/inode.go (bmap, indbmap) and *)
(* inode/shrink.go (Shrink, indshrink) for a small tree: ND direct pointers, one    *)
(* indirect block of NB pointers, one double-indirect block of NB x NB. A file is    *)
(* written block by block (a write of several blocks that runs out of space after     *)
(* its first block commits what it has done: a short write), truncated (freeing from  *)
(* ShrinkSize down to the size) and removed. Checked exhaustively over all sequences   *)
(* of writes at all indices with every amount of free space, truncations and removal: *)
(*   NoLeak      blocks marked used = blocks reachable from the inode                  *)
(*   Covered     every reachable block - data or index - is one that freeing from       *)
(*               max(size, ShrinkSize) downwards will visit                              *)
(*   EmptyAtZero after truncation to 0 (or removal) nothing is reachable                 *)
(* Negative control UndoFresh = FALSE: an index block allocated for a block that could   *)
(* then not be allocated is kept (the repaired defect: it stayed beyond the size and     *)
(* was never freed).                                                                     *)
EXTENDS Integers, Sequences, FiniteSets, TLC
CONSTANTS ND, NB, NBlocks, UndoFresh, MaxOps

Ids == 1..NBlocks
MaxIdx == ND + NB + NB * NB
NoSlots == [i \in 0..(NB - 1) |-> 0]

VARIABLES dir, ind, dind,   \* the inode's pointers: dir[0..ND-1], the indirect root, the double-indirect root
          store,            \* index blocks: id -> [0..NB-1 -> id | 0]
          free,             \* the allocator
          size, ssz, nops,
          other             \* blocks that belong to other files (what limits the free space)
vars == <<dir, ind, dind, store, free, size, ssz, nops, other>>

Init == /\ dir = [i \in 0..(ND - 1) |-> 0] /\ ind = 0 /\ dind = 0 /\ store = [b \in Ids |-> NoSlots]
        /\ free \in {1..k : k \in 1..NBlocks} /\ other = Ids \ free /\ size = 0 /\ ssz = 0 /\ nops = 0

Pick(f) == CHOOSE b \in f : \A c \in f : b <= c       \* the allocator hands out the lowest free number

(* st = [dir, ind, dind, store, free]; map index bn to a block, allocating what is missing. Result: [st, blk] (blk = 0: failed) *)
St == [dir |-> dir, ind |-> ind, dind |-> dind, store |-> store, free |-> free]

Leaf(st) == IF st.free = {} THEN [st |-> st, blk |-> 0] ELSE [st |-> [st EXCEPT !.free = @ \ {Pick(st.free)}], blk |-> Pick(st.free)]

(* indbmap at level 1: root may be 0 (then it is allocated: fresh) *)
Ind1(st, root, o) ==
  IF root = 0 /\ st.free = {} THEN [st |-> st, blk |-> 0, root |-> 0]
  ELSE LET fresh == root = 0
           r  == IF fresh THEN Pick(st.free) ELSE root
           s1 == IF fresh THEN [st EXCEPT !.free = @ \ {r}, !.store[r] = NoSlots] ELSE st
           cur == s1.store[r][o]
       IN IF cur # 0 THEN [st |-> s1, blk |-> cur, root |-> r]
          ELSE LET lf == Leaf(s1) IN
               IF lf.blk = 0
               THEN IF fresh /\ UndoFresh THEN [st |-> [s1 EXCEPT !.free = @ \cup {r}], blk |-> 0, root |-> 0]   \* give the index block back
                    ELSE [st |-> s1, blk |-> 0, root |-> r]
               ELSE [st |-> [lf.st EXCEPT !.store[r][o] = lf.blk], blk |-> lf.blk, root |-> r]

(* indbmap at level 2 *)
Ind2(st, root, off) ==
  IF root = 0 /\ st.free = {} THEN [st |-> st, blk |-> 0, root |-> 0]
  ELSE LET fresh == root = 0
           r  == IF fresh THEN Pick(st.free) ELSE root
           s1 == IF fresh THEN [st EXCEPT !.free = @ \ {r}, !.store[r] = NoSlots] ELSE st
           o  == off \div NB
           nxt == s1.store[r][o]
           sub == Ind1(s1, nxt, off % NB)
       IN IF sub.blk = 0
          THEN IF fresh /\ UndoFresh THEN [st |-> [sub.st EXCEPT !.free = @ \cup {r}], blk |-> 0, root |-> 0]
               ELSE [st |-> (IF sub.root # nxt THEN [sub.st EXCEPT !.store[r][o] = sub.root] ELSE sub.st), blk |-> 0, root |-> r]
          ELSE [st |-> (IF sub.root # nxt THEN [sub.st EXCEPT !.store[r][o] = sub.root] ELSE sub.st), blk |-> sub.blk, root |-> r]

Bmap(st, bn) ==
  IF bn < ND
  THEN IF st.dir[bn] # 0 THEN [st |-> st, blk |-> st.dir[bn]]
       ELSE LET lf == Leaf(st) IN IF lf.blk = 0 THEN lf ELSE [st |-> [lf.st EXCEPT !.dir[bn] = lf.blk], blk |-> lf.blk]
  ELSE IF bn - ND < NB
  THEN LET r == Ind1(st, st.ind, bn - ND) IN [st |-> [r.st EXCEPT !.ind = r.root], blk |-> r.blk]
  ELSE LET r == Ind2(st, st.dind, bn - ND - NB) IN [st |-> [r.st EXCEPT !.dind = r.root], blk |-> r.blk]

(* Shrink: one step frees block index k = ssz - 1 (transcription of Shrink/indshrink) *)
FreeIdx(st, k) ==
  IF k < ND THEN [st EXCEPT !.free = @ \cup ({st.dir[k]} \ {0}), !.dir[k] = 0]
  ELSE IF k - ND < NB
  THEN IF st.ind = 0 THEN st
       ELSE LET o == k - ND  leaf == st.store[st.ind][o]
                s1 == IF leaf # 0 THEN [st EXCEPT !.free = @ \cup {leaf}, !.store[st.ind][o] = 0] ELSE st
            IN IF o = 0 THEN [s1 EXCEPT !.free = @ \cup {st.ind}, !.ind = 0] ELSE s1      \* the root goes with position 0
  ELSE IF st.dind = 0 THEN st
       ELSE LET off == k - ND - NB  o == off \div NB  i == off % NB  l1 == st.store[st.dind][o]
                s1 == IF l1 = 0 THEN st
                      ELSE LET leaf == st.store[l1][i]
                               a == IF leaf # 0 THEN [st EXCEPT !.free = @ \cup {leaf}, !.store[l1][i] = 0] ELSE st
                           IN IF i = 0 THEN [a EXCEPT !.free = @ \cup {l1}, !.store[st.dind][o] = 0] ELSE a
            IN IF o = 0 /\ i = 0 THEN [s1 EXCEPT !.free = @ \cup {st.dind}, !.dind = 0] ELSE s1

RECURSIVE ShrinkTo(_, _, _)
ShrinkTo(st, from, to) == IF from > to THEN ShrinkTo(FreeIdx(st, from - 1), from - 1, to) ELSE st

Put(st) == dir' = st.dir /\ ind' = st.ind /\ dind' = st.dind /\ store' = st.store /\ free' = st.free

(* WRITE of n blocks starting at index bn: fails as a whole when the first block cannot be mapped, else commits what it did *)
RECURSIVE WriteFrom(_, _, _, _)
WriteFrom(st, bn, n, done) ==
  IF n = 0 \/ bn >= MaxIdx THEN [st |-> st, done |-> done]
  ELSE LET r == Bmap(st, bn) IN
       IF r.blk = 0 THEN [st |-> (IF done = 0 THEN st ELSE r.st), done |-> done]     \* the failed mapping's effects stay only in a partial write
       ELSE WriteFrom(r.st, bn + 1, n - 1, done + 1)
Write(bn, n) ==
  /\ (MaxOps = 0 \/ nops < MaxOps) /\ ssz <= size       \* getShrink: no write while a truncation is pending
  /\ LET w == WriteFrom(St, bn, n, 0) IN
     /\ w.done > 0
     /\ Put(w.st) /\ size' = IF bn + w.done > size THEN bn + w.done ELSE size
  /\ nops' = (IF MaxOps = 0 THEN nops ELSE nops + 1) /\ UNCHANGED <<ssz, other>>
(* a WRITE whose first mapping fails is aborted: memory and disk as before - except, in the negative control, nothing: the abort restores everything *)
Truncate(n) ==
  /\ (MaxOps = 0 \/ nops < MaxOps) /\ n # size
  /\ IF n < size
     THEN LET from == IF ssz < size THEN size ELSE ssz IN Put(ShrinkTo(St, from, n)) /\ ssz' = n
     ELSE UNCHANGED <<dir, ind, dind, store, free>> /\ ssz' = IF ssz <= size THEN n ELSE ssz
  /\ size' = n /\ nops' = (IF MaxOps = 0 THEN nops ELSE nops + 1) /\ UNCHANGED other

Next == (\E bn \in 0..(MaxIdx - 1), n \in 1..2 : Write(bn, n)) \/ (\E n \in 0..MaxIdx : Truncate(n))
Spec == Init /\ [][Next]_vars

Kids(b) == {store[b][i] : i \in 0..(NB - 1)} \ {0}
Reach == LET d0 == {dir[i] : i \in 0..(ND - 1)} \ {0}
             i1 == IF ind = 0 THEN {} ELSE {ind} \cup Kids(ind)
             l1 == IF dind = 0 THEN {} ELSE Kids(dind)
             i2 == IF dind = 0 THEN {} ELSE {dind} \cup l1 \cup UNION {Kids(b) : b \in l1}
         IN d0 \cup i1 \cup i2
NoLeak == (Ids \ free) \ other = Reach
Top == IF size > ssz THEN size ELSE ssz
Covered == /\ \A i \in 0..(ND - 1) : dir[i] # 0 => i < Top
           /\ (ind # 0 => Top > ND)
           /\ (dind # 0 => Top > ND + NB)
           /\ (ind # 0 => \A o \in 0..(NB - 1) : store[ind][o] # 0 => Top > ND + o)
           /\ (dind # 0 => \A o \in 0..(NB - 1) : store[dind][o] # 0 =>
                   /\ Top > ND + NB + o * NB
                   /\ \A i \in 0..(NB - 1) : store[store[dind][o]][i] # 0 => Top > ND + NB + o * NB + i)
EmptyAtZero == (size = 0 /\ ssz = 0) => Reach = {}
=============================================================================
