SPECIFICATION MCSpec
CONSTANTS
  MaxObjs = 4
  MaxNext = 7
  MaxPath = 9
  MaxHist = 3
  AvoidDirCross = TRUE
CONSTRAINT Bound
ACTION_CONSTRAINT EmitFull
CHECK_DEADLOCK FALSE
