--------------------------------- MODULE Xdr ---------------------------------
(* XDR (RFC 4506) encoding over a type-descriptor table TT (type name ->      *)
(* descriptor) and value trees, and a generator of covering values per type.   *)
(* XdrNfs.tla supplies RFC 1813's descriptors; XdrVec.tla prints, for every     *)
(* argument/result type, values with the bytes this encoder assigns to them;   *)
(* the harness builds the same values with the repository's Go types and       *)
(* compares the repository codec byte for byte (encode, decode, truncation).   *)
EXTENDS Integers, Sequences, FiniteSets, TLC

Be4(n) == << (n \div 16777216) % 256, (n \div 65536) % 256, (n \div 256) % 256, n % 256 >>
Pad(n) == [i \in 1..((4 - (n % 4)) % 4) |-> 0]
Ramp(n, s) == [i \in 1..n |-> 1 + ((s + i) % 250)]

Void == [k |-> "void"]
(* value nodes: [k |-> "int", b |-> bytes] | [k |-> "bool", v |-> BOOLEAN] | [k |-> "bytes", b |-> bytes]            *)
(*   | [k |-> "arr", e |-> values] | [k |-> "struct", f |-> values]                                                     *)
(*   | [k |-> "union", d |-> discriminant value, arm |-> index into arms (Len+1 = default arm), v |-> value]            *)
(*   | [k |-> "opt", p |-> BOOLEAN, v |-> value] | Void                                                                 *)

RECURSIVE Enc(_, _, _), EncSeq(_, _, _, _), EncAll(_, _, _, _)
EncSeq(TT, tns, vs, i) == IF i > Len(vs) THEN <<>> ELSE Enc(TT, tns[i], vs[i]) \o EncSeq(TT, tns, vs, i + 1)
EncAll(TT, tn, vs, i) == IF i > Len(vs) THEN <<>> ELSE Enc(TT, tn, vs[i]) \o EncAll(TT, tn, vs, i + 1)
ArmType(t, arm) == IF arm <= Len(t.arms) THEN t.arms[arm].t ELSE t.def
Enc(TT, tn, v) ==
  LET t == TT[tn] IN
  CASE t.k = "alias" -> Enc(TT, t.t, v)
    [] t.k \in {"u32", "u64", "enum"} -> v.b
    [] t.k = "bool" -> IF v.v THEN <<0, 0, 0, 1>> ELSE <<0, 0, 0, 0>>
    [] t.k = "void" -> <<>>
    [] t.k = "fix" -> v.b \o Pad(Len(v.b))
    [] t.k \in {"var", "str"} -> Be4(Len(v.b)) \o v.b \o Pad(Len(v.b))
    [] t.k = "arr" -> Be4(Len(v.e)) \o EncAll(TT, t.t, v.e, 1)
    [] t.k = "struct" -> EncSeq(TT, t.f, v.f, 1)
    [] t.k = "union" -> Enc(TT, t.d, v.d) \o Enc(TT, ArmType(t, v.arm), v.v)
    [] t.k = "opt" -> IF v.p THEN <<0, 0, 0, 1>> \o Enc(TT, t.t, v.v) ELSE <<0, 0, 0, 0>>

(*--------------------------------------------------------------------------*)
(* covering values: Var(TT, tn, d) is a non-empty sequence whose first element *)
(* is the default value; depth d bounds the nesting of variations             *)

IntV(bs) == [k |-> "int", b |-> bs]
EnumVal(n) == IntV(Be4(n))

RECURSIVE Var(_, _, _), FieldVars(_, _, _, _, _), ArmVars(_, _, _, _, _)
Default(TT, tn) == Var(TT, tn, 0)[1]

(* default struct with field i replaced by each non-default variant of that field *)
FieldVars(TT, t, base, i, d) ==
  IF i > Len(t.f) THEN <<>>
  ELSE LET vs == Var(TT, t.f[i], d) IN
       [j \in 1..(Len(vs) - 1) |-> [k |-> "struct", n |-> t.n, f |-> [base EXCEPT ![i] = vs[j + 1]]]]
       \o FieldVars(TT, t, base, i + 1, d)

DiscrVal(TT, t, x) == IF TT[t.d].k = "bool" THEN [k |-> "bool", v |-> (x = "TRUE")]
                      ELSE EnumVal(x)
ToSeq(S) == LET RECURSIVE H(_) H(R) == IF R = {} THEN <<>> ELSE LET x == CHOOSE y \in R : TRUE IN <<x>> \o H(R \ {x}) IN H(S)
RootType(TT, tn) == LET RECURSIVE R(_) R(n) == IF TT[n].k = "alias" THEN R(TT[n].t) ELSE n IN R(tn)
DefaultDiscr(TT, t) ==   \* discriminant values that select the default arm (at most two)
  LET dt == TT[RootType(TT, t.d)]
      used == UNION {{t.arms[a].vals[j] : j \in 1..Len(t.arms[a].vals)} : a \in 1..Len(t.arms)}
  IN IF dt.k = "bool" THEN ToSeq({"TRUE", "FALSE"} \ used)
     ELSE LET rest == ToSeq({dt.vals[j] : j \in 1..Len(dt.vals)} \ used) IN
          IF Len(rest) <= 2 THEN rest ELSE <<rest[1], rest[Len(rest)]>>

ArmVars(TT, t, a, d, acc) ==
  IF a > Len(t.arms) + 1 THEN acc
  ELSE LET at == ArmType(t, a)
           dv == IF a <= Len(t.arms) THEN t.arms[a].vals ELSE (IF t.def = "none" THEN <<>> ELSE DefaultDiscr(TT, t))
           avs == IF at = "none" THEN <<>> ELSE Var(TT, at, d)
           (* gi: position of this arm's member in the Go struct rpcgen generates (discriminant first, then one member per non-void arm) *)
           nv(b) == ArmType(t, b) \notin {"void", "none"}
           gi == IF ~nv(a) THEN 0 ELSE 1 + Cardinality({b \in 1..(a - 1) : nv(b)})
           an == IF a <= Len(t.arms) THEN t.arms[a].n ELSE t.defn
           new == IF dv = <<>> THEN <<>>
                  ELSE [j \in 1..Len(avs) |-> [k |-> "union", d |-> DiscrVal(TT, t, dv[1]), arm |-> a, gi |-> gi, dn |-> t.dn, an |-> an, v |-> avs[j]]]
                       \o [j \in 1..(Len(dv) - 1) |-> [k |-> "union", d |-> DiscrVal(TT, t, dv[j + 1]), arm |-> a, gi |-> gi, dn |-> t.dn, an |-> an, v |-> avs[1]]]
       IN ArmVars(TT, t, a + 1, d, acc \o new)

Var(TT, tn, d) ==
  LET t == TT[tn] IN
  CASE t.k = "alias" -> Var(TT, t.t, d)
    [] t.k = "void" -> <<Void>>
    [] t.k = "u32" -> IF d = 0 THEN <<IntV(<<0, 0, 0, 0>>)>>
                      ELSE <<IntV(<<0, 0, 0, 0>>), IntV(<<0, 0, 0, 1>>), IntV(<<127, 255, 255, 255>>), IntV(<<255, 255, 255, 255>>), IntV(<<1, 2, 3, 4>>)>>
    [] t.k = "u64" -> IF d = 0 THEN <<IntV(<<0, 0, 0, 0, 0, 0, 0, 0>>)>>
                      ELSE <<IntV(<<0, 0, 0, 0, 0, 0, 0, 0>>), IntV(<<0, 0, 0, 0, 0, 0, 0, 1>>), IntV(<<255, 255, 255, 255, 255, 255, 255, 255>>),
                             IntV(<<1, 2, 3, 4, 5, 6, 7, 8>>), IntV(<<0, 0, 0, 1, 0, 0, 0, 0>>)>>
    [] t.k = "enum" -> IF d = 0 THEN <<EnumVal(t.vals[1])>> ELSE [j \in 1..Len(t.vals) |-> EnumVal(t.vals[j])]
    [] t.k = "bool" -> IF d = 0 THEN <<[k |-> "bool", v |-> FALSE]>> ELSE <<[k |-> "bool", v |-> FALSE], [k |-> "bool", v |-> TRUE]>>
    [] t.k = "fix" -> IF d = 0 THEN <<[k |-> "bytes", b |-> [i \in 1..t.n |-> 0]]>>
                      ELSE <<[k |-> "bytes", b |-> [i \in 1..t.n |-> 0]], [k |-> "bytes", b |-> Ramp(t.n, 7)]>>
    [] t.k \in {"var", "str"} ->
         IF d = 0 THEN <<[k |-> "bytes", b |-> <<>>]>>
         ELSE LET lens == {0, 1, 3, 4, 5, 16} \cup (IF t.max > 0 /\ t.max <= 1024 THEN {t.max} ELSE {63})
                          \cup (IF t.max = 0 THEN {255, 256, 1025, 4100} ELSE {})    \* "<>" in the RFC text: no bound at all
                  ok == {n \in lens : t.max = 0 \/ n <= t.max}
                  ls == ToSeq(ok \ {0})
                  (* a string is a counted byte string, not text (RFC 4506 4.11 / RFC 1813 filename3, nfspath3): bytes that are *)
                  (* no ASCII and no UTF-8 - Latin-1, a lone 0xff, a truncated multi-byte sequence, a NUL - are values like any other *)
                  raw == << <<99, 97, 102, 233>>, <<255>>, <<97, 98, 226, 130>>, <<131, 101, 131, 88, 131, 103>>, <<97, 0, 98>>, <<128, 129, 254, 255, 0, 1, 127>> >>
                  rs == SelectSeq(raw, LAMBDA r : t.max = 0 \/ Len(r) <= t.max)
              IN <<[k |-> "bytes", b |-> <<>>]>> \o [j \in 1..Len(ls) |-> [k |-> "bytes", b |-> [i \in 1..ls[j] |-> 97 + (i % 26)]]]
                 \o [j \in 1..Len(rs) |-> [k |-> "bytes", b |-> rs[j]]]
    [] t.k = "arr" -> IF d = 0 THEN <<[k |-> "arr", e |-> <<>>]>>
                      ELSE LET es == Var(TT, t.t, d - 1) IN
                           <<[k |-> "arr", e |-> <<>>], [k |-> "arr", e |-> <<es[1]>>], [k |-> "arr", e |-> <<es[Len(es)], es[1]>>]>>
    [] t.k = "struct" ->
         LET base == [i \in 1..Len(t.f) |-> Default(TT, t.f[i])] IN
         <<[k |-> "struct", n |-> t.n, f |-> base]>> \o (IF d = 0 THEN <<>> ELSE FieldVars(TT, t, base, 1, d - 1))
    [] t.k = "union" ->
         IF d = 0 THEN LET a == ArmVars(TT, t, 1, 0, <<>>) IN <<a[1]>>
         ELSE ArmVars(TT, t, 1, d - 1, <<>>)
    [] t.k = "opt" ->
         IF d = 0 THEN <<[k |-> "opt", p |-> FALSE, v |-> Void]>>
         ELSE LET vs == Var(TT, t.t, d - 1) IN
              <<[k |-> "opt", p |-> FALSE, v |-> Void]>> \o [j \in 1..Len(vs) |-> [k |-> "opt", p |-> TRUE, v |-> vs[j]]]
=============================================================================
