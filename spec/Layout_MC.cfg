SPECIFICATION MCSpec
INVARIANT Inv
