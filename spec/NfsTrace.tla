------------------------------ MODULE NfsTrace ------------------------------
(* Trace validation of recorded runs of the real server against NfsSpec.       *)
(* The trace is total: every line is consumed; a line whose reply or state the   *)
(* specification rejects is reported (one JSON line "VIOL ...") and the rest of  *)
(* that segment (up to the next "reset") is skipped, so the other segments of    *)
(* the batch are still checked. Acceptance = all lines consumed.                 *)
EXTENDS NfsSpec, Json, IOUtils

TraceFile == IF "TRACE" \in DOMAIN IOEnv THEN IOEnv.TRACE ELSE "trace.ndjson"
Trace == ndJsonDeserialize(TraceFile)

FS == INSTANCE FsStruct

VARIABLES l, s, bad, seg, ctx, fr
vars == <<l, s, bad, seg, ctx, fr>>

(* fr: the last structural snapshot's frame and what happened since ("none": nothing, *)
(* "failed": only failed calls, "other": anything else) - a failed call must leave the  *)
(* decoded disk, the allocators and the caches' content unchanged (C09).                *)
NoFr == [valid |-> FALSE, frame |-> <<>>, since |-> "none"]

(* ctx: what happened earlier in this segment; a rejection is also attributed to  *)
(* the properties that speak about "everything observable afterwards".            *)
CtxRules == (IF "failed" \in ctx THEN <<"C09:after-failed-operation">> ELSE <<>>)
            \o (IF "restart" \in ctx THEN <<"C10:after-restart">> ELSE <<>>)

Dummy == InitState("", TRUE)

TInit == l = 1 /\ s = Dummy /\ bad = TRUE /\ seg = 0 /\ ctx = {} /\ fr = NoFr

Report(line, rules, e) ==
  PrintT("VIOL " \o ToJson([line |-> line, seg |-> seg, rules |-> rules \o CtxRules,
                            ev |-> e.ev, proc |-> IF "proc" \in DOMAIN e THEN e.proc ELSE "",
                            i |-> IF "i" \in DOMAIN e THEN e.i ELSE -1,
                            want |-> IF e.ev = "call" /\ e.proc = "READ" /\ ObjOf(s, e.fh) # 0 /\ ~e.offsat
                                     THEN RRead(s.objs[ObjOf(s, e.fh)].data, e.off, e.cnt) ELSE <<>>]))

(* recovery: the state becomes one of the candidates, bound by the dump *)
Recover(e, extra) ==
  LET c == Candidates(s, extra)
      k == MatchIdx(c, e.dump)
  IN IF k = 0
     THEN /\ Report(l, <<"C01,C07,C10:recovered-state-not-an-allowed-prefix">> \o DumpRules(s.objs, e.dump), e)
          /\ bad' = TRUE /\ s' = s
     ELSE /\ s' = AfterRecovery(s, c[k]) /\ bad' = FALSE

Consume ==
  /\ l <= Len(Trace)
  /\ l' = l + 1
  /\ LET e == Trace[l] IN
     IF e.ev = "reset"
     THEN /\ s' = InitState(e.root, e.unstable) /\ bad' = FALSE /\ seg' = e.seg /\ ctx' = {} /\ fr' = NoFr
     ELSE /\ seg' = seg
          /\ fr' = IF e.ev = "snap" THEN [valid |-> e.idle /\ e.running, frame |-> FS!Frame(e), since |-> "none"]
                   ELSE IF e.ev = "call" /\ e.st # "OK" /\ fr.since \in {"none", "failed"} THEN [fr EXCEPT !.since = "failed"]
                   ELSE IF e.ev = "call" /\ e.proc \in {"GETATTR", "LOOKUP", "ACCESS", "READLINK", "READDIR", "READDIRPLUS", "FSINFO", "PATHCONF", "NULL"} THEN fr
                   ELSE [fr EXCEPT !.since = "other"]
          /\ ctx' = IF e.ev = "call" /\ e.st # "OK" /\ Mutating(e) THEN ctx \cup {"failed"}
                    ELSE IF e.ev = "restart" THEN ctx \cup {"restart"} ELSE ctx
          /\ IF bad THEN UNCHANGED <<s, bad>>
             ELSE CASE e.ev = "call" ->
                         LET v == Check(s, e) IN
                         IF v = <<>> THEN s' = Next(s, e) /\ bad' = FALSE
                         ELSE Report(l, v, e) /\ bad' = TRUE /\ s' = s
                    [] e.ev = "dump" ->
                         LET v == DumpRules(s.objs, e) IN
                         IF v = <<>> THEN UNCHANGED <<s, bad>>
                         ELSE Report(l, <<"C02,C09,C10:state-differs-from-reference">> \o v, e) /\ bad' = TRUE /\ s' = s
                    [] e.ev = "snap" ->
                         LET v == FS!StructRules(e)
                                  \o (IF e.who = "run" /\ e.idle /\ Cardinality(FS!Live(e)) # Cardinality(DOMAIN s.objs)
                                      THEN <<"C04,C05:live-inode-count-differs-from-reference">> ELSE <<>>)
                                  \o (IF fr.valid /\ fr.since = "failed" /\ e.idle /\ e.running /\ FS!Frame(e) # fr.frame
                                      THEN <<"C09:failed-operation-changed-disk-or-allocators">> ELSE <<>>)
                         IN IF v = <<>> THEN UNCHANGED <<s, bad>>
                            ELSE Report(l, v, e) /\ UNCHANGED <<s, bad>>   \* the abstract state is still in step: go on
                    [] e.ev = "freecheck" ->
                         IF e.freeb + e.rootblocks - 1 = e.freeb0 /\ e.freei = e.freei0 /\ DOMAIN s.objs = {RootId} THEN UNCHANGED <<s, bad>>
                         ELSE Report(l, <<"C05:free-space-not-back-to-initial-after-deleting-everything">>, e) /\ bad' = TRUE /\ s' = s
                    [] e.ev = "restart" -> Recover(e, <<>>)
                    [] e.ev = "fatal" -> Report(l, <<"ALL,C11:server-died">>, e) /\ bad' = TRUE /\ s' = s
                    [] OTHER -> UNCHANGED <<s, bad>>

Done == l = Len(Trace) + 1 /\ UNCHANGED vars

TNext == Consume
TSpec == TInit /\ [][TNext]_vars

Accepted == TLCGet("stats").diameter = Len(Trace) + 1
PrintDone == PrintT("CONSUMED " \o ToString(TLCGet("stats").diameter - 1) \o " OF " \o ToString(Len(Trace)))
Post == PrintDone /\ Accepted
=============================================================================
