------------------------------ MODULE NfsTrace ------------------------------
(* Trace validation of recorded runs of the real server against NfsSpec.       *)
(* The trace is total: every line is consumed; a line whose reply or state the   *)
(* specification rejects is reported (one JSON line "VIOL ...") and the rest of  *)
(* that segment (up to the next "reset") is skipped, so the other segments of    *)
(* the batch are still checked. Acceptance = all lines consumed.                 *)
EXTENDS NfsSpec, Json, IOUtils

TraceFile == IF "TRACE" \in DOMAIN IOEnv THEN IOEnv.TRACE ELSE "trace.ndjson"
Trace == ndJsonDeserialize(TraceFile)

FS == INSTANCE FsStruct

VARIABLES l, s, bad, seg, ctx, fr, H, Dur, acc
vars == <<l, s, bad, seg, ctx, fr, H, Dur, acc>>
(* acc: a disk size has been accepted in this layout segment (sizes come in increasing order) *)

(* H (only in segments that contain crash probes): the abstract tree after each call,   *)
(* H[1] = initial, H[j+1] = after the j-th call; Dur[j+1] = index into H of the state   *)
(* that is durable once j calls have returned.                                           *)

(* fr: the last structural snapshot's frame and what happened since ("none": nothing, *)
(* "failed": only failed calls, "other": anything else) - a failed call must leave the  *)
(* decoded disk, the allocators and the caches' content unchanged (C09).                *)
NoFr == [valid |-> FALSE, frame |-> <<>>, since |-> "none", nmut |-> 0]

(* ctx: what happened earlier in this segment; a rejection is also attributed to  *)
(* the properties that speak about "everything observable afterwards".            *)
CtxRules == (IF "failed" \in ctx THEN <<"C09:after-failed-operation">> ELSE <<>>)
            \o (IF "restart" \in ctx THEN <<"C10:after-restart">> ELSE <<>>)
            \o (IF "crash" \in ctx THEN <<"C01,C07:after-crash">> ELSE <<>>)

Dummy == InitState("", TRUE)

TInit == l = 1 /\ s = Dummy /\ bad = TRUE /\ seg = 0 /\ ctx = {} /\ fr = NoFr /\ H = <<>> /\ Dur = <<>> /\ acc = FALSE

Report(line, rules, e) ==
  PrintT("VIOL " \o ToJson([line |-> line, seg |-> seg, rules |-> rules \o CtxRules,
                            ev |-> e.ev, proc |-> IF "proc" \in DOMAIN e THEN e.proc ELSE "",
                            i |-> IF "i" \in DOMAIN e THEN e.i ELSE -1,
                            detail |-> IF e.ev = "crashprobe" /\ e.invoked + 1 <= Len(H) /\ e.acked + 1 <= Len(Dur) /\ e.ok
                                       THEN [lo |-> Dur[e.acked + 1], hi |-> e.invoked + 1,
                                             per |-> [k \in Dur[e.acked + 1]..(e.invoked + 1) |-> DumpRules(H[k], e.dump)],
                                             bad |-> DumpBad(H[e.invoked + 1], e.dump), badlo |-> DumpBad(H[Dur[e.acked + 1]], e.dump)]
                                       ELSE IF e.ev = "dump" THEN DumpBad(s.objs, e)
                                       ELSE <<>>,
                            want |-> IF e.ev = "call" /\ e.proc = "READ" /\ ObjOf(s, e.fh) # 0 /\ ~e.offsat
                                     THEN RRead(s.objs[ObjOf(s, e.fh)].data, e.off, e.cnt) ELSE <<>>]))

(* recovery: the state becomes one of the candidates, bound by the dump *)
Recover(e, extra) ==
  LET c == Candidates(s, extra)
      k == MatchIdx(c, e.dump)
  IN IF k = 0
     THEN /\ Report(l, <<"C01,C07,C10:recovered-state-not-an-allowed-prefix">> \o DumpRules(s.objs, e.dump), e)
          /\ bad' = TRUE /\ s' = s
     ELSE /\ s' = AfterRecovery(s, c[k]) /\ bad' = FALSE

ProbeRules(e) ==
  IF e.invoked + 1 > Len(H) \/ e.acked + 1 > Len(Dur) THEN <<>>     \* the segment was abandoned before this call
  ELSE IF ~e.ok THEN <<"C01:recovery-failed">>
  ELSE LET lo == Dur[e.acked + 1]
           hi == e.invoked + 1
       IN (IF \E k \in lo..hi : DumpMatches(H[k], e.dump) THEN <<>>
           ELSE <<"C01,C07:recovered-state-is-not-a-prefix-containing-every-stable-operation">> \o DumpRules(H[hi], e.dump))
          \o FS!StructRules(e.snap)
          (* start-up may not read a home block around the recovered log when the log holds a newer version of it   *)
          (* (exempt: the block of the root inode, read only to decide whether the disk was ever formatted)         *)
          \o (IF \E i \in 1..Len(e.rawreads) : e.rawreads[i].h # e.rawreads[i].logged /\ e.rawreads[i].addr # e.inostart
              THEN <<"C01,C04:start-up-reads-a-block-around-the-recovered-log">> ELSE <<>>)

(* crash image of a concurrent history (the tree is matched by NfsLin; here: recovery works, structure, start-up reads) *)
ProbeStruct(e) ==
  IF ~e.ok THEN <<"C01:recovery-failed">>
  ELSE FS!StructRules(e.snap)
       \o (IF \E i \in 1..Len(e.rawreads) : e.rawreads[i].h # e.rawreads[i].logged /\ e.rawreads[i].addr # e.inostart
           THEN <<"C01,C04:start-up-reads-a-block-around-the-recovered-log">> ELSE <<>>)

(* crash in a continuation segment: the state becomes a durable-or-later prefix, possibly *)
(* including the call that was in flight, bound from the dump                              *)
RecoverCrash(e) ==
  LET c0 == Candidates(s, <<>>)
      k  == MatchIdx(c0, e.dump)
      inf == Len(e.inflight) > 0 /\ Check(s, e.inflight[1]) = <<>>
      sx == IF inf THEN Next(s, e.inflight[1]) ELSE s
  IN IF k # 0 THEN s' = AfterRecovery(s, c0[k]) /\ bad' = FALSE
     ELSE IF inf /\ DumpMatches(sx.objs, e.dump) THEN s' = AfterRecovery(sx, sx.objs) /\ bad' = FALSE
     ELSE /\ Report(l, <<"C01,C07:recovered-state-is-not-a-prefix-containing-every-stable-operation">> \o DumpRules(s.objs, e.dump), e)
          /\ bad' = TRUE /\ s' = s

Consume ==
  /\ l <= Len(Trace)
  /\ l' = l + 1
  /\ acc' = IF Trace[l].ev = "reset" THEN FALSE ELSE IF Trace[l].ev = "layout" /\ Trace[l].accepted THEN TRUE ELSE acc
  /\ LET e == Trace[l] IN
     IF e.ev = "reset"
     THEN /\ s' = InitState(e.root, e.unstable) /\ bad' = FALSE /\ seg' = e.seg /\ ctx' = {} /\ fr' = NoFr
          /\ H' = IF e.keephist THEN <<InitState(e.root, e.unstable).objs>> ELSE <<>>
          /\ Dur' = IF e.keephist THEN <<1>> ELSE <<>>
     ELSE /\ seg' = seg
          /\ fr' = IF e.ev = "snap" THEN [valid |-> e.idle /\ e.running, frame |-> FS!Frame(e), since |-> "none", nmut |-> 0]
                   ELSE IF e.ev = "call" /\ e.st # "OK" /\ fr.since \in {"none", "failed"} THEN [fr EXCEPT !.since = "failed"]
                   ELSE IF e.ev = "call" /\ e.proc \in {"GETATTR", "LOOKUP", "ACCESS", "READLINK", "READDIR", "READDIRPLUS", "FSINFO", "PATHCONF", "NULL"} THEN fr
                   ELSE [fr EXCEPT !.since = "other", !.nmut = IF e.ev = "call" THEN @ + 1 ELSE @ + 2]
          /\ ctx' = IF e.ev = "call" /\ e.st # "OK" /\ Mutating(e) THEN ctx \cup {"failed"}
                    ELSE IF e.ev = "restart" THEN ctx \cup {"restart"}
                    ELSE IF e.ev = "crash" THEN ctx \cup {"crash"} ELSE ctx
          /\ IF bad
             THEN (* the reference state is out of step, but the structure of the disk can still be judged *)
                  /\ UNCHANGED <<s, bad>>
                  /\ IF e.ev = "snap" /\ FS!StructRules(e) # <<>> THEN Report(l, FS!StructRules(e), e)
                     ELSE IF e.ev = "call" /\ e.st \in {"PANIC", "TIMEOUT"} THEN Report(l, StatusRules(s, e, "OK"), e)   \* no reply is never acceptable
                     ELSE TRUE
             ELSE CASE e.ev = "call" ->
                         LET v == Check(s, e) IN
                         IF v = <<>> THEN s' = Next(s, e) /\ bad' = FALSE
                         ELSE Report(l, v, e) /\ bad' = TRUE /\ s' = s
                    [] e.ev = "bulk" ->
                         IF BulkOk(s, e) THEN s' = Bulk(s, e) /\ bad' = FALSE
                         ELSE Report(l, <<"ALL:bulk-population-on-a-state-the-reference-does-not-have">>, e) /\ bad' = TRUE /\ s' = s
                    [] e.ev = "dump" ->
                         LET v == DumpRules(s.objs, e) IN
                         IF v = <<>> THEN UNCHANGED <<s, bad>>
                         ELSE Report(l, <<"C02,C09,C10:state-differs-from-reference">> \o v, e) /\ bad' = TRUE /\ s' = s
                    [] e.ev = "snap" ->
                         LET v == FS!StructRules(e)
                                  \o (IF e.who = "run" /\ e.idle /\ Cardinality(FS!Live(e)) # Cardinality(DOMAIN s.objs)
                                      THEN <<"C04,C05:live-inode-count-differs-from-reference">> ELSE <<>>)
                                  \o (IF fr.valid /\ fr.since = "failed" /\ e.idle /\ e.running /\ FS!Frame(e) # fr.frame
                                      THEN <<"C09:failed-operation-changed-disk-or-allocators">> ELSE <<>>)
                                  (* the assumption of the design model DirSlots: a live entry never changes its slot (judged *)
                                  (* when at most one call lies between two snapshots, so no entry can have gone and come back) *)
                                  \o (IF fr.frame # <<>> /\ fr.nmut <= 1 /\ FS!EntryMoved(fr.frame.dirs, e.dirs)
                                      THEN <<"C13:live-directory-entry-changed-its-slot">> ELSE <<>>)
                         IN IF v = <<>> THEN UNCHANGED <<s, bad>>
                            ELSE Report(l, v, e) /\ UNCHANGED <<s, bad>>   \* the abstract state is still in step: go on
                    [] e.ev = "crashprobe" ->
                         LET v == ProbeRules(e) IN
                         IF v = <<>> THEN UNCHANGED <<s, bad>> ELSE Report(l, v, e) /\ UNCHANGED <<s, bad>>
                    [] e.ev = "crashstruct" ->
                         LET v == ProbeStruct(e) IN
                         IF v = <<>> THEN UNCHANGED <<s, bad>> ELSE Report(l, v, e) /\ UNCHANGED <<s, bad>>
                    [] e.ev = "crash" ->
                         LET v == FS!StructRules(e.snap) IN
                         (IF v = <<>> THEN TRUE ELSE Report(l, v, e)) /\ RecoverCrash(e)
                    [] e.ev = "layout" ->
                         IF acc /\ ~e.accepted
                         THEN Report(l, <<"C15:size-rejected-although-a-smaller-size-is-accepted">>, e) /\ UNCHANGED <<s, bad>>
                         ELSE UNCHANGED <<s, bad>>
                    [] e.ev = "fill" ->
                         LET S == e.snap
                             v == FS!StructRules(S)
                                  \o (IF FS!Clip(S.bbm, S.datastart, S.size) # S.datastart..(S.size - 1) \/ e.freeb # 0
                                      THEN <<"C15:data-region-not-fully-allocatable">> ELSE <<>>)
                         IN IF v = <<>> THEN UNCHANGED <<s, bad>> ELSE Report(l, v, e) /\ UNCHANGED <<s, bad>>
                    [] e.ev = "emptied" ->
                         LET v == FS!StructRules(e.snap)
                                  \o (IF e.freeb + e.rootblocks - 1 # e.freeb0 \/ e.freei # e.freei0
                                      THEN <<"C15,C05:space-not-freed-after-filling-the-disk">> ELSE <<>>)
                         IN IF v = <<>> THEN UNCHANGED <<s, bad>> ELSE Report(l, v, e) /\ UNCHANGED <<s, bad>>
                    [] e.ev = "freecheck" ->
                         IF e.freeb + e.rootblocks - 1 = e.freeb0 /\ e.freei = e.freei0 /\ DOMAIN s.objs = {RootId} THEN UNCHANGED <<s, bad>>
                         ELSE Report(l, <<"C05:free-space-not-back-to-initial-after-deleting-everything">>, e) /\ bad' = TRUE /\ s' = s
                    [] e.ev = "restart" -> Recover(e, <<>>)
                    [] e.ev = "fatal" -> Report(l, <<"ALL,C11:server-died">>, e) /\ bad' = TRUE /\ s' = s
                    [] OTHER -> UNCHANGED <<s, bad>>
          /\ IF H # <<>> /\ e.ev = "call" /\ ~bad
             THEN H' = Append(H, s'.objs)
                  /\ Dur' = Append(Dur, IF s'.hist = <<>> \/ bad' THEN Len(H) + 1 ELSE s'.histn[1])
             ELSE UNCHANGED <<H, Dur>>

Done == l = Len(Trace) + 1 /\ UNCHANGED vars

TNext == Consume
TSpec == TInit /\ [][TNext]_vars

Accepted == TLCGet("stats").diameter = Len(Trace) + 1
PrintDone == PrintT("CONSUMED " \o ToString(TLCGet("stats").diameter - 1) \o " OF " \o ToString(Len(Trace)))
Post == PrintDone /\ Accepted
=============================================================================
