------------------------------ MODULE XdrTrace ------------------------------
(* C16: decides, per vector, whether the repository codec produced and accepted exactly the bytes that Xdr.tla *)
(* assigns to the value (the encoding is re-computed here by TLC), and whether every procedure number of the    *)
(* RFC's table reached the handler of that procedure.                                                            *)
EXTENDS XdrNfs, Json, IOUtils
TraceFile == IF "TRACE" \in DOMAIN IOEnv THEN IOEnv.TRACE ELSE "trace.ndjson"
Trace == ndJsonDeserialize(TraceFile)
VARIABLES l, ndisp
vars == <<l, ndisp>>
TInit == l = 1 /\ ndisp = 0
Report(line, rules, e) == PrintT("VIOL " \o ToJson([line |-> line, seg |-> 0, rules |-> rules, ev |-> e.ev,
                                   proc |-> IF e.ev = "xdr" THEN e.type ELSE IF e.ev = "dispatch" THEN e.name ELSE "", i |-> l]))
XFail(c, r) == IF c THEN <<r>> ELSE <<>>
Consume ==
  /\ l <= Len(Trace) /\ l' = l + 1
  /\ LET e == Trace[l] IN
     CASE e.ev = "xdr" ->
            LET want == Enc(NfsTypes, e.type, e.val)
                v == XFail(~e.built, "C16:value-cannot-be-built-with-the-repository-types")
                     \o XFail(e.built /\ e.got # want, "C16:encoding-differs-from-RFC-1813-layout")
                     \o XFail(e.built /\ e.decerr # "", "C16:well-formed-message-rejected")
                     \o XFail(e.built /\ e.decerr = "" /\ e.redec # want, "C16:decoding-then-encoding-changes-the-message")
                     \o XFail(e.built /\ e.note # "", "C16:decoded-value-differs")
                     \o XFail(e.built /\ e.truncok # e.trunc, "C16:truncated-message-accepted")
                     \o XFail(e.mutpanic > 0, "C16,C11:decoder-panics-on-a-malformed-message")
                     \o XFail(e.mutunstable > 0, "C16:accepted-malformed-message-does-not-re-encode-to-the-value-decoded")
            IN (IF v = <<>> THEN TRUE ELSE Report(l, v, e)) /\ UNCHANGED ndisp
       [] e.ev = "dispatch" ->
            LET v == XFail(~e.found, "C16:procedure-number-not-registered")
                     \o XFail(e.found /\ ~e.shapeok, "C16:reply-is-not-of-the-procedures-result-type")
                     \o XFail(e.found /\ e.shapeok /\ ~e.same, "C16:procedure-number-reaches-another-handler")
            IN (IF v = <<>> THEN TRUE ELSE Report(l, v, e)) /\ ndisp' = ndisp + 1
       [] e.ev = "xdrerr" -> Report(l, <<"C16:handler-missing">>, e) /\ UNCHANGED ndisp
       [] OTHER -> UNCHANGED ndisp
TSpec == TInit /\ [][Consume]_vars
Post == /\ PrintT("CONSUMED " \o ToString(TLCGet("stats").diameter - 1) \o " OF " \o ToString(Len(Trace)))
        /\ PrintT("DISPATCHED " \o ToString(Cardinality({i \in 1..Len(Trace) : Trace[i].ev = "dispatch"})) \o " OF " \o ToString(Len(Procs)))
        /\ TLCGet("stats").diameter = Len(Trace) + 1
=============================================================================
