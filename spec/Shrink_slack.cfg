SPECIFICATION Spec
CONSTANTS
  MaxB = 5
  K = 3
  Budget = 1
  KeepSsz = TRUE
  MaxOps = 8
  Slack = 1
  UseResult = TRUE
  Recheck = TRUE
INVARIANTS TypeOK NoOrphan Reclaimed FreeIsEmpty NoStale
CHECK_DEADLOCK FALSE
