SPECIFICATION MCSpec
CONSTANTS
  MaxObjs = 3
  MaxNext = 4
  MaxPath = 3
  MaxHist = 2
  AvoidDirCross = TRUE
CONSTRAINT Bound
VIEW View
ACTION_CONSTRAINT Emit
CHECK_DEADLOCK FALSE
