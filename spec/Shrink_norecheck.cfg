SPECIFICATION Spec
CONSTANTS
  MaxB = 5
  K = 3
  Budget = 1
  KeepSsz = TRUE
  MaxOps = 8
  Slack = 0
  UseResult = TRUE
  Recheck = FALSE
INVARIANTS TypeOK NoOrphan Reclaimed FreeIsEmpty NoStale
CHECK_DEADLOCK FALSE
