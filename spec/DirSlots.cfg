SPECIFICATION Spec
CONSTANTS
  Names = {"a", "b", "c"}
  NSlots = 4
  MaxOps = 3
  Compact = FALSE
  CookieIsOffset = FALSE
INVARIANTS NoDup Complete Progress
CHECK_DEADLOCK FALSE
