SPECIFICATION Spec
CONSTANTS RootLast = TRUE  DotsAlways = TRUE  MaxCrash = 3
INVARIANT Usable
CHECK_DEADLOCK FALSE
