---------------------------- MODULE ExhaustTrace ----------------------------
(* Inode-table exhaustion (harness/drv/exhaust.go). The abstract state is three   *)
(* numbers: inodes in use, the size of the table, and whether the table is full.   *)
(*   fill      every number except the two reserved ones can be given to an object   *)
(*   fail      a request that needs an inode when none is free is refused and leaves   *)
(*             nothing behind: free counts equal, logical disk, caches and allocators   *)
(*             unchanged (C09)                                                          *)
(*   free/create  a number given back is usable again, exactly one (C05)                *)
(*   restart   the allocator rebuilt from the bitmap has the same counts (C10)          *)
EXTENDS Integers, Sequences, TLC, Json, IOUtils
TraceFile == IF "TRACE" \in DOMAIN IOEnv THEN IOEnv.TRACE ELSE "trace.ndjson"
Trace == ndJsonDeserialize(TraceFile)
VARIABLES l, seg, full
vars == <<l, seg, full>>
TInit == l = 1 /\ seg = 0 /\ full = FALSE
Report(rule, e) == PrintT("VIOL " \o ToJson([line |-> l, seg |-> seg, rules |-> <<rule>>, ev |-> e.ev, proc |-> IF "proc" \in DOMAIN e THEN e.proc ELSE "",
                                               i |-> -1, detail |-> <<>>, want |-> <<>>]))
Chk(ok, rule, e) == IF ok THEN TRUE ELSE Report(rule, e)
Consume ==
  /\ l <= Len(Trace) /\ l' = l + 1
  /\ LET e == Trace[l] IN
     CASE e.ev = "reset" -> seg' = e.seg /\ full' = FALSE
       [] e.ev = "exhfill" ->
            /\ Chk(e.created = e.ninode - 2 /\ e.freei = 0, "C15,C05:not-every-inode-number-but-the-reserved-ones-is-usable", e)
            /\ full' = (e.freei = 0) /\ seg' = seg
       [] e.ev = "exhfail" ->
            /\ Chk(~full \/ e.st # "OK", "C09,C02:request-accepted-although-no-inode-is-free", e)
            /\ Chk(e.st = "OK" \/ (e.same /\ e.freei0 = e.freei1 /\ e.freeb0 = e.freeb1), "C09:failed-operation-changed-disk-or-allocators", e)
            /\ Chk(e.st \notin {"PANIC", "TIMEOUT"}, "ALL,C11:no-reply-" \o e.st, e)
            /\ UNCHANGED <<seg, full>>
       [] e.ev = "exhfree" -> Chk(e.st = "OK" /\ e.freei = 1, "C05:freed-inode-number-not-back", e) /\ full' = FALSE /\ seg' = seg
       [] e.ev = "exhcreate" ->
            /\ Chk(e.st = "OK" /\ e.freei = 0 /\ e.oldname # "OK" /\ e.newname = "OK" /\ e.newtype = 2, "C05,C02:freed-inode-number-not-usable-again", e)
            /\ full' = TRUE /\ seg' = seg
       [] e.ev = "exhrestart" -> Chk(e.freei0 = e.freei1 /\ e.freeb0 = e.freeb1, "C10,C05:allocators-differ-after-restart", e) /\ UNCHANGED <<seg, full>>
       [] e.ev = "exhremoved" -> Chk(e.freei = e.removed, "C05:removed-inodes-not-all-back", e) /\ full' = FALSE /\ seg' = seg
       [] e.ev = "fatal" -> Report("ALL,C11:server-died", e) /\ UNCHANGED <<seg, full>>
       [] OTHER -> UNCHANGED <<seg, full>>
TSpec == TInit /\ [][Consume]_vars
Post == PrintT("CONSUMED " \o ToString(TLCGet("stats").diameter - 1) \o " OF " \o ToString(Len(Trace)))
        /\ TLCGet("stats").diameter = Len(Trace) + 1
=============================================================================
