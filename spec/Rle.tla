-------------------------------- MODULE Rle --------------------------------
(* File contents as normalised run-length sequences: << <<len, val>>, ... >>,   *)
(* every len > 0 and adjacent vals different. One TLC value can hold a 1 GiB    *)
(* sparse file. All operators are total on normalised input.                    *)
EXTENDS Integers, Sequences

RMin(a, b) == IF a < b THEN a ELSE b
RMax(a, b) == IF a > b THEN a ELSE b

RECURSIVE RLenFrom(_, _)
RLenFrom(c, i) == IF i > Len(c) THEN 0 ELSE c[i][1] + RLenFrom(c, i + 1)
RLen(c) == RLenFrom(c, 1)

RECURSIVE RNormAcc(_, _, _)
RNormAcc(c, i, acc) ==
  IF i > Len(c) THEN acc
  ELSE LET r == c[i] IN
       IF r[1] = 0 THEN RNormAcc(c, i + 1, acc)
       ELSE IF acc # <<>> /\ acc[Len(acc)][2] = r[2]
            THEN RNormAcc(c, i + 1, [acc EXCEPT ![Len(acc)] = <<@[1] + r[1], r[2]>>])
            ELSE RNormAcc(c, i + 1, Append(acc, r))
RNorm(c) == RNormAcc(c, 1, <<>>)

(* bytes [a, b) of c; clipped to the length of c *)
RECURSIVE RSliceAcc(_, _, _, _, _, _)
RSliceAcc(c, a, b, i, p, acc) ==
  IF i > Len(c) \/ p >= b THEN acc
  ELSE LET q  == p + c[i][1]
           lo == RMax(a, p)
           hi == RMin(b, q)
       IN IF lo < hi THEN RSliceAcc(c, a, b, i + 1, q, Append(acc, <<hi - lo, c[i][2]>>))
          ELSE RSliceAcc(c, a, b, i + 1, q, acc)
RSlice(c, a, b) == IF a >= b THEN <<>> ELSE RSliceAcc(c, a, b, 1, 0, <<>>)

RPad(c, n) == LET l == RLen(c) IN IF l >= n THEN c ELSE RNorm(c \o << <<n - l, 0>> >>)

RTrunc(c, n) == LET l == RLen(c) IN IF n <= l THEN RSlice(c, 0, n) ELSE RPad(c, n)

(* overwrite bytes [off, off+RLen(d)) with d, zero-filling a gap *)
RWrite(c, off, d) ==
  LET c1 == RPad(c, off)
      n  == RLen(d)
      l  == RLen(c1)
  IN IF n = 0 THEN c   \* a zero-length write changes nothing (not even the size)
     ELSE RNorm(RSlice(c1, 0, off) \o d \o (IF off + n < l THEN RSlice(c1, off + n, l) ELSE <<>>))

(* what a READ of cnt bytes at off may return at most *)
RRead(c, off, cnt) == RSlice(c, off, off + cnt)

RIsNorm(c) == /\ \A i \in 1..Len(c) : c[i][1] > 0
              /\ \A i \in 1..(Len(c) - 1) : c[i][2] # c[i + 1][2]
=============================================================================
