SPECIFICATION MCSpec
CONSTANTS
  MaxObjs = 4
  MaxNext = 5
  MaxPath = 5
  MaxHist = 2
  AvoidDirCross = TRUE
CONSTRAINT Bound
VIEW View
INVARIANTS CanonAccepted TreeOK HandlesOK DurableOK ContentOK
PROPERTY RefusedUnchanged
CHECK_DEADLOCK FALSE
