------------------------------- MODULE Shrink -------------------------------
(* Design model of go-nfsd's multi-transaction freeing (inode/inode.go Resize,    *)
(* inode/shrink.go Shrink, shrinker/, nfs getShrink / getAlloc / doDecLink), the   *)
(* area behind C05 and C12 in which most defects of the original tree were found.   *)
(* One inode; sizes in blocks; `map` = the block indices that own a block.          *)
(* ShrinkSize (ssz) says how far freeing has got: blocks with index in [size, ssz)   *)
(* are still to be freed. A transaction can free at most K blocks (the journal's     *)
(* capacity); what is left is handed to the background shrinker, which works in      *)
(* transactions of its own; WRITE and SETATTR first complete a pending shrink        *)
(* (getShrink), REMOVE does not (doDecLink calls Resize(0) on whatever state the     *)
(* inode is in); a crash stops the shrinker and leaves a half-freed inode, whose     *)
(* freeing is completed when the inode is next touched or its number reused.         *)
(*   NoOrphan    every owned block lies below max(size, ssz): nothing is forgotten    *)
(*   Reclaimed   when no freeing is pending, exactly the blocks below size are owned   *)
(*               at most; pending freeing is always somebody's job (the shrinker's,    *)
(*               or - after a crash - of the next request that touches the inode)      *)
(*   FreeIsEmpty a free inode that is not half-freed owns nothing                      *)
(* Negative controls (the repaired defects): KeepSsz = FALSE (ShrinkSize reset while   *)
(* a shrink is pending), UseResult = FALSE (the result of an in-transaction Shrink     *)
(* that stopped at the transaction boundary ignored), Slack = 1 (getShrink takes a file  *)
(* with one block still to be freed for "not being freed": C12, NoStale).               *)
(*   NoStale     a block that was cut off by a truncation and is not freed yet never     *)
(*               lies below the size again: growing the file cannot re-expose old data    *)
EXTENDS Integers, FiniteSets, TLC
CONSTANTS MaxB, K, Budget, KeepSsz, UseResult, MaxOps, Slack, Recheck    \* MaxOps = 0: no bound on the number of operations (the whole reachable space)
(* K: what Resize estimates to fit in its transaction (shrinkFits(oldsz-newSz)); Budget <= K: what one transaction   *)
(* really frees (every freed block also dirties bitmap and index blocks, and Shrink re-checks the room per block).   *)

(* Recheck (TRUE in the code): getShrink looks at the file again, under its lock, after it has helped a truncation to   *)
(* its end; FALSE (a seeded change, r18h): it takes the file for done because the helping transactions returned - the    *)
(* file is unlocked between their end and the request's own lock, and another request can cut it again in between.        *)
VARIABLES kind, sz, ssz, map, shq, crashed, nops,
          pass,      \* a request has helped a truncation to its end and has not locked the file again yet (only used with Recheck = FALSE)
          stale      \* history: blocks cut off by a truncation (index >= the size set) that still hold their old content
vars == <<kind, sz, ssz, map, shq, crashed, nops, pass, stale>>
Max(a, b) == IF a > b THEN a ELSE b
Pending == ssz > sz
Seen == ssz > sz + Slack       \* what getShrink takes for "still being freed" (IsShrinking; Slack = 0 in the code)
Cut(n) == {i \in map : i >= n}

Init == kind = "file" /\ sz = 0 /\ ssz = 0 /\ map = {} /\ shq = FALSE /\ crashed = FALSE /\ nops = 0 /\ pass = FALSE /\ stale = {}

(* Shrink(): free from the top while the transaction has room; returns the new state *)
RECURSIVE DoShrink(_, _, _, _)
DoShrink(s, ss, m, budget) ==
  IF ss > s /\ budget > 0 THEN DoShrink(s, ss - 1, m \ {ss - 1}, budget - 1) ELSE <<ss, m>>

(* Resize(n) as in inode.go; returns <<sz', ssz', map', startShrinker>> *)
Resize(n) ==
  LET old == sz
      ss1 == IF n < old THEN (IF ssz < old THEN old ELSE ssz)
             ELSE IF (~KeepSsz) \/ ssz <= old THEN n ELSE ssz
  IN IF n < old
     THEN IF old - n < K
          THEN LET r == DoShrink(n, ss1, map, Budget) IN <<n, r[1], r[2], IF UseResult THEN r[1] > n ELSE FALSE>>
          ELSE <<n, ss1, map, TRUE>>
     ELSE <<n, ss1, map, FALSE>>

(* getShrink: WRITE / SETATTR complete a pending shrink in transactions of their own first *)
Help ==
  /\ kind = "file" /\ Seen /\ (MaxOps = 0 \/ nops < MaxOps)
  /\ LET r == DoShrink(sz, ssz, map, Budget) IN ssz' = r[1] /\ map' = r[2]
  /\ crashed' = (crashed /\ ssz' > sz) /\ nops' = (IF MaxOps = 0 THEN nops ELSE nops + 1)
  /\ pass' = (~Recheck /\ ~(ssz' > sz + Slack))
  /\ stale' = stale \cap map' /\ UNCHANGED <<kind, sz, shq>>
Go == ~Seen \/ pass                    \* the request goes ahead: the file is not being freed, or it was not when the request last looked
Used == IF Seen THEN FALSE ELSE pass    \* (the stale look is used up by the request that relies on it)
Write(i) ==
  /\ kind = "file" /\ Go /\ pass' = Used /\ (MaxOps = 0 \/ nops < MaxOps)
  /\ map' = map \cup {i} /\ sz' = Max(sz, i + 1) /\ nops' = (IF MaxOps = 0 THEN nops ELSE nops + 1)
  /\ UNCHANGED <<kind, ssz, shq, crashed, stale>>        \* a write may cover part of a block only: what is stale stays stale
Setattr(n) ==
  /\ kind = "file" /\ Go /\ pass' = Used /\ n # sz /\ (MaxOps = 0 \/ nops < MaxOps)
  /\ LET r == Resize(n) IN sz' = r[1] /\ ssz' = r[2] /\ map' = r[3] /\ shq' = (shq \/ r[4])
  /\ stale' = (stale \cup Cut(n)) \cap map'
  /\ nops' = (IF MaxOps = 0 THEN nops ELSE nops + 1) /\ UNCHANGED <<kind, crashed>>
Remove ==      \* doDecLink: Resize(0) and free the inode, whatever state it is in
  /\ kind = "file" /\ (MaxOps = 0 \/ nops < MaxOps)
  /\ LET r == Resize(0) IN sz' = r[1] /\ ssz' = r[2] /\ map' = r[3] /\ shq' = (shq \/ r[4])
  /\ stale' = (stale \cup Cut(0)) \cap map'
  /\ kind' = "free" /\ nops' = (IF MaxOps = 0 THEN nops ELSE nops + 1) /\ pass' = FALSE /\ UNCHANGED crashed
Alloc ==       \* getAlloc: a half-freed number is first shrunk completely (DoShrink), then initialised
  /\ kind = "free" /\ (MaxOps = 0 \/ nops < MaxOps)
  /\ IF Pending THEN LET r == DoShrink(sz, ssz, map, Budget) IN ssz' = r[1] /\ map' = r[2] /\ UNCHANGED <<kind, sz>>
     ELSE kind' = "file" /\ sz' = 0 /\ ssz' = 0 /\ UNCHANGED map
  /\ crashed' = (crashed /\ ssz' > sz') /\ nops' = (IF MaxOps = 0 THEN nops ELSE nops + 1) /\ UNCHANGED shq
  /\ stale' = stale \cap map' /\ UNCHANGED pass
Shrinker ==    \* one transaction of the background thread
  /\ shq
  /\ LET r == DoShrink(sz, ssz, map, Budget) IN ssz' = r[1] /\ map' = r[2] /\ shq' = (r[1] > sz)
  /\ stale' = stale \cap map' /\ UNCHANGED <<kind, sz, crashed, nops, pass>>
Crash ==       \* the shrinker thread is gone; the inode on disk is what the last transaction left
  /\ shq /\ shq' = FALSE /\ crashed' = Pending /\ UNCHANGED <<kind, sz, ssz, map, nops, pass, stale>>

Next == Help \/ (\E i \in 0..(MaxB - 1) : Write(i)) \/ (\E n \in 0..MaxB : Setattr(n)) \/ Remove \/ Alloc \/ Shrinker \/ Crash
Spec == Init /\ [][Next]_vars

NoOrphan == \A i \in map : i < Max(sz, ssz)
Reclaimed == /\ (~Pending => \A i \in map : i < sz)
             /\ (Pending => shq \/ crashed)
FreeIsEmpty == (kind = "free" /\ ~Pending) => map = {}
NoStale == kind = "file" => \A i \in stale : i >= sz
TypeOK == sz \in 0..MaxB /\ ssz \in 0..MaxB /\ map \subseteq 0..(MaxB - 1)
=============================================================================
