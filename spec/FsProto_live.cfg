SPECIFICATION FairSpec
CONSTANTS
  NI = 3
  Names = {"a", "b"}
  Clients = {1, 2}
  RecheckGen = TRUE
  SortLocks = TRUE
  PlusLocksKids = FALSE
  Scenario = "shrink"
  MaxTries = 4
  RecheckName = TRUE
  LowestFree = FALSE
  OneOp = {1}
PROPERTY Termination
CHECK_DEADLOCK TRUE
