------------------------------- MODULE Icache -------------------------------
(* Design model of the inode cache (cache/cache.go, fstxn.GetInodeLocked,          *)
(* fstxn/commit.go): a fixed number of slots with LRU eviction that does not look    *)
(* at whether an entry is in use; the slot holds the shared *Inode, mutated in place   *)
(* by the transaction that holds the inode's lock; a transaction journals the inode    *)
(* (WriteInode) and commits, or aborts - and then drops the cached copies it touched.  *)
(*   Coherent   an inode nobody holds is cached with exactly its committed value        *)
(*   OneCopy    the holder of a lock works on the only live copy: nobody can be handed   *)
(*              another copy of that inode while it is held                              *)
(* Negative controls: DropOnAbort = FALSE (the repaired defect: cached inodes kept after *)
(* an abort or a failed commit), AlwaysWrite = FALSE (a change made to the cached inode   *)
(* without journalling it: seeded changes of the C10 class). Checked on real runs by      *)
(* FsStruct (cached inode = disk inode) at every idle snapshot. LookupFirst = TRUE (the   *)
(* cache slot is looked up BEFORE the inode lock is waited for - a seeded change: the      *)
(* slot can be evicted and the inode cached afresh while the transaction waits, which then *)
(* works on a dead copy).                                                                   *)
EXTENDS Integers, FiniteSets, TLC
CONSTANTS Inums, Txns, NSlots, MaxVal, DropOnAbort, AlwaysWrite, LookupFirst

VARIABLES disk,     \* inum -> committed value
          cache,    \* inum -> value | -1 (not cached)
          lock,     \* inum -> txn | 0
          tx        \* txn -> [pc, i (inum), copy (the value it works on), dirty (journalled)]
vars == <<disk, cache, lock, tx>>
Idle == [pc |-> "idle", i |-> 0, copy |-> 0, dirty |-> FALSE, changed |-> FALSE]
Init == disk = [i \in Inums |-> 0] /\ cache = [i \in Inums |-> -1] /\ lock = [i \in Inums |-> 0] /\ tx = [t \in Txns |-> Idle]

Cached == {i \in Inums : cache[i] # -1}
(* negative control LookupFirst: the slot is obtained first ("peeked": the transaction holds a pointer to the cached object, *)
(* or - when it was not cached - to the fresh slot it has just filled in the cache), the lock afterwards                     *)
Peek(t, i) ==
  /\ LookupFirst /\ tx[t].pc = "idle"
  /\ \E ev \in (IF i \in Cached \/ Cardinality(Cached) < NSlots THEN {0} ELSE Cached \ {i}) :
        cache' = [j \in Inums |-> IF j = i THEN (IF cache[i] # -1 THEN cache[i] ELSE disk[i]) ELSE IF j = ev THEN -1 ELSE cache[j]]
  /\ tx' = [tx EXCEPT ![t] = [pc |-> "peeked", i |-> i, copy |-> 0, dirty |-> FALSE, changed |-> FALSE]]
  /\ UNCHANGED <<disk, lock>>
Acquire(t) ==      \* the lock is granted: the pointer is to the live object, unless the slot was evicted meanwhile ("dead")
  /\ tx[t].pc \in {"peeked", "dead"} /\ lock[tx[t].i] = 0
  /\ lock' = [lock EXCEPT ![tx[t].i] = t]
  /\ tx' = [tx EXCEPT ![t].pc = "held", ![t].copy = IF tx[t].pc = "dead" THEN @ ELSE cache[tx[t].i]]
  /\ UNCHANGED <<disk, cache>>
Lock(t, i) ==      \* LockInode + LookupSlot (+ load from the journal when the slot is empty); a full cache evicts some entry
  /\ ~LookupFirst /\ tx[t].pc = "idle" /\ lock[i] = 0
  /\ lock' = [lock EXCEPT ![i] = t]
  /\ \E ev \in (IF i \in Cached \/ Cardinality(Cached) < NSlots THEN {0} ELSE Cached) :
        cache' = [j \in Inums |-> IF j = i THEN (IF cache[i] # -1 THEN cache[i] ELSE disk[i]) ELSE IF j = ev THEN -1 ELSE cache[j]]
  /\ tx' = [tx EXCEPT ![t] = [pc |-> "held", i |-> i, copy |-> IF cache[i] # -1 THEN cache[i] ELSE disk[i], dirty |-> FALSE, changed |-> FALSE]]
  /\ UNCHANGED disk
Modify(t) ==       \* the cached object is changed in place (when its slot was evicted meanwhile, only the holder still has it)
  /\ tx[t].pc = "held" /\ tx[t].copy < MaxVal
  /\ LET i == tx[t].i  v == tx[t].copy + 1 IN
     /\ tx' = [tx EXCEPT ![t].copy = v, ![t].changed = TRUE, ![t].dirty = IF AlwaysWrite THEN TRUE ELSE @]
     /\ cache' = IF cache[i] # -1 THEN [cache EXCEPT ![i] = v] ELSE cache
  /\ UNCHANGED <<disk, lock>>
Journal(t) ==      \* WriteInode for a change made earlier (only needed in the negative control)
  /\ tx[t].pc = "held" /\ tx[t].changed /\ ~tx[t].dirty /\ tx' = [tx EXCEPT ![t].dirty = TRUE] /\ UNCHANGED <<disk, cache, lock>>
Commit(t) ==
  /\ tx[t].pc = "held"
  /\ disk' = IF tx[t].dirty THEN [disk EXCEPT ![tx[t].i] = tx[t].copy] ELSE disk
  /\ lock' = [lock EXCEPT ![tx[t].i] = 0] /\ tx' = [tx EXCEPT ![t] = Idle] /\ UNCHANGED cache
Abort(t) ==
  /\ tx[t].pc = "held"
  /\ cache' = IF DropOnAbort /\ tx[t].changed THEN [cache EXCEPT ![tx[t].i] = -1] ELSE cache
  /\ lock' = [lock EXCEPT ![tx[t].i] = 0] /\ tx' = [tx EXCEPT ![t] = Idle] /\ UNCHANGED disk
Evict(i) ==        \* cache pressure from inodes outside the model
  /\ cache[i] # -1 /\ cache' = [cache EXCEPT ![i] = -1] /\ UNCHANGED <<disk, lock>>
  /\ tx' = [t \in Txns |-> IF tx[t].pc = "peeked" /\ tx[t].i = i THEN [tx[t] EXCEPT !.pc = "dead", !.copy = cache[i]] ELSE tx[t]]
Next == (\E t \in Txns : (\E i \in Inums : Lock(t, i) \/ Peek(t, i)) \/ Acquire(t) \/ Modify(t) \/ Journal(t) \/ Commit(t) \/ Abort(t)) \/ (\E i \in Inums : Evict(i))
Spec == Init /\ [][Next]_vars

Coherent == \A i \in Inums : (lock[i] = 0 /\ cache[i] # -1) => cache[i] = disk[i]
OneCopy == \A i \in Inums : lock[i] # 0 => (cache[i] = -1 \/ cache[i] = tx[lock[i]].copy)
=============================================================================
