------------------------------- MODULE Icache -------------------------------
(* Design model of the inode cache (cache/cache.go, fstxn.GetInodeLocked,          *)
(* fstxn/commit.go): a fixed number of slots with LRU eviction that does not look    *)
(* at whether an entry is in use; the slot holds the shared *Inode, mutated in place   *)
(* by the transaction that holds the inode's lock; a transaction journals the inode    *)
(* (WriteInode) and commits, or aborts - and then drops the cached copies it touched.  *)
(*   Coherent   an inode nobody holds is cached with exactly its committed value        *)
(*   OneCopy    the holder of a lock works on the only live copy: nobody can be handed   *)
(*              another copy of that inode while it is held                              *)
(* Negative controls: DropOnAbort = FALSE (the repaired defect: cached inodes kept after *)
(* an abort or a failed commit), AlwaysWrite = FALSE (a change made to the cached inode   *)
(* without journalling it: seeded changes of the C10 class). Checked on real runs by      *)
(* FsStruct (cached inode = disk inode) at every idle snapshot. LookupFirst = TRUE (the   *)
(* cache slot is looked up BEFORE the inode lock is waited for - a seeded change: the      *)
(* slot can be evicted and the inode cached afresh while the transaction waits, which then *)
(* works on a dead copy). ReuseEntry = TRUE (seeded twice, r11cache and r19r: eviction hands  *)
(* the evicted entry's memory to the inode that is being looked up): a transaction that has    *)
(* been given an EMPTY slot and is still reading its inode from the disk fills, when it is      *)
(* done, a slot that by now belongs to another inode.                                            *)
EXTENDS Integers, FiniteSets, TLC
CONSTANTS Inums, Txns, NSlots, MaxVal, DropOnAbort, AlwaysWrite, LookupFirst, ReuseEntry

VARIABLES disk,     \* inum -> committed value
          cache,    \* inum -> value | -1 (not cached)
          lock,     \* inum -> txn | 0
          tx,       \* txn -> [pc, i (inum), copy (the value it works on), dirty (journalled)]
          fill      \* txn -> 0 | the inode whose slot the transaction will fill when it has read its own inode from the disk
                    \* (its own number: the slot it was given; another number: that slot's memory was re-used meanwhile; -1: the slot is dead)
vars == <<disk, cache, lock, tx, fill>>
Idle == [pc |-> "idle", i |-> 0, copy |-> 0, dirty |-> FALSE, changed |-> FALSE]
Init == disk = [i \in Inums |-> 0] /\ cache = [i \in Inums |-> -1] /\ lock = [i \in Inums |-> 0] /\ tx = [t \in Txns |-> Idle]
        /\ fill = [t \in Txns |-> 0]

Cached == {i \in Inums : cache[i] # -1}
(* negative control LookupFirst: the slot is obtained first ("peeked": the transaction holds a pointer to the cached object, *)
(* or - when it was not cached - to the fresh slot it has just filled in the cache), the lock afterwards                     *)
Peek(t, i) ==
  /\ LookupFirst /\ tx[t].pc = "idle"
  /\ \E ev \in (IF i \in Cached \/ Cardinality(Cached) < NSlots THEN {0} ELSE Cached \ {i}) :
        cache' = [j \in Inums |-> IF j = i THEN (IF cache[i] # -1 THEN cache[i] ELSE disk[i]) ELSE IF j = ev THEN -1 ELSE cache[j]]
  /\ tx' = [tx EXCEPT ![t] = [pc |-> "peeked", i |-> i, copy |-> 0, dirty |-> FALSE, changed |-> FALSE]]
  /\ UNCHANGED <<disk, lock, fill>>
Acquire(t) ==      \* the lock is granted: the pointer is to the live object, unless the slot was evicted meanwhile ("dead")
  /\ tx[t].pc \in {"peeked", "dead"} /\ lock[tx[t].i] = 0
  /\ lock' = [lock EXCEPT ![tx[t].i] = t]
  /\ tx' = [tx EXCEPT ![t].pc = "held", ![t].copy = IF tx[t].pc = "dead" THEN @ ELSE cache[tx[t].i]]
  /\ UNCHANGED <<disk, cache, fill>>
Lock(t, i) ==      \* LockInode + LookupSlot (+ load from the journal when the slot is empty); a full cache evicts some entry
  /\ ~LookupFirst /\ tx[t].pc = "idle" /\ lock[i] = 0 /\ i \in Cached     \* a hit (a miss is two steps, below)
  /\ lock' = [lock EXCEPT ![i] = t]
  /\ \E ev \in (IF i \in Cached \/ Cardinality(Cached) < NSlots THEN {0} ELSE Cached) :
        cache' = [j \in Inums |-> IF j = i THEN (IF cache[i] # -1 THEN cache[i] ELSE disk[i]) ELSE IF j = ev THEN -1 ELSE cache[j]]
  /\ tx' = [tx EXCEPT ![t] = [pc |-> "held", i |-> i, copy |-> IF cache[i] # -1 THEN cache[i] ELSE disk[i], dirty |-> FALSE, changed |-> FALSE]]
  /\ UNCHANGED <<disk, fill>>
(* A miss. The transaction is given an empty slot for i (evicting some entry when the cache is full) and reads the  *)
(* inode from the disk; Fill puts the object into the slot it was given - whose memory may belong to another inode by then.    *)
Occupied == Cardinality(Cached) + Cardinality({u \in Txns : tx[u].pc = "reading" /\ fill[u] = tx[u].i})   \* entries, the empty ones included
Miss(t, i) ==
  /\ ~LookupFirst /\ tx[t].pc = "idle" /\ lock[i] = 0 /\ i \notin Cached /\ \A u \in Txns : fill[u] # i
  /\ lock' = [lock EXCEPT ![i] = t]
  /\ \E ev \in (IF Occupied < NSlots \/ Cached = {} THEN {0} ELSE Cached) : cache' = [j \in Inums |-> IF j = ev THEN -1 ELSE cache[j]]
  /\ tx' = [tx EXCEPT ![t] = [pc |-> "reading", i |-> i, copy |-> disk[i], dirty |-> FALSE, changed |-> FALSE]]
  /\ fill' = [fill EXCEPT ![t] = i] /\ UNCHANGED disk
(* another lookup misses while the cache is full of entries in use and t's still empty entry is the eviction victim: its memory  *)
(* now is inode j's slot (j is loaded and cached by its own transaction, not modelled further: j is simply cached)                *)
Steal(t, j) ==
  /\ ReuseEntry /\ Occupied >= NSlots /\ tx[t].pc = "reading" /\ fill[t] = tx[t].i /\ j # tx[t].i /\ lock[j] = 0 /\ cache[j] = -1
  /\ fill' = [fill EXCEPT ![t] = j] /\ cache' = [cache EXCEPT ![j] = disk[j]] /\ UNCHANGED <<disk, lock, tx>>
(* as built: the evicted entry is simply dropped; the transaction still holds a pointer to it and fills dead memory *)
Kill(t) ==
  /\ ~ReuseEntry /\ Occupied >= NSlots /\ tx[t].pc = "reading" /\ fill[t] = tx[t].i /\ fill' = [fill EXCEPT ![t] = -1] /\ UNCHANGED <<disk, cache, lock, tx>>
Fill(t) ==
  /\ tx[t].pc = "reading"
  /\ cache' = IF fill[t] = -1 THEN cache
              ELSE [cache EXCEPT ![fill[t]] = tx[t].copy + (IF fill[t] = tx[t].i THEN 0 ELSE 100)]    \* (+100: the object of another inode)
  /\ tx' = [tx EXCEPT ![t].pc = "held"] /\ fill' = [fill EXCEPT ![t] = 0] /\ UNCHANGED <<disk, lock>>
Modify(t) ==       \* the cached object is changed in place (when its slot was evicted meanwhile, only the holder still has it)
  /\ tx[t].pc = "held" /\ tx[t].copy < MaxVal
  /\ LET i == tx[t].i  v == tx[t].copy + 1 IN
     /\ tx' = [tx EXCEPT ![t].copy = v, ![t].changed = TRUE, ![t].dirty = IF AlwaysWrite THEN TRUE ELSE @]
     /\ cache' = IF cache[i] # -1 /\ cache[i] < 100 THEN [cache EXCEPT ![i] = v] ELSE cache
  /\ UNCHANGED <<disk, lock, fill>>
Journal(t) ==      \* WriteInode for a change made earlier (only needed in the negative control)
  /\ tx[t].pc = "held" /\ tx[t].changed /\ ~tx[t].dirty /\ tx' = [tx EXCEPT ![t].dirty = TRUE] /\ UNCHANGED <<disk, cache, lock, fill>>
Commit(t) ==
  /\ tx[t].pc = "held"
  /\ disk' = IF tx[t].dirty THEN [disk EXCEPT ![tx[t].i] = tx[t].copy] ELSE disk
  /\ lock' = [lock EXCEPT ![tx[t].i] = 0] /\ tx' = [tx EXCEPT ![t] = Idle] /\ UNCHANGED <<cache, fill>>
Abort(t) ==
  /\ tx[t].pc = "held"
  /\ cache' = IF DropOnAbort /\ tx[t].changed THEN [cache EXCEPT ![tx[t].i] = -1] ELSE cache
  /\ lock' = [lock EXCEPT ![tx[t].i] = 0] /\ tx' = [tx EXCEPT ![t] = Idle] /\ UNCHANGED <<disk, fill>>
Evict(i) ==        \* cache pressure from inodes outside the model
  /\ cache[i] # -1 /\ cache' = [cache EXCEPT ![i] = -1] /\ UNCHANGED <<disk, lock, fill>>
  /\ tx' = [t \in Txns |-> IF tx[t].pc = "peeked" /\ tx[t].i = i THEN [tx[t] EXCEPT !.pc = "dead", !.copy = cache[i]] ELSE tx[t]]
Next == (\E t \in Txns : (\E i \in Inums : Lock(t, i) \/ Peek(t, i) \/ Miss(t, i) \/ Steal(t, i)) \/ Fill(t) \/ Kill(t) \/ Acquire(t) \/ Modify(t) \/ Journal(t) \/ Commit(t) \/ Abort(t)) \/ (\E i \in Inums : Evict(i))
Spec == Init /\ [][Next]_vars

Coherent == \A i \in Inums : (lock[i] = 0 /\ cache[i] # -1) => cache[i] = disk[i]
OneCopy == \A i \in Inums : lock[i] # 0 => (cache[i] = -1 \/ cache[i] = tx[lock[i]].copy)
=============================================================================
