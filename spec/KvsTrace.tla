------------------------------ MODULE KvsTrace ------------------------------
EXTENDS KvsSpec, Json, IOUtils
TraceFile == IF "TRACE" \in DOMAIN IOEnv THEN IOEnv.TRACE ELSE "trace.ndjson"
Trace == ndJsonDeserialize(TraceFile)
VARIABLES l, kv, bad, seg, H, rng
vars == <<l, kv, bad, seg, H, rng>>
TInit == l = 1 /\ kv = <<>> /\ bad = TRUE /\ seg = 0 /\ H = <<>> /\ rng = <<0, 0>>
Report(line, rules, e) ==
  PrintT("VIOL " \o ToJson([line |-> line, seg |-> seg, rules |-> rules, ev |-> e.ev, proc |-> IF "op" \in DOMAIN e THEN e.op ELSE "",
                            i |-> IF "i" \in DOMAIN e THEN e.i ELSE -1]))
ToSet(q) == {q[i] : i \in 1..Len(q)}
Consume ==
  /\ l <= Len(Trace) /\ l' = l + 1
  /\ rng' = IF Trace[l].ev = "reset" THEN <<Trace[l].lo, Trace[l].hi>> ELSE rng
  /\ LET e == Trace[l] IN
     IF e.ev = "reset" THEN kv' = KInit(ToSet(e.keys)) /\ bad' = FALSE /\ seg' = e.seg /\ H' = <<KInit(ToSet(e.keys))>>
     ELSE /\ seg' = seg
          /\ IF bad THEN UNCHANGED <<kv, bad>>
             ELSE CASE e.ev = "kv" ->
                        LET v == KCheck(kv, e, rng[1], rng[2]) IN
                        IF v = <<>> THEN kv' = KNext(kv, e, rng[1], rng[2]) /\ bad' = FALSE ELSE Report(l, v, e) /\ bad' = TRUE /\ kv' = kv
                    [] e.ev = "kdump" ->
                        IF KDumpOK(kv, e) THEN UNCHANGED <<kv, bad>>
                        ELSE Report(l, <<"C18:state-differs-from-specification">>, e) /\ bad' = TRUE /\ kv' = kv
                    [] e.ev = "krestart" ->
                        IF KDumpOK(kv, e.dump) THEN UNCHANGED <<kv, bad>>
                        ELSE Report(l, <<"C18:put-not-durable-across-restart">>, e) /\ bad' = TRUE /\ kv' = kv
                    [] e.ev = "kcrashprobe" ->
                        IF e.invoked + 1 > Len(H) THEN UNCHANGED <<kv, bad>>
                        ELSE IF e.ok /\ \E k \in (e.acked + 1)..(e.invoked + 1) : KDumpOK(H[k], e.dump) THEN UNCHANGED <<kv, bad>>
                        ELSE Report(l, <<"C18:recovered-state-is-not-atomic-durable-prefix">>, e) /\ UNCHANGED <<kv, bad>>
                    [] OTHER -> UNCHANGED <<kv, bad>>
          /\ IF e.ev = "kv" /\ ~bad THEN H' = Append(H, kv') ELSE H' = H
TNext == Consume
TSpec == TInit /\ [][TNext]_vars
Post == PrintT("CONSUMED " \o ToString(TLCGet("stats").diameter - 1) \o " OF " \o ToString(Len(Trace)))
        /\ TLCGet("stats").diameter = Len(Trace) + 1
=============================================================================
