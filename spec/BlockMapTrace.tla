--------------------------- MODULE BlockMapTrace ---------------------------
(* Trace validation of the real block map against BlockMap.tla: the driver        *)
(* (harness/drv/bmap.go) executes operation sequences over the model's eight block   *)
(* indices at the corresponding positions of the real tree, with exactly as many     *)
(* free blocks as the model has. After every operation the number of blocks the      *)
(* WRITE reported, the file size and the number of free blocks must be what the       *)
(* model computes (the allocation of index blocks, short writes, what truncation      *)
(* frees); after the final REMOVE everything must be free again. Only the last rule    *)
(* is a statement of C05 and counts as a violation; a per-operation difference is      *)
(* reported as model drift (rule prefix MODEL: a note, not a verdict), because the      *)
(* property does not prescribe an allocation policy.                                    *)
EXTENDS BlockMap, Json, IOUtils
TraceFile == IF "TRACE" \in DOMAIN IOEnv THEN IOEnv.TRACE ELSE "trace.ndjson"
Trace == ndJsonDeserialize(TraceFile)
VARIABLES l, seg, live, k0
tvars == <<vars, l, seg, live, k0>>

TInit == /\ l = 1 /\ seg = 0 /\ live = FALSE /\ k0 = 0
         /\ dir = [i \in 0..(ND - 1) |-> 0] /\ ind = 0 /\ dind = 0 /\ store = [b \in Ids |-> NoSlots]
         /\ free = {} /\ other = Ids /\ size = 0 /\ ssz = 0 /\ nops = 0

Report(rule, e, want) == PrintT("VIOL " \o ToJson([line |-> l, seg |-> seg, rules |-> <<rule>>, ev |-> e.ev, proc |-> IF "op" \in DOMAIN e THEN e.op ELSE "",
                                                     i |-> -1, detail |-> want, want |-> <<>>]))
Keep == UNCHANGED <<dir, ind, dind, store, free, size, ssz, nops, other>>
SizeReal(s) == IF s = 0 THEN 0 ELSE <<0, 7, 8, 519, 520, 1031, 1032, 1543>>[s] + 1

Consume ==
  /\ l <= Len(Trace) /\ l' = l + 1
  /\ LET e == Trace[l] IN
     CASE e.ev = "reset" -> seg' = e.seg /\ live' = FALSE /\ k0' = 0 /\ Keep
       [] e.ev = "bminit" ->
            /\ dir' = [i \in 0..(ND - 1) |-> 0] /\ ind' = 0 /\ dind' = 0 /\ store' = [b \in Ids |-> NoSlots]
            /\ free' = 1..e.free /\ other' = Ids \ (1..e.free) /\ size' = 0 /\ ssz' = 0 /\ nops' = 0
            /\ live' = TRUE /\ k0' = e.free /\ seg' = seg
       [] e.ev = "bm" /\ live /\ e.op = "write" ->
            LET w == WriteFrom(St, e.bn, e.n, 0)
                st2 == IF w.done > 0 THEN w.st ELSE St
                sz2 == IF w.done > 0 /\ e.bn + w.done > size THEN e.bn + w.done ELSE size
                okk == /\ e.done = w.done /\ e.free = Cardinality(st2.free) /\ e.size = SizeReal(sz2)
                       /\ (e.st = "OK") = (w.done > 0)
            IN /\ (IF okk THEN TRUE ELSE Report("MODEL:block-map-differs-from-its-model", e,
                                                [done |-> w.done, free |-> Cardinality(st2.free), size |-> SizeReal(sz2)]))
               /\ Put(st2) /\ size' = sz2 /\ live' = okk /\ UNCHANGED <<ssz, nops, other, seg, k0>>
       [] e.ev = "bm" /\ live /\ e.op = "trunc" ->
            LET n == e.n
                st2 == IF n < size THEN ShrinkTo(St, IF ssz < size THEN size ELSE ssz, n) ELSE St
                okk == e.st = "OK" /\ e.free = Cardinality(st2.free) /\ e.size = SizeReal(n)
            IN /\ (IF okk THEN TRUE ELSE Report("MODEL:block-map-differs-from-its-model", e, [free |-> Cardinality(st2.free), size |-> SizeReal(n)]))
               /\ Put(st2) /\ size' = n /\ ssz' = IF n < size \/ ssz <= size THEN n ELSE ssz
               /\ live' = okk /\ UNCHANGED <<nops, other, seg, k0>>
       [] e.ev = "bmend" /\ live ->
            /\ (IF e.free = k0 THEN TRUE ELSE Report("C05:blocks-not-returned-after-remove", e, [free |-> k0]))
            /\ live' = FALSE /\ Keep /\ UNCHANGED <<seg, k0>>
       [] OTHER -> Keep /\ UNCHANGED <<seg, live, k0>>
TSpec == TInit /\ [][Consume]_tvars
Post == PrintT("CONSUMED " \o ToString(TLCGet("stats").diameter - 1) \o " OF " \o ToString(Len(Trace)))
        /\ TLCGet("stats").diameter = Len(Trace) + 1
=============================================================================
