SPECIFICATION Spec
CONSTANTS
  N = 4
  Txns = {1, 2}
  ByteRMW = FALSE
  EarlyRelease = FALSE
  FreeFirst = FALSE
  CancelAlloc = TRUE
INVARIANTS NeverTwice Coherent
CHECK_DEADLOCK FALSE
