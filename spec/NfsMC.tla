------------------------------- MODULE NfsMC -------------------------------
(* Exhaustive exploration of the reference NfsSpec over a small universe.      *)
(*                                                                              *)
(* For every reachable abstract state and every operation of the universe the   *)
(* canonical reply is constructed (Canon) and must be one that Check accepts    *)
(* (the reference is self-consistent); Next gives the successor. Invariants:     *)
(* tree shape, handle and file-id uniqueness, durability bookkeeping; action     *)
(* property: a refused call changes nothing.                                     *)
(*                                                                              *)
(* The same run is the test generator (model-based testing): `path` records the *)
(* operations that led to a state (hidden by the VIEW); for every generated      *)
(* transition one line "PLAN ..." is printed; the harness replays the plans on   *)
(* the real server and validates the recorded run with NfsTrace.                 *)
EXTENDS NfsSpec, Json

CONSTANTS MaxObjs, MaxNext, MaxPath, MaxHist,
          AvoidDirCross   \* TRUE: leave out RENAMEs of a directory into another parent (known finding KF-D20)

Nm == {"a", "b"}
LongName == "ccc"          \* stands for a name longer than name_max (replayed as 113 bytes)
DeadFh == "dead"           \* a handle that was never issued

VARIABLES s, path
vars == <<s, path>>

E0 == [ev |-> "call", i |-> 0, cl |-> 0, proc |-> "", ino |-> 0, fh |-> "", fh2 |-> "", name |-> "", nlen |-> 0, name2 |-> "", nlen2 |-> 0,
       off |-> 0, offsat |-> FALSE, cnt |-> 0, setsize |-> FALSE, size |-> 0, sizesat |-> FALSE, stable |-> 2, data |-> <<>>, dlen |-> 0,
       cookie |-> 0, dircount |-> 4096, maxcount |-> 16384, how |-> 0, target |-> "", tlen |-> 0,
       st |-> "OK", code |-> 0, rfh |-> "", hasfh |-> FALSE, hasattr |-> FALSE, rtype |-> 0, rsize |-> 0, rid |-> 0, rdata |-> <<>>, rcount |-> 0,
       reof |-> FALSE, rcommitted |-> 0, rverf |-> "v", rtarget |-> "", ents |-> <<>>, wtmax |-> 0, rtmax |-> 0, maxfs |-> 0, namemax |-> 0,
       freeb |-> -1, freei |-> -1, freeb2 |-> -1, freei2 |-> -1, leaked |-> <<>>, txns |-> 1]

NLen(n) == IF n = LongName THEN 113 ELSE IF n = "" THEN 0 ELSE IF n = ".." THEN 2 ELSE 1

FhOf(st, o) == IF o = 0 THEN DeadFh ELSE IF o \in DOMAIN st.objs THEN st.objs[o].fh ELSE "h" \o ToString(o)   \* removed objects keep their old handle

WithAttr(e, o) == [e EXCEPT !.hasattr = TRUE, !.rtype = o.kind, !.rid = o.id, !.rsize = IF SizeOf(o) >= 0 THEN SizeOf(o) ELSE 0]

(* an operation: [proc, o, name, o2, name2, off, cnt, tag, size, stable] *)
Args(st, op) ==
  [E0 EXCEPT !.rverf = "v" \o ToString(st.boot), !.proc = op.proc, !.fh = FhOf(st, op.o), !.fh2 = FhOf(st, op.o2), !.name = op.name, !.nlen = NLen(op.name),
             !.name2 = op.name2, !.nlen2 = NLen(op.name2), !.off = op.off, !.cnt = op.cnt, !.dlen = IF op.proc = "WRITE" THEN op.cnt ELSE 0,
             !.data = IF op.proc = "WRITE" /\ op.cnt > 0 THEN << <<op.cnt, op.tag>> >> ELSE <<>>,
             !.setsize = (op.proc = "SETATTR"), !.size = op.size, !.stable = op.stable,
             !.target = IF op.proc = "SYMLINK" THEN "/t" ELSE "", !.tlen = IF op.proc = "SYMLINK" THEN 2 ELSE 0]

ToSeqSet(S) == LET RECURSIVE H(_) H(R) == IF R = {} THEN <<>> ELSE LET x == CHOOSE y \in R : TRUE IN <<x>> \o H(R \ {x}) IN H(S)

(* the canonical successful reply *)
Canon(st, op) ==
  LET e == Args(st, op)
      x == Exp(st, e)
      o == ObjOf(st, e.fh)
  IN IF x \in {"ERR"} \/ (x = "ANY" /\ op.proc = "CREATE") THEN [e EXCEPT !.st = "ERR"]
     ELSE IF x = "STALE" THEN [e EXCEPT !.st = "STALE"]
     ELSE CASE op.proc \in {"GETATTR"} -> WithAttr(e, st.objs[o])
            [] op.proc = "SETATTR" -> WithAttr(e, [st.objs[o] EXCEPT !.data = RTrunc(@, e.size)])
            [] op.proc = "LOOKUP" -> LET c == EntObj(st, o, e.name) IN WithAttr([e EXCEPT !.rfh = st.objs[c].fh, !.hasfh = TRUE], st.objs[c])
            [] op.proc = "READ" -> LET d == RRead(st.objs[o].data, e.off, e.cnt) IN
                                   [e EXCEPT !.rdata = d, !.rcount = RLen(d), !.reof = (e.off + RLen(d) >= RLen(st.objs[o].data))]
            [] op.proc = "WRITE" -> WithAttr([e EXCEPT !.rcount = e.cnt, !.rcommitted = IF st.unstable THEN e.stable ELSE 2],
                                             [st.objs[o] EXCEPT !.data = RWrite(@, e.off, e.data)])
            [] op.proc \in {"CREATE", "MKDIR", "SYMLINK"} ->
                 [e EXCEPT !.rfh = "h" \o ToString(st.next), !.hasfh = TRUE, !.hasattr = TRUE, !.rid = st.next,
                           !.rtype = IF op.proc = "CREATE" THEN REG ELSE IF op.proc = "MKDIR" THEN DIR ELSE LNK,
                           !.rsize = IF op.proc = "SYMLINK" THEN 2 ELSE 0]
            [] op.proc = "READDIR" ->
                 LET ns == ToSeqSet({".", ".."} \cup Names(st.objs[o])) IN
                 [e EXCEPT !.ents = [i \in 1..Len(ns) |-> [name |-> ns[i], id |-> st.objs[EntObj(st, o, ns[i])].id, cookie |-> i * 128,
                                                           plus |-> FALSE, fh |-> "", type |-> 0, size |-> 0]],
                           !.reof = TRUE]
            [] OTHER -> e


Files(st) == {o \in DOMAIN st.objs : st.objs[o].kind = REG}
Dirs(st) == {o \in DOMAIN st.objs : st.objs[o].kind = DIR}
Removed(st) == (2..(st.next - 1)) \ DOMAIN st.objs

Op(p, o, n, o2, n2, off, cnt, tag, size, stable) ==
  [proc |-> p, o |-> o, name |-> n, o2 |-> o2, name2 |-> n2, off |-> off, cnt |-> cnt, tag |-> tag, size |-> size, stable |-> stable]

Ops(st) ==
  LET H == DOMAIN st.objs \cup {0} \cup (IF Removed(st) = {} THEN {} ELSE {CHOOSE r \in Removed(st) : TRUE})
      D == Dirs(st) \cup {0}
      F == Files(st)
      room == Cardinality(DOMAIN st.objs) < MaxObjs /\ st.next < MaxNext
  IN {Op("GETATTR", o, "", 0, "", 0, 0, 0, 0, 2) : o \in H}
     \cup {Op("LOOKUP", d, n, 0, "", 0, 0, 0, 0, 2) : d \in D \cup F, n \in Nm \cup {".", ".."}}
     \cup (IF room THEN {Op(p, d, n, 0, "", 0, 0, 0, 0, 2) : p \in {"CREATE", "MKDIR", "SYMLINK"}, d \in D, n \in Nm \cup {LongName}} ELSE {})
     \cup {Op(p, d, n, 0, "", 0, 0, 0, 0, 2) : p \in {"REMOVE", "RMDIR"}, d \in D, n \in Nm \cup {"."}}
     \cup {op \in {Op("RENAME", d, n, d2, n2, 0, 0, 0, 0, 2) : d \in Dirs(st), n \in Nm, d2 \in D, n2 \in Nm \cup {LongName}} :
              ~(AvoidDirCross /\ op.o2 # op.o /\ op.name \in DOMAIN st.objs[op.o].ents /\ st.objs[st.objs[op.o].ents[op.name]].kind = DIR)}
     \cup {Op("WRITE", f, "", 0, "", off, cnt, 1 + (st.nops % 2), 0, stb) : f \in F \cup (H \ DOMAIN st.objs), off \in {0, 1, 3}, cnt \in {1, 2}, stb \in {0, 2}}
     \cup {Op("SETATTR", f, "", 0, "", 0, 0, 0, sz, 2) : f \in F, sz \in {0, 1, 4}}
     \cup {Op("READ", f, "", 0, "", off, 4, 0, 0, 2) : f \in F, off \in {0, 2}}
     \cup {Op("COMMIT", f, "", 0, "", 0, 0, 0, 0, 2) : f \in F}
     \cup {Op("READDIR", d, "", 0, "", 0, 0, 0, 0, 2) : d \in Dirs(st)}

Init ==
  /\ s = [InitState("r", TRUE) EXCEPT !.lim = [known |-> TRUE, wtmax |-> 100, maxfs |-> 1000, rtmax |-> 100, pcknown |-> TRUE, namemax |-> 112]]
  /\ path = <<>>

DoOp(op) ==
  LET e == Canon(s, op) IN
  /\ Check(s, e) = <<>>
  /\ s' = Next(s, e)
  /\ path' = Append(path, op)

(* restart / crash: the durable state or any later acknowledged-unstable prefix *)
Recover(k) ==
  /\ k \in 1..(1 + Len(s.hist))
  /\ s' = AfterRecovery(s, Candidates(s, <<>>)[k])
  /\ path' = Append(path, Op("RESTART", 0, "", 0, "", 0, 0, 0, 0, 2))

MCNext == (\E op \in Ops(s) : DoOp(op)) \/ (\E k \in 1..3 : Recover(k))
MCSpec == Init /\ [][MCNext]_vars

Bound == Len(path) <= MaxPath /\ Len(s.hist) <= MaxHist /\ s.boot <= 2
View == s

(*--------------------------------------------------------------------------*)
(* properties of the reference itself                                          *)

CanonAccepted == \A op \in Ops(s) : Check(s, Canon(s, op)) = <<>> \/ (PrintT(<<"CANON-REJECTED", op, Check(s, Canon(s, op))>>) /\ FALSE)

TreeOK ==
  /\ RootId \in DOMAIN s.objs /\ s.objs[RootId].kind = DIR
  /\ \A o \in DOMAIN s.objs \ {RootId} :
        Cardinality({dn \in (DOMAIN s.objs) \X (Nm \cup {LongName}) :
                       dn[2] \in DOMAIN s.objs[dn[1]].ents /\ s.objs[dn[1]].ents[dn[2]] = o}) = 1
  /\ \A d \in DOMAIN s.objs : \A n \in DOMAIN s.objs[d].ents : s.objs[d].ents[n] \in DOMAIN s.objs /\ s.objs[d].kind = DIR
  /\ \A d \in Dirs(s) \ {RootId} : s.objs[d].parent \in Dirs(s) /\ \E n \in DOMAIN s.objs[s.objs[d].parent].ents : s.objs[s.objs[d].parent].ents[n] = d
  /\ \A d \in Dirs(s) : IsAncestorOrSelf(s.objs, RootId, d, 10)

HandlesOK ==
  /\ \A a, b \in DOMAIN s.objs : a # b => s.objs[a].fh # s.objs[b].fh /\ s.objs[a].id # s.objs[b].id
  /\ \A a \in DOMAIN s.objs : s.objs[a].fh \in s.issued

DurableOK ==   \* every remembered state is a tree whose handles were issued
  /\ Len(s.hist) = Len(s.histw) /\ Len(s.hist) = Len(s.histn)
  /\ \A k \in 1..Len(s.hist) : \A o \in DOMAIN s.hist[k] : s.hist[k][o].fh \in s.issued
  /\ (s.hist = <<>>) => TRUE

ContentOK == \A f \in Files(s) : RIsNorm(s.objs[f].data)

(* a refused call changes nothing *)
RefusedUnchanged == [][\A op \in Ops(s) : (Canon(s, op).st # "OK" /\ path' = Append(path, op)) => s'.objs = s.objs]_vars

(* test generation: one line per generated transition *)
Emit == PrintT("PLAN " \o ToJson(path'))
(* simulation mode: only complete walks *)
EmitFull == Len(path') < MaxPath \/ PrintT("PLAN " \o ToJson(path'))
=============================================================================
