------------------------------ MODULE AllocTxn ------------------------------
(* Design model of alloctxn/: block (or inode) numbers are handed out by an       *)
(* in-memory allocator, recorded per transaction, written to the on-disk bitmap as  *)
(* ONE-BIT journal objects at PreCommit (so that concurrent transactions touching    *)
(* neighbouring bits merge in the journal), given back in memory at PostCommit       *)
(* (frees) or at Abort (allocations). The bitmaps are protected by no lock.          *)
(*   NeverTwice   a number marked used on disk is marked used in memory (it cannot    *)
(*                be handed out again), and no two transactions hold the same number   *)
(*   Coherent     when no transaction is in flight, memory and disk agree              *)
(* Negative control ByteRMW = TRUE: PreCommit reads the bitmap BYTE (a group of bits)  *)
(* through the journal, changes its own bit and journals the byte - an unsynchronised  *)
(* read-modify-write: a seeded "optimisation" (r4C01 / r4C04). Checked on real runs by *)
(* FsStruct (allocators = bitmaps = ownership) at every snapshot and crash image.      *)
(* A transaction may also free a number it allocated itself (inode.indbmap gives a      *)
(* fresh index block back when nothing can be allocated under it). Further negative      *)
(* controls, all of them changes seeded more than once: EarlyRelease (freed numbers go    *)
(* back to the in-memory allocator at PreCommit, before the journal has the transaction), *)
(* FreeFirst (PreCommit writes the free bits before the allocation bits: for a number     *)
(* allocated and freed by one transaction the last write wins), CancelAlloc (FreeBlock    *)
(* takes such a number off the allocation list: an abort then forgets it).                *)
EXTENDS Integers, FiniteSets, TLC
CONSTANTS N, Txns, ByteRMW, EarlyRelease, FreeFirst, CancelAlloc
Nums == 0..(N - 1)
VARIABLES disk, mem, tx
vars == <<disk, mem, tx>>
(* tx[t] = [pc, al, fr, img]: allocations, frees, and (ByteRMW) the byte image read at PreCommit *)
Idle == [pc |-> "idle", al |-> {}, fr |-> {}, img |-> {}]
Init == /\ disk \in SUBSET Nums /\ Cardinality(disk) <= 2 /\ mem = disk /\ tx = [t \in Txns |-> Idle]

Begin(t) == tx[t].pc = "idle" /\ tx' = [tx EXCEPT ![t] = [Idle EXCEPT !.pc = "run"]] /\ UNCHANGED <<disk, mem>>
Alloc(t) == /\ tx[t].pc = "run" /\ Cardinality(tx[t].al) < 2
            /\ \E b \in Nums \ mem : mem' = mem \cup {b} /\ tx' = [tx EXCEPT ![t].al = @ \cup {b}]
            /\ UNCHANGED disk
Free(t) ==  /\ tx[t].pc = "run" /\ Cardinality(tx[t].fr) < 2
            (* a transaction frees numbers that belong to an object it has locked: committed, and nobody else's *)
            /\ \/ \E b \in disk \ UNION {tx[u].fr \cup tx[u].al : u \in Txns} : tx' = [tx EXCEPT ![t].fr = @ \cup {b}]
               \/ \E b \in tx[t].al \ tx[t].fr :       \* one of its own allocations
                    tx' = [tx EXCEPT ![t].fr = @ \cup {b}, ![t].al = IF CancelAlloc THEN @ \ {b} ELSE @]
            /\ UNCHANGED <<disk, mem>>
PreCommit(t) == /\ tx[t].pc = "run"
                /\ tx' = [tx EXCEPT ![t].pc = "pre", ![t].img = disk]     \* ByteRMW: the byte as read now
                /\ mem' = IF EarlyRelease THEN mem \ tx[t].fr ELSE mem
                /\ UNCHANGED disk
Commit(t) == /\ tx[t].pc = "pre"
             /\ disk' = IF ByteRMW THEN (tx[t].img \cup tx[t].al) \ tx[t].fr      \* the whole byte is journalled
                        ELSE IF FreeFirst THEN (disk \ tx[t].fr) \cup tx[t].al
                        ELSE (disk \cup tx[t].al) \ tx[t].fr                      \* bit objects merge in the journal
             /\ tx' = [tx EXCEPT ![t].pc = "post"] /\ UNCHANGED mem
PostCommit(t) == /\ tx[t].pc = "post" /\ mem' = mem \ tx[t].fr /\ tx' = [tx EXCEPT ![t] = Idle] /\ UNCHANGED disk
Abort(t) == /\ tx[t].pc = "run" /\ mem' = mem \ tx[t].al /\ tx' = [tx EXCEPT ![t] = Idle] /\ UNCHANGED disk
Next == \E t \in Txns : Begin(t) \/ Alloc(t) \/ Free(t) \/ PreCommit(t) \/ Commit(t) \/ PostCommit(t) \/ Abort(t)
Spec == Init /\ [][Next]_vars

NeverTwice == /\ disk \subseteq mem
              /\ \A t, u \in Txns : t # u => tx[t].al \cap tx[u].al = {}
Coherent == (\A t \in Txns : tx[t].pc = "idle") => mem = disk
=============================================================================
