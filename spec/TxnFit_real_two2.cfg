\* the real constants: journal of 511 blocks, 8 direct pointers, 512 pointers per index block, four bitmap areas (the default 400 MB disk); dense files
SPECIFICATION Spec
CONSTANTS Cap = 511  ND = 8  NB = 512  NArea = 2  Reserve = 5  CountBitmaps = FALSE  Holes = FALSE
  Lens = {300, 495, 503, 505, 508, 509, 521, 700, 1100, 1535, 1600}  NewSizes = {0, 8, 400, 520, 521}  Pres = {1, 4}  Posts = {0, 2}
INVARIANTS Fits Progress
CHECK_DEADLOCK FALSE
