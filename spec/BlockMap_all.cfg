SPECIFICATION Spec
CONSTANTS
  ND = 2
  NB = 2
  NBlocks = 7
  UndoFresh = TRUE
  MaxOps = 0
INVARIANTS NoLeak Covered EmptyAtZero
CHECK_DEADLOCK FALSE
