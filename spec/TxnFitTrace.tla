---------------------------- MODULE TxnFitTrace ----------------------------
(* Trace validation of the real freeing transactions against TxnFit.tla (real      *)
(* constants). The driver (harness/drv/txnfit.go) cuts or removes dense files and     *)
(* records, at fstxn's precommit hook, how many distinct blocks every transaction      *)
(* holds that commits while the file is being freed: first the RPC's own, then those    *)
(* of shrinker.DoShrink. For every record TLC searches the model's behaviours for that   *)
(* file length and target size - over all placements of the freed blocks in the bitmap   *)
(* areas the disk has, and over what the RPC dirties besides (Pres, Posts) - for one      *)
(* whose transactions have exactly the recorded sizes. A record that no behaviour of the   *)
(* model explains is reported: the model's step costs, on which its Fits theorem rests,     *)
(* are then not those of the code (rule MODEL:..., a note), or a recorded transaction is     *)
(* larger than the journal (rule C05,C11:..., a violation: such a commit is refused, the      *)
(* shrinker thread panics and the file can never be freed).                                   *)
EXTENDS TxnFit, Json, IOUtils, Sequences
TraceFile == IF "TRACE" \in DOMAIN IOEnv THEN IOEnv.TRACE ELSE "trace.ndjson"
All == ndJsonDeserialize(TraceFile)
Idx == SelectSeq([i \in 1..Len(All) |-> i], LAMBDA i : All[i].ev = "freeing")
Recs == [j \in 1..Len(Idx) |-> All[Idx[j]]]
VARIABLES rec, pos
tvars == <<vars, rec, pos>>

Txns(r) == Recs[r].txns
Start(r, d0, p0) ==
  /\ len' = Recs[r].len /\ newsz' = Recs[r].newsz /\ ssz' = Recs[r].len /\ mode' = "rpc"
  /\ nb' = 0 /\ fI' = FALSE /\ fL' = FALSE /\ fD' = FALSE /\ freed' = 0 /\ total' = 0
  /\ d' = d0 /\ post' = p0
  /\ phase' = IF Room(d0, 0, Recs[r].len - Recs[r].newsz) THEN "free" ELSE "handoff"

TInit == /\ rec = 0 /\ pos = 1 /\ TLCSet(1, 0)
         /\ len = 1 /\ newsz = 0 /\ ssz = 0 /\ mode = "bg" /\ d = 0 /\ nb = 0 /\ fI = FALSE /\ fL = FALSE /\ fD = FALSE
         /\ freed = 0 /\ post = 0 /\ phase = "done" /\ total = 0

NextRec ==     \* the previous record is explained completely: go on with the next one
  /\ phase = "done" /\ rec < Len(Recs) /\ (rec > 0 => pos = Len(Txns(rec)) + 1)
  /\ rec' = rec + 1 /\ pos' = 1
  /\ \E d0 \in Pres, p0 \in Posts : Start(rec + 1, d0, p0)
  /\ TLCSet(1, IF TLCGet(1) < rec THEN rec ELSE TLCGet(1))
TFree == /\ \E new \in 0..3 : Free(TRUE, new) /\ nb' <= Recs[rec].areas
         /\ UNCHANGED <<rec, pos>>
TFinish == /\ Finish
           /\ pos <= Len(Txns(rec)) /\ Txns(rec)[pos].k = mode /\ Txns(rec)[pos].n = total'
           /\ pos' = pos + 1 /\ UNCHANGED rec
THandoff == /\ Handoff /\ pos <= Len(Txns(rec)) /\ Txns(rec)[pos].k = "rpc"     \* the RPC only changes the size: its transaction is not the model's business
            /\ pos' = pos + 1 /\ UNCHANGED rec
TCommit == Commit /\ UNCHANGED <<rec, pos>>
Last == /\ phase = "done" /\ rec = Len(Recs) /\ rec > 0 /\ pos = Len(Txns(rec)) + 1 /\ TLCSet(1, rec) /\ UNCHANGED tvars

TNext == NextRec \/ TFree \/ TFinish \/ THandoff \/ TCommit \/ Last
TSpec == TInit /\ [][TNext]_tvars

(* records explained: register 1 holds the number of the last record that was explained completely *)
Over(r) == \E i \in 1..Len(Txns(r)) : Txns(r)[i].n > Cap /\ Txns(r)[i].k = "bg"
Post == LET done == TLCGet(1) IN
        /\ PrintT("CONSUMED " \o ToString(Len(All)) \o " OF " \o ToString(Len(All)))
        /\ \A r \in 1..Len(Recs) : Over(r) =>
              PrintT("VIOL " \o ToJson([line |-> Idx[r], seg |-> 0, rules |-> <<"C05,C11:freeing-transaction-larger-than-the-journal">>, ev |-> "freeing",
                                        proc |-> Recs[r].op, i |-> -1, detail |-> Recs[r], want |-> <<>>]))
        /\ (done < Len(Recs) =>
              PrintT("VIOL " \o ToJson([line |-> Idx[done + 1], seg |-> 0, rules |-> <<"MODEL:freeing-transactions-differ-from-their-model">>, ev |-> "freeing",
                                        proc |-> Recs[done + 1].op, i |-> -1, detail |-> Recs[done + 1], want |-> <<>>])))
=============================================================================
