SPECIFICATION TSpec
CONSTANTS
  ND = 2
  NB = 2
  NBlocks = 8
  UndoFresh = TRUE
  MaxOps = 99
POSTCONDITION Post
CHECK_DEADLOCK FALSE
