SPECIFICATION Spec
CONSTANTS
  NI = 4
  Names = {"a", "b"}
  Clients = {1, 2}
  RecheckGen = FALSE
  SortLocks = TRUE
  PlusLocksKids = FALSE
  Scenario = "half"
  MaxTries = 4
  RecheckName = TRUE
  LowestFree = FALSE
  OneOp = {1}
INVARIANTS TypeOK Refines NoSelfWait NoDeadlock LocksReleased TakenReturned RetryBound
CHECK_DEADLOCK TRUE
