------------------------------ MODULE FsProto ------------------------------
(* Design model of go-nfsd's transaction / inode-lock protocol at the grain of   *)
(* its critical sections: every RPC is a sequence of transactions; a transaction   *)
(* acquires inode locks one at a time, reads and changes the inodes it holds and    *)
(* releases everything at commit or abort. Between an abort and the re-lock a       *)
(* request holds nothing (the WINDOW) and must re-validate what it learnt before.   *)
(*                                                                                  *)
(* Modelled as in the code (nfs/nfs_ops.go, nfs/lorder.go, fstxn/fstxn.go):         *)
(*   GETATTR             GetInodeFh                                                 *)
(*   WRITE / TRUNC       getShrink: GetInodeFh; if the inode is still being freed:  *)
(*                       abort, DoShrink(inum), begin again from the HANDLE          *)
(*   LOOKUP / REMOVE     getInodesLocked: lock dir, look the name up; child > dir:   *)
(*                       lock child; else abort, lockInodes(sorted {child, dir}),    *)
(*                       re-validate the directory's generation and the entry         *)
(*   CREATE              getAlloc: lock dir, allocate a number, lock it (it may be    *)
(*                       smaller than the directory's); half-freed inode: abort,      *)
(*                       DoShrink, retry                                              *)
(*   RENAME              lock the two directories sorted; target exists: abort,       *)
(*                       lockInodes(sorted 3 or 4), validateRename, retry             *)
(*   READDIRPLUS         lock dir, then the children with a larger number (as repaired;  *)
(*                       every child in the negative control: the repaired KF-D13)       *)
(*   shrinker thread     lock inode, free some, commit, repeat                        *)
(*                                                                                  *)
(* Checked exhaustively for a few inodes, two clients and the shrinker:              *)
(*   Refines   every commit's reply and effect are those of the atomic operation      *)
(*             applied to the state at the commit (=> linearizable, handles denote    *)
(*             one object for ever)                                                    *)
(*   NoDeadlock, NoSelfWait, LocksReleased, Termination (under fairness)              *)
(* The switches are negative controls: with RecheckGen = FALSE (re-lock by number    *)
(* after the window, a seeded change), RecheckName = FALSE (CREATE's retry does not  *)
(* look the name up again, seeded), SortLocks = FALSE, or PlusLocksKids = TRUE          *)
(* (the known finding) the corresponding property fails.                               *)
EXTENDS Integers, Sequences, FiniteSets, TLC

CONSTANTS NI, Names, Clients, RecheckGen, SortLocks, PlusLocksKids, Scenario, MaxTries,
          OneOp,       \* the clients that issue one request; the others issue one or two
          LowestFree,  \* TRUE: the allocator hands out the lowest free number (what the real one does after a restart); FALSE: any
          RecheckName  \* FALSE (negative control, a seeded change): the retry of CREATE after completing a half-freed inode does not look the name up again

Inums == 1..NI
Root == 1
NoEnts == [n \in Names |-> 0]
SHR == 99             \* owner id of the shrinker thread (clients are small integers)

VARIABLES fs,      \* [kind, gen, ents, shr, big, ver]: the (committed = visible under lock) file-system state
          lock,    \* inum -> 0 | client | SHR
          taken,   \* inode numbers handed out by the in-memory allocator and not yet committed or returned
          shq,     \* inodes with a shrinker thread pending
          cs,      \* client -> [pc, op, todo, x, y, tries, st]
          bad      \* a commit disagreed with the atomic specification: a short description, "" if none
vars == <<fs, lock, taken, shq, cs, bad>>

(*--------------------------- atomic specification ---------------------------*)
Live(f, h) == f.kind[h[1]] # "free" /\ f.gen[h[1]] = h[2]
IsDir(f, h) == Live(f, h) /\ f.kind[h[1]] = "dir"
Empty(f, d) == \A n \in Names : f.ents[d][n] = 0
FreeIno(f, x) == [f EXCEPT !.kind[x] = "free", !.ents[x] = NoEnts, !.shr[x] = f.big[x], !.big[x] = FALSE, !.ver[x] = 0]

(* result of an operation applied atomically to f; alloc = the number a CREATE uses *)
Atomic(f, op, alloc) ==
  LET h == op.h  i == h[1] IN
  CASE op.p = "GETATTR" -> IF Live(f, h) THEN [st |-> "OK", rv |-> <<f.kind[i], f.ver[i]>>, f |-> f] ELSE [st |-> "STALE", rv |-> <<>>, f |-> f]
    [] op.p = "WRITE" ->
         IF ~Live(f, h) THEN [st |-> "STALE", rv |-> <<>>, f |-> f]
         ELSE IF f.kind[i] # "file" THEN [st |-> "ERR", rv |-> <<>>, f |-> f]
         ELSE [st |-> "OK", rv |-> <<>>, f |-> [f EXCEPT !.ver[i] = 1 + op.v, !.big[i] = @ \/ op.big]]
    [] op.p = "TRUNC" ->
         IF ~Live(f, h) THEN [st |-> "STALE", rv |-> <<>>, f |-> f]
         ELSE IF f.kind[i] # "file" THEN [st |-> "ERR", rv |-> <<>>, f |-> f]
         ELSE [st |-> "OK", rv |-> <<>>, f |-> [f EXCEPT !.ver[i] = 0, !.shr[i] = @ \/ f.big[i], !.big[i] = FALSE]]
    [] op.p = "LOOKUP" ->
         IF ~Live(f, h) THEN [st |-> "STALE", rv |-> <<>>, f |-> f]
         ELSE IF f.kind[i] # "dir" THEN [st |-> "ERR", rv |-> <<>>, f |-> f]
         ELSE IF f.ents[i][op.n] = 0 THEN [st |-> "NOENT", rv |-> <<>>, f |-> f]
         ELSE [st |-> "OK", rv |-> <<f.ents[i][op.n], f.gen[f.ents[i][op.n]]>>, f |-> f]
    [] op.p = "REMOVE" ->
         IF ~Live(f, h) THEN [st |-> "STALE", rv |-> <<>>, f |-> f]
         ELSE IF f.kind[i] # "dir" THEN [st |-> "ERR", rv |-> <<>>, f |-> f]
         ELSE LET x == f.ents[i][op.n] IN
              IF x = 0 THEN [st |-> "NOENT", rv |-> <<>>, f |-> f]
              ELSE IF f.kind[x] = "dir" /\ ~Empty(f, x) THEN [st |-> "ERR", rv |-> <<>>, f |-> f]
              ELSE [st |-> "OK", rv |-> <<>>, f |-> FreeIno([f EXCEPT !.ents[i][op.n] = 0], x)]
    [] op.p = "CREATE" ->
         IF ~Live(f, h) THEN [st |-> "STALE", rv |-> <<>>, f |-> f]
         ELSE IF f.kind[i] # "dir" THEN [st |-> "ERR", rv |-> <<>>, f |-> f]
         ELSE IF f.ents[i][op.n] # 0 THEN [st |-> "EXIST", rv |-> <<>>, f |-> f]
         ELSE IF alloc = 0 THEN [st |-> "NOSPC", rv |-> <<>>, f |-> f]
         ELSE [st |-> "OK", rv |-> <<alloc, f.gen[alloc] + 1>>,
               f |-> [f EXCEPT !.kind[alloc] = "file", !.gen[alloc] = @ + 1, !.ents[i][op.n] = alloc]]
    [] op.p = "RENAME" ->
         LET h2 == op.h2  j == h2[1] IN
         IF ~Live(f, h) \/ ~Live(f, h2) THEN [st |-> "STALE", rv |-> <<>>, f |-> f]
         ELSE IF f.kind[i] # "dir" \/ f.kind[j] # "dir" THEN [st |-> "ERR", rv |-> <<>>, f |-> f]
         ELSE LET from == f.ents[i][op.n]  to == f.ents[j][op.n2] IN
              IF from = 0 THEN [st |-> "NOENT", rv |-> <<>>, f |-> f]
              ELSE IF i = j /\ to = from THEN [st |-> "OK", rv |-> <<>>, f |-> f]
              ELSE IF to = 0 THEN [st |-> "OK", rv |-> <<>>, f |-> [f EXCEPT !.ents[i][op.n] = 0, !.ents[j][op.n2] = from]]
              ELSE IF f.kind[to] # f.kind[from] THEN [st |-> "ERR", rv |-> <<>>, f |-> f]
              ELSE IF f.kind[to] = "dir" /\ ~Empty(f, to) THEN [st |-> "ERR", rv |-> <<>>, f |-> f]
              ELSE [st |-> "OK", rv |-> <<>>,
                    f |-> FreeIno([f EXCEPT !.ents[i][op.n] = 0, !.ents[j][op.n2] = from], to)]
    [] op.p = "READDIRPLUS" ->
         IF ~Live(f, h) THEN [st |-> "STALE", rv |-> <<>>, f |-> f]
         ELSE IF f.kind[i] # "dir" THEN [st |-> "ERR", rv |-> <<>>, f |-> f]
         ELSE [st |-> "OK", rv |-> [n \in Names |-> IF f.ents[i][n] = 0 THEN <<0, 0>> ELSE <<f.ents[i][n], f.gen[f.ents[i][n]]>>], f |-> f]

(*------------------------------ initial states ------------------------------*)
Kinds0 ==
  CASE Scenario = "half" -> [i \in Inums |-> IF i = 1 THEN "dir" ELSE IF i = 2 THEN "dir" ELSE "free"]
    [] Scenario \in {"tree", "treegen"} -> [i \in Inums |-> IF i = 1 THEN "dir" ELSE IF i = 3 THEN "dir" ELSE IF i = 2 THEN "file" ELSE "free"]
    [] OTHER -> [i \in Inums |-> IF i = 1 THEN "dir" ELSE IF i = 2 THEN "file" ELSE "free"]
A == CHOOSE n \in Names : TRUE
B == CHOOSE n \in Names : n # A
(* "tree": / = 1 {a -> 3 (dir)}, 3 {a -> 2 (file): child number BELOW its directory's}                              *)
(* "shrink": / = 1 {a -> 2 (big file, truncation still being completed by the shrinker)}                          *)
(* "half": / = 1 {a -> 2 (dir)}; inode 3 is free but still holds blocks (the server stopped in the middle of freeing *)
(*         it): the next CREATE that is handed number 3 aborts, finishes the freeing and retries (getAlloc)         *)
Fs0 ==
  IF Scenario = "half"
  THEN [kind |-> Kinds0, gen |-> [i \in Inums |-> 1],
        ents |-> [i \in Inums |-> IF i = 1 THEN [NoEnts EXCEPT ![A] = 2] ELSE NoEnts],
        shr |-> [i \in Inums |-> i = 3], big |-> [i \in Inums |-> FALSE], ver |-> [i \in Inums |-> 0]]
  ELSE IF Scenario \in {"tree", "treegen"}
  THEN [kind |-> Kinds0, gen |-> [i \in Inums |-> 1],
        ents |-> [i \in Inums |-> IF i = 1 THEN [NoEnts EXCEPT ![A] = 3] ELSE IF i = 3 THEN [NoEnts EXCEPT ![A] = 2] ELSE NoEnts],
        shr |-> [i \in Inums |-> FALSE], big |-> [i \in Inums |-> FALSE], ver |-> [i \in Inums |-> 0]]
  ELSE [kind |-> Kinds0, gen |-> [i \in Inums |-> 1],
        ents |-> [i \in Inums |-> IF i = 1 THEN [NoEnts EXCEPT ![A] = 2] ELSE NoEnts],
        shr |-> [i \in Inums |-> i = 2], big |-> [i \in Inums |-> FALSE], ver |-> [i \in Inums |-> 0]]

H(i) == <<i, 1>>      \* the handle every object has initially
Op(p, h, n) == [p |-> p, h |-> h, n |-> n, h2 |-> h, n2 |-> n, v |-> 0, big |-> FALSE]
Menu ==
  IF Scenario = "half"
  THEN {Op("CREATE", H(2), A), Op("CREATE", H(2), B), Op("REMOVE", H(1), A), Op("CREATE", H(1), A), Op("CREATE", H(1), B),
        Op("LOOKUP", H(2), A), Op("GETATTR", H(2), A), [Op("RENAME", H(1), A) EXCEPT !.h2 = H(1), !.n2 = B]}
  ELSE IF Scenario = "treegen"     \* for behaviours replayed on the real server: no operation that starts the shrinker
  THEN {Op("LOOKUP", H(3), A), Op("REMOVE", H(3), A), Op("CREATE", H(3), A), Op("CREATE", H(3), B), Op("CREATE", H(1), B),
        Op("GETATTR", H(2), A), [Op("WRITE", H(2), A) EXCEPT !.v = 1], Op("TRUNC", H(2), A),
        [Op("RENAME", H(3), A) EXCEPT !.h2 = H(1), !.n2 = B], [Op("RENAME", H(3), A) EXCEPT !.h2 = H(3), !.n2 = B],
        [Op("RENAME", H(1), B) EXCEPT !.h2 = H(3), !.n2 = A], [Op("RENAME", H(3), B) EXCEPT !.h2 = H(3), !.n2 = A],
        Op("READDIRPLUS", H(1), A), Op("READDIRPLUS", H(3), A), Op("LOOKUP", H(1), A), Op("LOOKUP", H(1), B)}
  ELSE IF Scenario = "tree"
  THEN {Op("LOOKUP", H(3), A), Op("REMOVE", H(3), A), Op("REMOVE", H(1), A), Op("CREATE", H(3), A), Op("CREATE", H(3), B), Op("CREATE", H(1), B),
        Op("GETATTR", H(2), A), [Op("WRITE", H(2), A) EXCEPT !.big = TRUE], Op("TRUNC", H(2), A),
        [Op("RENAME", H(3), A) EXCEPT !.h2 = H(1), !.n2 = B], [Op("RENAME", H(3), A) EXCEPT !.h2 = H(3), !.n2 = B],
        [Op("RENAME", H(1), B) EXCEPT !.h2 = H(3), !.n2 = A], [Op("RENAME", H(3), B) EXCEPT !.h2 = H(3), !.n2 = A]}
       \cup {Op("READDIRPLUS", H(1), A), Op("READDIRPLUS", H(3), A)}
  ELSE {[Op("WRITE", H(2), A) EXCEPT !.v = 1], Op("TRUNC", H(2), A), Op("GETATTR", H(2), A), Op("REMOVE", H(1), A), Op("CREATE", H(1), A),
        Op("CREATE", H(1), B), Op("LOOKUP", H(1), A), [Op("WRITE", H(2), A) EXCEPT !.v = 2]}

Idle == [pc |-> "idle", op |-> Op("NONE", H(1), A), todo |-> <<>>, x |-> 0, y |-> 0, tries |-> 0, st |-> "", q |-> <<>>]

Init ==
  /\ fs = Fs0
  /\ lock = [i \in Inums |-> 0]
  /\ taken = {}
  /\ shq = IF Scenario = "shrink" THEN {2} ELSE {}
  /\ LET singles == {<<o>> : o \in Menu}  pairs == {<<o1, o2>> : o1 \in Menu, o2 \in Menu}
     IN cs \in {f \in [Clients -> {[Idle EXCEPT !.todo = t] : t \in singles \cup pairs}] : \A c \in OneOp : Len(f[c].todo) = 1}
  /\ bad = ""

(*--------------------------------- helpers ----------------------------------*)
Held(c) == {i \in Inums : lock[i] = c}
RelAll(c) == [i \in Inums |-> IF lock[i] = c THEN 0 ELSE lock[i]]
Set(c, r) == cs' = [cs EXCEPT ![c] = r]
(* finish the RPC with status st (read-only or failed: no effect); compare with the atomic specification *)
Finish(c, st, rv, f2, alloc) ==
  LET a == Atomic(fs, cs[c].op, alloc) IN
  /\ fs' = f2
  /\ bad' = IF bad # "" THEN bad
            ELSE IF a.st # st THEN "status " \o cs[c].op.p \o ": " \o st \o " where the atomic operation gives " \o a.st
            ELSE IF a.f # f2 THEN "effect of " \o cs[c].op.p \o " differs from the atomic operation"
            ELSE IF st = "OK" /\ a.rv # rv THEN "reply of " \o cs[c].op.p \o " differs from the atomic operation" ELSE ""
  /\ lock' = RelAll(c)
  /\ Set(c, [Idle EXCEPT !.todo = cs[c].todo, !.st = st])
Abort(c, pc2) ==   \* give everything up and continue at pc2 (the window)
  /\ lock' = RelAll(c) /\ Set(c, [cs[c] EXCEPT !.pc = pc2, !.tries = @ + 1]) /\ UNCHANGED <<fs, bad>>
Goto(c, pc2) == Set(c, [cs[c] EXCEPT !.pc = pc2])
Take(c, i, pc2) ==   \* blocking acquisition of one inode lock
  /\ lock[i] = 0 /\ lock' = [lock EXCEPT ![i] = c] /\ Goto(c, pc2) /\ UNCHANGED <<fs, bad, taken, shq>>
StartShr(f, f2) == {i \in Inums : f2.shr[i] /\ ~f.shr[i]}    \* inodes whose freeing was handed to the shrinker

(*--------------------------------- clients ----------------------------------*)
Start(c) ==
  /\ cs[c].pc = "idle" /\ cs[c].todo # <<>>
  /\ LET o == Head(cs[c].todo)
         first == CASE o.p \in {"GETATTR", "WRITE", "TRUNC"} -> "h1"
                    [] o.p \in {"LOOKUP", "REMOVE"} -> "d1"
                    [] o.p = "CREATE" -> "c1"
                    [] o.p = "RENAME" -> "r1"
                    [] o.p = "READDIRPLUS" -> "p1"
     IN Set(c, [Idle EXCEPT !.pc = first, !.op = o, !.todo = Tail(cs[c].todo)])
  /\ UNCHANGED <<fs, lock, taken, shq, bad>>

(* GETATTR / WRITE / TRUNC *)
H1(c) == cs[c].pc \in {"h1", "h1n"} /\ Take(c, cs[c].op.h[1], IF cs[c].pc = "h1" THEN "h2" ELSE "h2n")
H2(c) ==
  /\ cs[c].pc \in {"h2", "h2n"}
  /\ LET o == cs[c].op  i == o.h[1]
         valid == IF cs[c].pc = "h2" THEN Live(fs, o.h) ELSE fs.kind[i] # "free"    \* h2n: re-locked by number only
     IN IF ~valid THEN Finish(c, "STALE", <<>>, fs, 0) /\ UNCHANGED <<taken, shq>>
        ELSE IF o.p = "GETATTR" THEN Finish(c, "OK", <<fs.kind[i], fs.ver[i]>>, fs, 0) /\ UNCHANGED <<taken, shq>>
        ELSE IF fs.kind[i] # "file" THEN Finish(c, "ERR", <<>>, fs, 0) /\ UNCHANGED <<taken, shq>>
        ELSE IF fs.shr[i] THEN Abort(c, "h3") /\ UNCHANGED <<taken, shq>>       \* getShrink: help the shrinker first
        ELSE LET f2 == IF o.p = "WRITE" THEN [fs EXCEPT !.ver[i] = 1 + o.v, !.big[i] = @ \/ o.big]
                       ELSE [fs EXCEPT !.ver[i] = 0, !.shr[i] = @ \/ fs.big[i], !.big[i] = FALSE]
             IN Finish(c, "OK", <<>>, f2, 0) /\ shq' = shq \cup StartShr(fs, f2) /\ UNCHANGED taken
H3(c) == cs[c].pc = "h3" /\ Take(c, cs[c].op.h[1], "h4")       \* DoShrink(inum): its own transaction
H4(c) ==
  /\ cs[c].pc = "h4"
  /\ fs' = [fs EXCEPT !.shr[cs[c].op.h[1]] = FALSE]
  /\ lock' = RelAll(c)
  /\ Goto(c, IF RecheckGen THEN "h1" ELSE "h1n")
  /\ UNCHANGED <<taken, shq, bad>>

(* LOOKUP / REMOVE: getInodesLocked *)
D1(c) == cs[c].pc = "d1" /\ Take(c, cs[c].op.h[1], "d2")
D2(c) ==
  /\ cs[c].pc = "d2"
  /\ LET o == cs[c].op  d == o.h[1] IN
     IF ~Live(fs, o.h) THEN Finish(c, "STALE", <<>>, fs, 0)
     ELSE IF fs.kind[d] # "dir" THEN Finish(c, "ERR", <<>>, fs, 0)
     ELSE LET x == fs.ents[d][o.n] IN
          IF x = 0 THEN Finish(c, "NOENT", <<>>, fs, 0)
          ELSE IF x > d THEN Set(c, [cs[c] EXCEPT !.pc = "d3", !.x = x]) /\ UNCHANGED <<fs, lock, bad>>
          ELSE /\ lock' = RelAll(c) /\ UNCHANGED <<fs, bad>>          \* lookupOrdered: abort, lock {child, dir} in order
               /\ Set(c, [cs[c] EXCEPT !.pc = "d4", !.x = x, !.tries = @ + 1,
                                       !.q = IF SortLocks THEN <<x, d>> ELSE <<d, x>>])    \* x < d here
  /\ UNCHANGED <<taken, shq>>
D3(c) == cs[c].pc = "d3" /\ Take(c, cs[c].x, "d6")
(* lockInodes: the numbers in q one after the other; a free inode => abort and retry the whole RPC *)
LockSeq(c, pcSelf, pcDone, pcRetry) ==
  /\ cs[c].pc = pcSelf
  /\ IF cs[c].q = <<>> THEN Goto(c, pcDone) /\ UNCHANGED <<fs, lock, bad, taken, shq>>
     ELSE LET i == Head(cs[c].q) IN
          IF lock[i] = c THEN Set(c, [cs[c] EXCEPT !.q = Tail(@)]) /\ UNCHANGED <<fs, lock, bad, taken, shq>>   \* duplicate
          ELSE /\ lock[i] = 0
               /\ IF fs.kind[i] = "free"
                  THEN /\ lock' = [lock EXCEPT ![i] = c] /\ UNCHANGED <<fs, bad, taken, shq>>   \* GetInodeInum takes the lock, sees a free inode ...
                       /\ Set(c, [cs[c] EXCEPT !.pc = "lf", !.st = pcRetry])
                  ELSE /\ lock' = [lock EXCEPT ![i] = c] /\ UNCHANGED <<fs, bad, taken, shq>>
                       /\ Set(c, [cs[c] EXCEPT !.q = Tail(@)])
LF(c) ==    \* ... releases it, and lockInodes aborts the transaction
  /\ cs[c].pc = "lf"
  /\ lock' = RelAll(c) /\ Set(c, [cs[c] EXCEPT !.pc = cs[c].st, !.st = "", !.q = <<>>]) /\ UNCHANGED <<fs, bad, taken, shq>>
D4(c) == LockSeq(c, "d4", "d5", "d1")
D5(c) ==   \* re-validate after the window
  /\ cs[c].pc = "d5"
  /\ LET o == cs[c].op  d == o.h[1] IN
     IF fs.gen[d] # o.h[2] \/ fs.kind[d] # "dir" \/ fs.ents[d][o.n] # cs[c].x
     THEN /\ lock' = RelAll(c) /\ Goto(c, "d1") /\ UNCHANGED <<fs, bad>>
     ELSE Goto(c, "d6") /\ UNCHANGED <<fs, lock, bad>>
  /\ UNCHANGED <<taken, shq>>
D6(c) ==
  /\ cs[c].pc = "d6"
  /\ LET o == cs[c].op  d == o.h[1]  x == cs[c].x IN
     IF o.p = "LOOKUP" THEN Finish(c, "OK", <<x, fs.gen[x]>>, fs, 0) /\ UNCHANGED shq
     ELSE IF fs.kind[x] = "dir" /\ ~Empty(fs, x) THEN Finish(c, "ERR", <<>>, fs, 0) /\ UNCHANGED shq
     ELSE LET f2 == FreeIno([fs EXCEPT !.ents[d][o.n] = 0], x) IN
          Finish(c, "OK", <<>>, f2, 0) /\ shq' = shq \cup StartShr(fs, f2)
  /\ UNCHANGED taken

(* CREATE: getAlloc *)
C1(c) == cs[c].pc \in {"c1", "c1n", "c1x"} /\ Take(c, cs[c].op.h[1], IF cs[c].pc = "c1" THEN "c2" ELSE IF cs[c].pc = "c1x" THEN "c2x" ELSE "c2n")
C2(c) ==
  /\ cs[c].pc \in {"c2", "c2n", "c2x"}
  /\ LET o == cs[c].op  d == o.h[1]  free == {i \in Inums : fs.kind[i] = "free" /\ i \notin taken} IN
     IF (cs[c].pc \in {"c2", "c2x"} /\ ~Live(fs, o.h)) \/ fs.kind[d] = "free" THEN Finish(c, "STALE", <<>>, fs, 0) /\ UNCHANGED taken   \* c2n: by number only
     ELSE IF fs.kind[d] # "dir" THEN Finish(c, "ERR", <<>>, fs, 0) /\ UNCHANGED taken
     ELSE IF fs.ents[d][o.n] # 0 /\ cs[c].pc # "c2x" THEN Finish(c, "EXIST", <<>>, fs, 0) /\ UNCHANGED taken
     ELSE IF free = {} THEN Finish(c, "NOSPC", <<>>, fs, 0) /\ UNCHANGED taken
     ELSE \E n \in (IF LowestFree THEN {CHOOSE m \in free : \A k \in free : m <= k} ELSE free) :
                          /\ taken' = taken \cup {n}
                          /\ Set(c, [cs[c] EXCEPT !.pc = "c3", !.x = n]) /\ UNCHANGED <<fs, lock, bad>>
  /\ UNCHANGED shq
C3(c) == cs[c].pc = "c3" /\ Take(c, cs[c].x, "c4")       \* the new number may be smaller than the directory's
C4(c) ==
  /\ cs[c].pc = "c4"
  /\ LET o == cs[c].op  d == o.h[1]  n == cs[c].x IN
     IF fs.shr[n]
     THEN /\ lock' = RelAll(c) /\ taken' = taken \ {n} /\ UNCHANGED <<fs, bad>>        \* half-freed: abort, finish the shrink, retry
          /\ Set(c, [cs[c] EXCEPT !.pc = "c5", !.tries = @ + 1])
     ELSE /\ Finish(c, "OK", <<n, fs.gen[n] + 1>>, [fs EXCEPT !.kind[n] = "file", !.gen[n] = @ + 1, !.ents[d][o.n] = n], n)
          /\ taken' = taken \ {n}
  /\ UNCHANGED shq
C5(c) == cs[c].pc = "c5" /\ Take(c, cs[c].x, "c6")
C6(c) ==
  /\ cs[c].pc = "c6"
  /\ fs' = [fs EXCEPT !.shr[cs[c].x] = FALSE] /\ lock' = RelAll(c) /\ Goto(c, IF ~RecheckGen THEN "c1n" ELSE IF RecheckName THEN "c1" ELSE "c1x") /\ UNCHANGED <<taken, shq, bad>>

(* RENAME *)
R1(c) ==
  /\ cs[c].pc = "r1"
  /\ LET o == cs[c].op  a == o.h[1]  b == o.h2[1]
         q == IF a = b THEN <<a>> ELSE IF SortLocks THEN (IF a < b THEN <<a, b>> ELSE <<b, a>>) ELSE <<a, b>>
     IN Set(c, [cs[c] EXCEPT !.pc = "r1a", !.q = q]) /\ UNCHANGED <<fs, lock, taken, shq, bad>>
R1a(c) == LockSeq(c, "r1a", "r2", "rstale")
RStale(c) == cs[c].pc = "rstale" /\ Finish(c, "STALE", <<>>, fs, 0) /\ UNCHANGED <<taken, shq>>
R2(c) ==
  /\ cs[c].pc = "r2"
  /\ LET o == cs[c].op  a == o.h[1]  b == o.h2[1] IN
     IF ~Live(fs, o.h) \/ ~Live(fs, o.h2) THEN Finish(c, "STALE", <<>>, fs, 0) /\ UNCHANGED shq
     ELSE IF fs.kind[a] # "dir" \/ fs.kind[b] # "dir" THEN Finish(c, "ERR", <<>>, fs, 0) /\ UNCHANGED shq
     ELSE LET from == fs.ents[a][o.n]  to == fs.ents[b][o.n2] IN
          IF from = 0 THEN Finish(c, "NOENT", <<>>, fs, 0) /\ UNCHANGED shq
          ELSE IF a = b /\ to = from THEN Finish(c, "OK", <<>>, fs, 0) /\ UNCHANGED shq
          ELSE IF to = 0 THEN Finish(c, "OK", <<>>, [fs EXCEPT !.ents[a][o.n] = 0, !.ents[b][o.n2] = from], 0) /\ UNCHANGED shq
          ELSE /\ lock' = RelAll(c) /\ UNCHANGED <<fs, bad, shq>>      \* target exists: abort, lock 3 or 4 inodes in order
               /\ LET S == {a, b, from, to}
                      sorted == [k \in 1..Cardinality(S) |-> CHOOSE i \in S : Cardinality({j \in S : j < i}) = k - 1]
                  IN Set(c, [cs[c] EXCEPT !.pc = "r3", !.x = from, !.y = to, !.tries = @ + 1,
                                          !.q = IF SortLocks THEN sorted ELSE IF a = b THEN <<a, from, to>> ELSE <<a, b, from, to>>])
  /\ UNCHANGED taken
R3(c) == LockSeq(c, "r3", "r4", "r1")
R4(c) ==
  /\ cs[c].pc = "r4"
  /\ LET o == cs[c].op  a == o.h[1]  b == o.h2[1]  from == cs[c].x  to == cs[c].y IN
     IF fs.gen[a] # o.h[2] \/ fs.gen[b] # o.h2[2] \/ fs.kind[a] # "dir" \/ fs.kind[b] # "dir"
        \/ fs.ents[a][o.n] # from \/ fs.ents[b][o.n2] # to
     THEN /\ lock' = RelAll(c) /\ Goto(c, "r1") /\ UNCHANGED <<fs, bad, shq>>       \* validateRename failed: retry
     ELSE IF fs.kind[to] # fs.kind[from] THEN Finish(c, "ERR", <<>>, fs, 0) /\ UNCHANGED shq
     ELSE IF fs.kind[to] = "dir" /\ ~Empty(fs, to) THEN Finish(c, "ERR", <<>>, fs, 0) /\ UNCHANGED shq
     ELSE LET f2 == FreeIno([fs EXCEPT !.ents[a][o.n] = 0, !.ents[b][o.n2] = from], to) IN
          Finish(c, "OK", <<>>, f2, 0) /\ shq' = shq \cup StartShr(fs, f2)
  /\ UNCHANGED taken

(* READDIRPLUS: PlusLocksKids = TRUE is the code as it was (every child locked while the directory is held, the      *)
(* repaired finding KF-D13); FALSE is the code as repaired (only children with a larger number are locked; the reply  *)
(* carries no attributes for the others, which the atomic specification leaves open: rv is compared for names only)   *)
P1(c) == cs[c].pc = "p1" /\ Take(c, cs[c].op.h[1], "p2")
P2(c) ==
  /\ cs[c].pc = "p2"
  /\ LET o == cs[c].op  d == o.h[1] IN
     IF ~Live(fs, o.h) THEN Finish(c, "STALE", <<>>, fs, 0)
     ELSE IF fs.kind[d] # "dir" THEN Finish(c, "ERR", <<>>, fs, 0)
     ELSE LET all  == {fs.ents[d][n] : n \in Names} \ {0, d}
              kids == IF PlusLocksKids THEN all ELSE {i \in all : i > d}     \* as repaired: only larger numbers are locked
              seq == [k \in 1..Cardinality(kids) |-> CHOOSE i \in kids : Cardinality({j \in kids : j > i}) = k - 1]   \* any fixed order; here descending
          IN Set(c, [cs[c] EXCEPT !.pc = "p3", !.q = seq]) /\ UNCHANGED <<fs, lock, bad>>
  /\ UNCHANGED <<taken, shq>>
P3(c) ==
  /\ cs[c].pc = "p3"
  /\ IF cs[c].q = <<>>
     THEN LET d == cs[c].op.h[1] IN
          Finish(c, "OK", [n \in Names |-> IF fs.ents[d][n] = 0 THEN <<0, 0>> ELSE <<fs.ents[d][n], fs.gen[fs.ents[d][n]]>>], fs, 0)
     ELSE /\ lock[Head(cs[c].q)] = 0
          /\ lock' = [lock EXCEPT ![Head(cs[c].q)] = c] /\ Goto(c, "p4") /\ UNCHANGED <<fs, bad>>
  /\ UNCHANGED <<taken, shq>>
P4(c) ==    \* Apply releases the child again before it goes on: directory + one child at a time
  /\ cs[c].pc = "p4"
  /\ lock' = [lock EXCEPT ![Head(cs[c].q)] = 0] /\ Set(c, [cs[c] EXCEPT !.pc = "p3", !.q = Tail(@)])
  /\ UNCHANGED <<fs, bad, taken, shq>>

Step(c) == Start(c) \/ LF(c) \/ H1(c) \/ H2(c) \/ H3(c) \/ H4(c) \/ D1(c) \/ D2(c) \/ D3(c) \/ D4(c) \/ D5(c) \/ D6(c)
           \/ C1(c) \/ C2(c) \/ C3(c) \/ C4(c) \/ C5(c) \/ C6(c) \/ R1(c) \/ R1a(c) \/ RStale(c) \/ R2(c) \/ R3(c) \/ R4(c)
           \/ P1(c) \/ P2(c) \/ P3(c) \/ P4(c)

(* background shrinker: one transaction per step, on an inode of its queue *)
ShrLock == \E i \in shq : lock[i] = 0 /\ ~(\E j \in Inums : lock[j] = SHR)
                          /\ lock' = [lock EXCEPT ![i] = SHR] /\ UNCHANGED <<fs, taken, shq, cs, bad>>
ShrFinish == \E i \in Inums : /\ lock[i] = SHR
                              /\ \/ fs' = [fs EXCEPT !.shr[i] = FALSE] /\ shq' = shq \ {i}     \* last transaction
                                 \/ ~fs.shr[i] /\ shq' = shq \ {i} /\ UNCHANGED fs                 \* somebody else finished it
                              /\ lock' = [lock EXCEPT ![i] = 0] /\ UNCHANGED <<taken, cs, bad>>
ShrMore == \E i \in Inums : /\ lock[i] = SHR /\ fs.shr[i]                                        \* more to free: another transaction
                            /\ lock' = [lock EXCEPT ![i] = 0] /\ UNCHANGED <<fs, shq, taken, cs, bad>>
ShrStep == ShrFinish \/ ShrMore

AllDone == \A c \in Clients : cs[c].pc = "idle" /\ cs[c].todo = <<>>
Next == (\E c \in Clients : Step(c)) \/ ShrLock \/ ShrStep \/ (AllDone /\ shq = {} /\ UNCHANGED vars)
Spec == Init /\ [][Next]_vars
(* the inode locks are not fair and a file has finitely many blocks: strong fairness stands for both *)
FairSpec == Spec /\ (\A c \in Clients : SF_vars(Step(c))) /\ SF_vars(ShrLock) /\ SF_vars(ShrFinish)

(*-------------------------------- properties --------------------------------*)
Refines == bad = ""
(* a request that is waiting for a lock is waiting for somebody else, and some waiting chain always ends *)
Waits(c) == IF cs[c].pc \in {"h1", "h1n", "h3", "d1", "c1", "c1n", "p1"} THEN cs[c].op.h[1]
            ELSE IF cs[c].pc \in {"d3", "c3", "c5"} THEN cs[c].x
            ELSE IF cs[c].pc \in {"d4", "r1a", "r3", "p3"} /\ cs[c].q # <<>> /\ lock[Head(cs[c].q)] # c THEN Head(cs[c].q)
            ELSE 0
NoSelfWait == \A c \in Clients : Waits(c) # 0 => lock[Waits(c)] # c
Blocked(c) == Waits(c) # 0 /\ lock[Waits(c)] # 0
NoDeadlock == \/ ~(\E c \in Clients : Blocked(c))
              \/ (\E c \in Clients : (cs[c].pc # "idle" /\ ~Blocked(c)))
              \/ (\E i \in Inums : lock[i] = SHR)
LocksReleased == \A c \in Clients : cs[c].pc = "idle" => Held(c) = {}
TakenReturned == AllDone => taken = {}
RetryBound == \A c \in Clients : cs[c].tries <= MaxTries      \* a request retries only as often as others interfere
Termination == <>[](AllDone /\ shq = {})
TypeOK == /\ lock \in [Inums -> {0, SHR} \cup Clients] /\ taken \subseteq Inums /\ shq \subseteq Inums
=============================================================================
