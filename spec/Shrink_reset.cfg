SPECIFICATION Spec
CONSTANTS
  MaxB = 5
  K = 3
  Budget = 1
  KeepSsz = FALSE
  UseResult = TRUE
INVARIANTS TypeOK NoOrphan Reclaimed FreeIsEmpty
CHECK_DEADLOCK FALSE
