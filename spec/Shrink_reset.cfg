SPECIFICATION Spec
CONSTANTS
  MaxB = 5
  K = 3
  Budget = 1
  KeepSsz = FALSE
  MaxOps = 8
  UseResult = TRUE
INVARIANTS TypeOK NoOrphan Reclaimed FreeIsEmpty
CHECK_DEADLOCK FALSE
