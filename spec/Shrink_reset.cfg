SPECIFICATION Spec
CONSTANTS
  MaxB = 5
  K = 3
  Budget = 1
  KeepSsz = FALSE
  MaxOps = 8
  Slack = 0
  UseResult = TRUE
  Recheck = TRUE
INVARIANTS TypeOK NoOrphan Reclaimed FreeIsEmpty NoStale
CHECK_DEADLOCK FALSE
