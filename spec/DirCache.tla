------------------------------ MODULE DirCache ------------------------------
(* The per-directory name cache (dcache/dcache.go, dir/dcache.go) and the slot      *)
(* choice of AddNameDir, as the code has them: a directory is an array of `size`     *)
(* slots, slots 0 and 1 hold "." and ".."; the cache - name -> (object, slot) plus    *)
(* Lastoff, the slot of the last change - is built from the slots on first use,       *)
(* updated in place by AddName/RemName and lost with the cached inode (eviction, or     *)
(* a transaction that aborts after changing it: fstxn.dropInodes). AddNameDir scans      *)
(* for a free slot from Lastoff on (offset 0 doubles as "none found") and appends         *)
(* otherwise; RemNameDir clears the slot the CACHE names. Every operation runs under      *)
(* the directory's lock, and either commits or aborts (slots as before).                   *)
(*   Coherent   a cache, when present, is exactly the live entries with their slots        *)
(*   UniqueNames, DotsStay   the slots stay a well-formed directory                          *)
(*   HintOk     Lastoff names a slot of the directory (never beyond its size)                *)
(* Negative controls: KeepOnAbort (the cache survives an aborted change - the repaired        *)
(* defect of cached inodes kept after an abort), DelOnRem = FALSE (RemName forgets the        *)
(* cache). On real runs FsStruct compares every cached name cache with the           *)
(* directory blocks at idle snapshots: Coherent, checked on the code.                     *)
EXTENDS Integers, FiniteSets, TLC
CONSTANTS Names, NSlots, MaxOps, KeepOnAbort, DelOnRem

Free == <<>>
NoCache == [none |-> TRUE]
VARIABLES slots,   \* 0..NSlots-1 -> Free | <<name, obj>>
          size,    \* slots in use by the file (the directory never shrinks)
          dc,      \* NoCache | [m |-> name -> <<obj, slot>> (partial, as a set of triples), last |-> Lastoff]
          nobj, nops
vars == <<slots, size, dc, nobj, nops>>

Live(s, n) == {i \in 0..(n - 1) : s[i] # Free}
Truth(s, n) == {<<s[i][1], s[i][2], i>> : i \in Live(s, n)}
Init == /\ slots = [i \in 0..(NSlots - 1) |-> IF i = 0 THEN <<".", 1>> ELSE IF i = 1 THEN <<"..", 1>> ELSE Free]
        /\ size = 2 /\ dc = NoCache /\ nobj = 1 /\ nops = 0

Cache == IF dc = NoCache THEN [m |-> Truth(slots, size), last |-> 0] ELSE dc      \* mkDcache on first use
Find(c, n) == {t \in c.m : t[1] = n}

(* AddNameDir: first free slot at or after Lastoff; offset 0 means "none": append *)
Slot(c) == LET cand == {i \in c.last..(size - 1) : slots[i] = Free}
               f == IF cand = {} THEN 0 ELSE CHOOSE i \in cand : \A j \in cand : i <= j
           IN IF f = 0 THEN size ELSE f

Add(n, commit) ==
  /\ nops < MaxOps /\ n \in Names
  /\ LET c == Cache IN
     /\ Find(c, n) = {}                       \* CREATE/MKDIR/RENAME look the name up first
     /\ Slot(c) < NSlots                      \* (the file can grow: the bound is the model's)
     /\ LET k == Slot(c) IN
        IF commit
        THEN /\ slots' = [slots EXCEPT ![k] = <<n, nobj + 1>>] /\ size' = IF k + 1 > size THEN k + 1 ELSE size
             /\ dc' = [m |-> c.m \cup {<<n, nobj + 1, k>>}, last |-> k]
        ELSE /\ UNCHANGED <<slots, size>>
             /\ dc' = IF KeepOnAbort THEN [m |-> c.m \cup {<<n, nobj + 1, k>>}, last |-> k] ELSE NoCache
  /\ nobj' = nobj + 1 /\ nops' = nops + 1

Rem(n, commit) ==
  /\ nops < MaxOps /\ n \in Names
  /\ LET c == Cache IN
     /\ Find(c, n) # {}
     /\ LET t == CHOOSE x \in Find(c, n) : TRUE
            k == t[3]
        IN IF commit
           THEN /\ slots' = [slots EXCEPT ![k] = Free] /\ UNCHANGED size
                /\ dc' = [m |-> IF DelOnRem THEN c.m \ {t} ELSE c.m, last |-> k]
           ELSE /\ UNCHANGED <<slots, size>>
                /\ dc' = IF KeepOnAbort THEN [m |-> c.m \ {t}, last |-> k] ELSE NoCache
  /\ nops' = nops + 1 /\ UNCHANGED nobj

Lookup == /\ dc = NoCache /\ dc' = Cache /\ UNCHANGED <<slots, size, nobj, nops>>      \* builds the cache
Evict == /\ dc # NoCache /\ dc' = NoCache /\ UNCHANGED <<slots, size, nobj, nops>>      \* the cached inode is evicted

Next == (\E n \in Names, c \in BOOLEAN : Add(n, c) \/ Rem(n, c)) \/ Lookup \/ Evict
Spec == Init /\ [][Next]_vars

Coherent == dc # NoCache => dc.m = Truth(slots, size)
UniqueNames == \A i, j \in Live(slots, size) : i # j => slots[i][1] # slots[j][1]
DotsStay == slots[0] = <<".", 1>> /\ slots[1] = <<"..", 1>> /\ \A i \in size..(NSlots - 1) : slots[i] = Free
HintOk == dc # NoCache => dc.last < size
=============================================================================
