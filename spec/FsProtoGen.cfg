SPECIFICATION GSpec
CONSTANTS
  NI = 5
  Names = {"a", "b"}
  Clients = {1, 2}
  RecheckGen = TRUE
  SortLocks = TRUE
  PlusLocksKids = FALSE
  Scenario = "treegen"
  MaxTries = 9
  RecheckName = TRUE
  LowestFree = TRUE
  OneOp = {}
CHECK_DEADLOCK FALSE
