SPECIFICATION Spec
CONSTANTS
  MaxB = 5
  K = 3
  Budget = 1
  KeepSsz = TRUE
  UseResult = TRUE
INVARIANTS TypeOK NoOrphan Reclaimed FreeIsEmpty
CHECK_DEADLOCK FALSE
