\* the real constants: journal of 511 blocks, 8 direct pointers, 512 pointers per index block, eight bitmap areas (a 1 GB disk); dense files
SPECIFICATION Spec
CONSTANTS Cap = 511  ND = 8  NB = 512  NArea = 8  Reserve = 7  CountBitmaps = TRUE  Holes = FALSE
  Lens = {300, 495, 503, 505, 508, 509, 521, 700, 1100, 1535, 1600}  NewSizes = {0, 8, 400, 520, 521}  Pres = {1, 4}  Posts = {0, 5}
INVARIANTS Fits Progress
CHECK_DEADLOCK FALSE
