----------------------------- MODULE FsProtoGen -----------------------------
(* Behaviours of FsProto printed for replay on the real server (harness/drv/    *)
(* protoplan.go): the order of lock acquisitions of the clients, the status of    *)
(* every request as the model computes it, and the final tree. TLC runs this in    *)
(* simulation mode; each behaviour ends when all requests are done and prints one   *)
(* PLAN line.                                                                        *)
EXTENDS FsProto, Json
VARIABLES sched, printed, todo0
gvars == <<vars, sched, printed, todo0>>

Acq(c) == {i \in Inums : lock'[i] = c /\ lock[i] # c}
Fin(c) == cs[c].pc # "idle" /\ cs'[c].pc = "idle"
RECURSIVE SeqOf(_)
SeqOf(S) == IF S = {} THEN <<>> ELSE LET x == CHOOSE y \in S : TRUE IN <<x>> \o SeqOf(S \ {x})
Events == LET acq == SeqOf({<<c, i>> \in Clients \X Inums : i \in Acq(c)})
              fin == SeqOf({c \in Clients : Fin(c)})
          IN [k \in 1..Len(acq) |-> [k |-> "acq", c |-> acq[k][1], i |-> acq[k][2], st |-> "", p |-> ""]]
             \o [k \in 1..Len(fin) |-> [k |-> "fin", c |-> fin[k], i |-> 0, st |-> cs'[fin[k]].st, p |-> cs[fin[k]].op.p]]

GInit == Init /\ sched = <<>> /\ printed = FALSE /\ todo0 = [c \in Clients |-> cs[c].todo]
Tree == [i \in Inums |-> [kind |-> fs.kind[i], ents |-> fs.ents[i], ver |-> fs.ver[i]]]
GNext == \/ /\ ~printed /\ ~(AllDone /\ shq = {})
            /\ ((\E c \in Clients : Step(c)) \/ ShrLock \/ ShrStep)
            /\ sched' = sched \o Events /\ UNCHANGED <<printed, todo0>>
         \/ /\ ~printed /\ AllDone /\ shq = {}
            /\ PrintT("PLAN " \o ToJson([todo |-> todo0, sched |-> sched, bad |-> bad, tree |-> Tree]))
            /\ printed' = TRUE /\ UNCHANGED <<vars, sched, todo0>>
GSpec == GInit /\ [][GNext]_gvars
=============================================================================
