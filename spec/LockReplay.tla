----------------------------- MODULE LockReplay -----------------------------
(* C06: the inode-lock programs that the real server executed for each RPC of a *)
(* catalogue, run alone from a base state (harness/drv/lockprogs.go), are the    *)
(* CONSTANTS of this model (read from the trace). TLC explores every             *)
(* interleaving of every pair of programs recorded from the same base state (a   *)
(* program with itself included). A reachable state in which an unfinished       *)
(* program exists and every unfinished program is blocked is a predicted         *)
(* deadlock; it is printed and afterwards replayed on the real server.           *)
EXTENDS Integers, Sequences, FiniteSets, TLC, Json, IOUtils

TraceFile == IF "TRACE" \in DOMAIN IOEnv THEN IOEnv.TRACE ELSE "trace.ndjson"
Trace == ndJsonDeserialize(TraceFile)
ProgIdx == {i \in 1..Len(Trace) : Trace[i].ev = "prog" /\ Trace[i].call.st \notin {"TIMEOUT", "PANIC"}}
Groups == {Trace[i].group : i \in ProgIdx}

VARIABLES p, pc, held
vars == <<p, pc, held>>
(* p: <<i, j>> indices of the two programs; pc: their program counters; held: inum -> 1|2 *)

Steps(k) == Trace[p[k]].steps

(* Lock-order discipline, the assumption on which the design model FsProto.tla proves freedom from deadlock: a        *)
(* transaction that already holds locks acquires only (i) a larger inode number, (ii) a number it already holds, or   *)
(* (iii) the number it has just allocated for a new object while holding the directory only (nobody can hold that     *)
(* one and wait). (READDIRPLUS used to lock every child while holding the directory - repaired: only larger numbers.) *)
RECURSIVE Walk(_, _, _, _)
Walk(i, k, hd, out) ==
  LET steps == Trace[i].steps IN
  IF k > Len(steps) THEN out
  ELSE LET st == steps[k] IN
       IF st.op = "rel" THEN Walk(i, k + 1, hd \ {st.inum}, out)
       ELSE LET below == hd # {} /\ st.inum \notin hd /\ (\E h \in hd : h > st.inum)
                fresh == Trace[i].call.proc \in {"CREATE", "MKDIR", "SYMLINK"} /\ Cardinality(hd) = 1
                viol  == below /\ ~fresh
            IN Walk(i, k + 1, hd \cup {st.inum}, IF viol THEN Append(out, [id |-> Trace[i].id, step |-> k, inum |-> st.inum, held |-> hd]) ELSE out)
OrderViolations(i) == Walk(i, 1, {}, <<>>)
OrderCheck == /\ \A i \in ProgIdx : OrderViolations(i) = <<>> \/ PrintT("ORDER " \o ToJson(OrderViolations(i)))
        /\ PrintT("PROGRAMS " \o ToString(Cardinality(ProgIdx)) \o " GROUPS " \o ToString(Cardinality(Groups)))

Init == /\ OrderCheck
        /\ p \in {<<i, j>> \in ProgIdx \X ProgIdx : i <= j /\ Trace[i].group = Trace[j].group}
        /\ pc = <<1, 1>>
        /\ held = <<>>

Done(k) == pc[k] > Len(Steps(k))
Blocked(k) == ~Done(k) /\ Steps(k)[pc[k]].op = "acq" /\ Steps(k)[pc[k]].inum \in DOMAIN held

Step(k) ==
  /\ ~Done(k) /\ ~Blocked(k)
  /\ LET st == Steps(k)[pc[k]] IN
     /\ held' = IF st.op = "acq" THEN (st.inum :> k) @@ held
                ELSE [x \in DOMAIN held \ {st.inum} |-> held[x]]
     /\ pc' = [pc EXCEPT ![k] = @ + 1]
     /\ UNCHANGED p

Dead == (\E k \in {1, 2} : ~Done(k)) /\ \A k \in {1, 2} : Done(k) \/ Blocked(k)

(* when dead: report once and stop *)
ReportDead ==
  /\ Dead
  /\ PrintT("DEADLOCK " \o ToJson([p1 |-> Trace[p[1]].id, p2 |-> Trace[p[2]].id, pc1 |-> pc[1], pc2 |-> pc[2], group |-> Trace[p[1]].group]))
  /\ UNCHANGED vars

Next == Step(1) \/ Step(2) \/ ReportDead
Spec == Init /\ [][Next]_vars
=============================================================================
