SPECIFICATION Spec
CONSTANTS
  Inums = {1, 2, 3}
  Txns = {1, 2}
  NSlots = 2
  MaxVal = 2
  DropOnAbort = TRUE
  ReuseEntry = FALSE
  LookupFirst = FALSE
  AlwaysWrite = TRUE
INVARIANTS Coherent OneCopy
CHECK_DEADLOCK FALSE
