------------------------------- MODULE Layout -------------------------------
(* Disk layout of go-nfsd as a function of the disk size (super/super.go,      *)
(* nfs.markAlloc): log | block bitmap | inode bitmap | inode table | data.      *)
(* Inv is proved for ALL sizes by Apalache (length 0, symbolic sz) and checked  *)
(* by TLC on a dense range (Layout_MC.cfg).                                      *)
EXTENDS Integers

NLOG == 513
NBIT == 32768
NINOBLK == 1024
INOPERBLK == 32

VARIABLE
  \* @type: Int;
  sz

NBbm(s) == (s \div NBIT) + 1
BbmStart == NLOG
IbmStart(s) == BbmStart + NBbm(s)
InoStart(s) == IbmStart(s) + 1
DataStart(s) == InoStart(s) + NINOBLK
NInode == NINOBLK * INOPERBLK

(* a size is accepted when the data region is not empty and markAlloc's sanity checks pass *)
Accepted(s) == DataStart(s) < s /\ DataStart(s) < NBIT

(* what mkfs marks as used in the block bitmap: [0, DataStart) in the first bitmap block and    *)
(* [s mod NBIT, NBIT) in bitmap block s div NBIT                                                  *)
LastBlk(s) == s \div NBIT
TailFrom(s) == LastBlk(s) * NBIT + (s % NBIT)

LayoutOK(s) ==
  /\ 0 < NLOG /\ NLOG <= BbmStart
  /\ BbmStart + NBbm(s) <= IbmStart(s)
  /\ IbmStart(s) + 1 <= InoStart(s)
  /\ InoStart(s) + NINOBLK <= DataStart(s)
  /\ DataStart(s) < s                          \* everything inside the disk, data region not empty
  /\ NBbm(s) * NBIT >= s                       \* the bitmap covers the disk
  /\ LastBlk(s) = NBbm(s) - 1                  \* the tail marking lands in the last bitmap block ...
  /\ TailFrom(s) = s                           \* ... and starts exactly at the first block beyond the disk
  /\ DataStart(s) <= NBIT                      \* the head marking stays inside the first bitmap block

Inv == Accepted(sz) => LayoutOK(sz)

Init == sz \in 1..1000000000
Next == UNCHANGED sz

MCInit == sz \in 1..(3 * NBIT + 2000)
MCNext == UNCHANGED sz
MCSpec == MCInit /\ [][MCNext]_sz
=============================================================================
