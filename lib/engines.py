"""Engines behind ./check: build the harness from /repo's working tree, run the
drivers against the real server, validate the recorded traces with TLC against
the TLA+ specifications, attribute rejections to properties, write evidence."""
import os, sys, json, subprocess, tempfile, shutil, time, hashlib, re, glob
import concurrent.futures as cf

VERIF = os.path.dirname(os.path.dirname(os.path.abspath(__file__)))
SPEC = os.path.join(VERIF, "spec")
# Self-validation only (tools/seeded_matrix_par.sh): check another tree than /repo and keep all outputs apart, so that
# seeded changes can be tried in parallel in scratch worktrees. Registered commands never set these.
TREE = os.environ.get("VERIF_SELFTEST_TREE", "/repo")
OUT = os.environ.get("VERIF_SELFTEST_OUT", VERIF)
BIN = os.path.join(OUT, "bin")
JAR = "/opt/veriftools/tla/tla2tools.jar:/opt/veriftools/tla/CommunityModules-deps.jar"
GOENV = dict(os.environ, GOFLAGS="-mod=mod", GOPROXY="off", GOSUMDB="off", GOTOOLCHAIN="local")
NPAR = int(os.environ.get("VERIF_PAR", "8"))


class Infra(Exception):
    pass


def log(*a):
    print(*a, flush=True)


# ---------------------------------------------------------------------------
# build

_built = False


def build():
    global _built
    if _built:
        return
    os.makedirs(BIN, exist_ok=True)
    h = os.path.join(VERIF, "harness")
    if TREE != "/repo":
        h2 = os.path.join(OUT, "harness")
        shutil.rmtree(h2, ignore_errors=True)
        shutil.copytree(h, h2)
        gm = open(os.path.join(h2, "go.mod")).read().replace("=> /repo", "=> " + TREE)
        open(os.path.join(h2, "go.mod"), "w").write(gm)
        h = h2
    gosum = os.path.join(h, "go.sum")
    shutil.copyfile(os.path.join(TREE, "go.sum"), gosum)
    t0 = time.time()
    p = subprocess.run(["go", "build", "-tags", "verif", "-o", os.path.join(BIN, "vdrive"), "./cmd/vdrive"],
                       cwd=h, env=GOENV, capture_output=True, text=True)
    if p.returncode != 0:
        raise Infra("harness build failed (does /repo still compile with -tags verif?):\n" + p.stdout + p.stderr)
    _built = True
    log("build ok in %.1fs" % (time.time() - t0))


_built_race = False
_race_lock = None


def build_race():
    """the same driver built with Go's race detector (C14 only): the detector is the recorder of accesses the hooks do not see"""
    global _built_race
    if _built_race:
        return
    build()
    h = os.path.join(VERIF, "harness") if TREE == "/repo" else os.path.join(OUT, "harness")
    t0 = time.time()
    p = subprocess.run(["go", "build", "-race", "-tags", "verif", "-o", os.path.join(BIN, "vdrive_race"), "./cmd/vdrive"],
                       cwd=h, env=GOENV, capture_output=True, text=True)
    if p.returncode != 0:
        raise Infra("race build of the harness failed:\n" + p.stdout + p.stderr)
    _built_race = True
    log("race build ok in %.1fs" % (time.time() - t0))


def race_reports(stderr):
    """DATA RACE reports of the race detector whose two accesses are both in code of the server (go-nfsd or its journal), as
    trace events. A report with an access made by the harness itself (snapshots and monitors read server state) is not one."""
    evs = []
    for blk in stderr.split("WARNING: DATA RACE")[1:]:
        blk = blk.split("==================")[0]
        parts = re.split(r"\n\s*\n", blk.strip())
        acc = [p for p in parts if re.match(r"\s*(Read|Write|Previous read|Previous write|Atomic|Previous atomic)", p.strip())]
        if len(acc) < 2:
            continue
        tops = []
        for a in acc[:2]:
            fr = [ln.strip() for ln in a.splitlines()[1:] if ln.strip() and not ln.startswith("      ")]
            fr = [f for f in fr if not f.startswith("runtime.") and not f.startswith("sync.") and not f.startswith("sync/atomic.")]
            tops.append(fr[0] if fr else "?")
        if any("verif/harness" in t for t in tops):
            continue
        if not all(("github.com/mit-pdos/go-nfsd/" in t) or ("github.com/mit-pdos/go-journal/" in t) for t in tops):
            continue
        evs.append({"ev": "race", "what": " <-> ".join(re.sub(r"\(\)$", "", t.replace("github.com/mit-pdos/", "")) for t in tops), "detail": blk.strip()[:1500]})
    return evs


# ---------------------------------------------------------------------------
# known findings

def load_known():
    p = os.path.join(VERIF, "known_findings.json")
    if not os.path.exists(p):
        return {"findings": [], "fixed": []}
    return json.load(open(p))


def avoid_flags(known):
    a = set()
    for f in known["findings"]:
        a.update(f.get("avoid", []))
    return ",".join(sorted(a))


def match_known(known, prop, viol, ev):
    """A violation record matches a known finding when the finding lists this property and
    its signature (procedure, rule substring, optional probe name) matches."""
    for f in known["findings"]:
        if prop not in f["property"]:
            continue
        sig = f.get("signature", {})
        if "probe" in sig and viol.get("driver", "") != "probe/" + sig["probe"]:
            continue
        if "proc" in sig and viol.get("proc") not in sig["proc"]:
            continue
        if "rule" in sig and not any(sig["rule"] in r for r in viol["rules"]):
            continue
        if "rules" in sig:   # every rule that fired (context tags aside) must be one the finding is known to cause
            core = [r for r in viol["rules"] if not re.search(r":after-|rejected-in-a-scenario", r)]
            if not core or not all(any(a in r for a in sig["rules"]) for r in core):
                continue
        if "name" in sig and (not isinstance(ev, dict) or ev.get("name") != sig["name"]):
            continue
        if "wedge" in sig and (not isinstance(ev, dict) or ev.get("wedge") != sig["wedge"]):
            continue
        if "driver_prefix" in sig and not viol.get("driver", "").startswith(sig["driver_prefix"]):
            continue
        return f
    return None


# ---------------------------------------------------------------------------
# TLC

def run_tlc(module, cfg, scratch, env=None, workers=1, timeout=900, xmx="4g", extra=None):
    """Runs TLC on a private copy of the spec directory. Returns (stdout, stats)."""
    d = tempfile.mkdtemp(prefix="tlc-", dir=scratch)
    for f in glob.glob(os.path.join(SPEC, "*.tla")) + glob.glob(os.path.join(SPEC, "*.cfg")):
        shutil.copy(f, d)
    e = dict(os.environ)
    if env:
        e.update(env)
    # TLC unpacks its standard modules into java.io.tmpdir and leaves the directory behind: keep it inside the scratch copy
    cmd = ["java", "-XX:+UseParallelGC", "-Xss512m", "-Xmx" + xmx, "-Djava.io.tmpdir=" + d, "-cp", JAR, "tlc2.TLC",
           "-workers", str(workers), "-metadir", os.path.join(d, "meta"), "-config", cfg] + (extra or []) + [module]
    t0 = time.time()
    try:
        p = subprocess.run(cmd, cwd=d, env=e, capture_output=True, text=True, timeout=timeout)
    except subprocess.TimeoutExpired:
        raise Infra("TLC timed out after %ds on %s" % (timeout, module))
    out = p.stdout + p.stderr
    st = {"wall": time.time() - t0, "rc": p.returncode, "generated": 0, "distinct": 0}
    m = re.search(r"(\d+) states generated, (\d+) distinct states found", out)
    if m:
        st["generated"], st["distinct"] = int(m.group(1)), int(m.group(2))
    shutil.rmtree(d, ignore_errors=True)
    return out, st


def parse_trace_out(out):
    viols = []
    consumed = None
    for line in out.splitlines():
        line = line.strip()
        if line.startswith('"VIOL '):
            js = json.loads(line)  # the line is a TLA+ string literal = JSON string
            viols.append(json.loads(js[5:]))
        elif line.startswith('"CONSUMED '):
            m = re.match(r'"CONSUMED (\d+) OF (\d+)"', line)
            consumed = (int(m.group(1)), int(m.group(2)))
    return viols, consumed


# ---------------------------------------------------------------------------
# trace jobs: driver -> ndjson -> TLC

def run_mc_job(job, scratch):
    """Exhaustive TLC run of a bounded model: {name, kind:'mc', module, cfg, workers}. A violated invariant is
    reported as a model-level finding (exit 2, never a VIOLATION by itself: DESIGN.md verdict policy)."""
    out, st = run_tlc(job["module"], job["cfg"], scratch, workers=job.get("workers", 8), timeout=job.get("tlc_timeout", 1800),
                      xmx=job.get("xmx", "8g"), extra=job.get("extra"))
    if job.get("expect_violation"):
        # a negative control: the model must exhibit the (repaired) design defect under this configuration
        want = job["expect_violation"]
        if ("is violated" not in out) or (isinstance(want, str) and ("Invariant %s is violated" % want) not in out):
            raise Infra("model %s/%s was expected to violate its property (negative control) but did not:\n%s" % (job["module"], job["cfg"], out[-2000:]))
    elif "No error has been found" not in out:
        raise Infra("model %s/%s: TLC reports an error or did not finish:\n%s" % (job["module"], job["cfg"], out[-3000:]))
    return {"name": job["name"], "viols": [], "events": 0, "segments": 0, "calls": 0, "states": st["distinct"],
            "transitions": st["generated"], "tdrv": 0.0, "ttlc": st["wall"], "sample": [], "mc": True}


def run_apalache_job(job, scratch):
    d = tempfile.mkdtemp(prefix="apa-", dir=scratch)
    shutil.copy(os.path.join(SPEC, job["module"]), d)
    t0 = time.time()
    try:
        p = subprocess.run(["apalache-mc", "check"] + job["args"] + ["--out-dir=" + os.path.join(d, "out"), job["module"]],
                           cwd=d, capture_output=True, text=True, timeout=job.get("timeout", 600),
                           env=dict(os.environ, TMPDIR=d))   # its launcher makes a SANY* directory under TMPDIR and leaves it
    except subprocess.TimeoutExpired:
        raise Infra("apalache timed out")
    out = p.stdout + p.stderr
    if "The outcome is: NoError" not in out:
        raise Infra("apalache did not prove %s:\n%s" % (job["module"], out[-2000:]))
    return {"name": job["name"], "viols": [], "events": 0, "segments": 0, "calls": 0, "states": 1, "transitions": 1,
            "tdrv": 0.0, "ttlc": time.time() - t0, "sample": [], "mc": True, "proof": True}


def run_lin_job(job, scratch):
    """Linearizability search: driver 'conc' -> NfsLin.tla. A history is accepted iff the search consumed all its lines."""
    trace = os.path.join(scratch, job["name"] + ".ndjson")
    drv = list(job["driver"])
    gen_states = 0
    if job.get("gen"):   # behaviours of a design model printed by TLC in simulation mode, replayed by the driver
        g = job["gen"]
        gout, gst = run_tlc(g["module"] + ".tla", g["cfg"] + ".cfg", scratch, workers=1, timeout=600,
                            extra=["-simulate", "num=%d" % g["num"], "-depth", "90", "-seed", str(g["seed"])])
        plans = [ln for ln in gout.splitlines() if ln.strip().startswith('"PLAN ')]
        if not plans:
            raise Infra("model %s printed no behaviour:\n%s" % (g["module"], gout[-2000:]))
        pf = os.path.join(scratch, job["name"] + ".plans")
        open(pf, "w").write("\n".join(plans) + "\n")
        drv += ["-spec", pf]
        gen_states = len(plans)
    cmd = [os.path.join(BIN, "vdrive")] + drv + ["-out", trace]
    t0 = time.time()
    p = subprocess.run(cmd, capture_output=True, text=True, timeout=job.get("driver_timeout", 1800), cwd=scratch)
    if p.returncode != 0:
        raise Infra("driver failed (%d): %s\n%s" % (p.returncode, " ".join(cmd), (p.stdout + p.stderr)[-3000:]))
    tdrv = time.time() - t0
    out, st = run_tlc("NfsLin.tla", "NfsLin.cfg", scratch, env={"TRACE": trace}, timeout=job.get("tlc_timeout", 3000), xmx="6g")
    if "No error has been found" not in out:
        raise Infra("NfsLin search failed on %s:\n%s" % (trace, out[-3000:]))
    lines = open(trace).readlines()
    n = len(lines)
    replayed = drift = 0
    for ln in lines:
        if ln.startswith('{"at":') or '"ev":"protonote"' in ln[:200]:
            e = json.loads(ln)
            if e.get("ev") == "protonote":
                replayed += 1
                if e["diverged"] or e["diffs"] or e["wedged"]:
                    drift += 1
                    log("NOTE model drift in %s plan %s: %s %s (event %d of %d; %s)" % (job["name"], e["plan"], e["diverged"], e["diffs"] or "", e["at"], e["of"], e.get("lastwant", "")))
    if job.get("gen"):
        log("%s: %d behaviours of %s replayed on the real server, %d with model drift" % (job["name"], replayed, job["gen"]["module"], drift))
    hw = {}
    starts = {}
    for ln in out.splitlines():
        m = re.match(r'"HW (-?\d+) (\d+) (\d+)"', ln.strip())
        if m:
            hw[int(m.group(1))] = int(m.group(3))
            starts[int(m.group(1))] = int(m.group(2))
    order = sorted(starts, key=lambda k: starts[k])
    viols = []
    seen_sv = set()
    for ln in out.splitlines():
        ln = ln.strip()
        if ln.startswith('"SVIOL '):
            v = json.loads(json.loads(ln)[6:])
            key = (v["line"], tuple(v["rules"]))
            if key in seen_sv:
                continue
            seen_sv.add(key)
            viols.append({"line": v["line"], "seg": v["seg"], "rules": v["rules"], "ev": "snap", "proc": "", "job": job["name"],
                          "driver_cmd": job["driver"], "event": {"ev": "snap"}, "driver": "conc", "seed": 0, "context": []})
    ncalls = 0
    sample = []
    for idx, sg in enumerate(order):
        end = starts[order[idx + 1]] if idx + 1 < len(order) else n + 1
        evs = [json.loads(x) for x in lines[starts[sg] - 1:end - 1]]
        calls = [e["call"] for e in evs if e.get("ev") == "inv"]
        ncalls += len(calls)
        if not sample:
            sample = [summ(c) for c in calls[-12:]]
        if hw.get(sg, 0) >= end:
            continue
        stuck = hw.get(sg, starts[sg])
        noreply = [c for c in calls if c["st"] in ("TIMEOUT", "PANIC")]
        if noreply:
            ev = noreply[0]
            rules = ["ALL,C06,C11:no-reply-" + ev["st"]]
        else:
            ev = json.loads(lines[stuck - 1]) if stuck - 1 < len(lines) else {}
            if ev.get("ev") == "ret":   # the call that cannot return: find its invoke
                want = ev["call"]["i"]
                ev = next((c for c in calls if c["i"] == want), ev)
            else:
                ev = ev.get("call", ev)
            rules = [",".join(["C03"] + job.get("also", [])) + ":history-has-no-linearization"]
            if ev.get("ev") == "crashfinal":
                rules = [",".join(["C01", "C07", "C03"]) + ":state-recovered-after-the-history-is-not-allowed-by-any-linearization"]
                ev = {"ev": "crashfinal", "ok": ev.get("ok"), "err": ev.get("err"), "dump": ev.get("dump")}
        reset = evs[0]
        viols.append({"line": stuck, "seg": sg, "rules": rules, "ev": "inv", "proc": ev.get("proc", ""), "job": job["name"],
                      "driver_cmd": job["driver"], "event": ev if isinstance(ev, dict) else {}, "driver": reset.get("driver", ""),
                      "seed": reset.get("seed", 0),
                      "stuck_at": (lines[stuck - 1][:300] if stuck - 1 < len(lines) else "end"),
                      "context": [("inv c%d " % e["cl"]) + summ(e["call"]) if e["ev"] == "inv" else "ret c%d %d" % (e["cl"], e["call"]["i"])
                                  for e in evs[:stuck - starts[sg] + 1] if e.get("ev") in ("inv", "ret")][-60:]})
    # crash images cut inside the concurrent part: second search with the replies of read-only calls unchecked (NfsLin.tla)
    if "-crashpoints" in job["driver"]:
        outr, str_ = run_tlc("NfsLin.tla", "NfsLin.cfg", scratch, env={"TRACE": trace, "RELAX": "1"}, timeout=job.get("tlc_timeout", 3000), xmx="6g")
        if "No error has been found" not in outr:
            raise Infra("NfsLin (RELAX) search failed on %s:\n%s" % (trace, outr[-3000:]))
        st["distinct"] += str_["distinct"]; st["generated"] += str_["generated"]; st["wall"] += str_["wall"]
        hwr = {}
        for ln in outr.splitlines():
            m = re.match(r'"HW (-?\d+) (\d+) (\d+)"', ln.strip())
            if m:
                hwr[int(m.group(1))] = int(m.group(3))
        for ln in outr.splitlines():
            m = re.match(r'"UNMATCHED (\d+)"', ln.strip())
            if not m:
                continue
            u = int(m.group(1))
            sg = max((g for g in order if starts[g] <= u), default=None)
            if sg is None or hwr.get(sg, 0) <= u:
                continue   # the search did not get this far in that history (reported above)
            ev = json.loads(lines[u - 1])
            before = [json.loads(x) for x in lines[starts[sg] - 1:u - 1]]
            small = {k: ev[k] for k in ("ev", "p", "nlost", "window", "ok", "err")}
            small["dump"] = ev["dump"]
            viols.append({"line": u, "seg": sg, "rules": ["C01,C03:recovered-tree-of-a-concurrent-history-matches-no-linearization-prefix"],
                          "ev": "crashprobe", "proc": "", "job": job["name"], "driver_cmd": job["driver"], "event": small,
                          "driver": "conc", "seed": before[0].get("seed", 0) if before else 0,
                          "context": [("inv c%d " % e["cl"]) + summ(e["call"]) if e["ev"] == "inv" else "ret c%d %d" % (e["cl"], e["call"]["i"])
                                      for e in before if e.get("ev") in ("inv", "ret")][-60:]})
    # structural pass: the final snapshot of every history (also of those without a linearization)
    strace = trace + ".snaps"
    with open(strace, "w") as f:
        for k, ln in enumerate(lines):
            if '"ev":"reset"' in ln[:300] and ln.startswith('{"ev":"reset"'):
                f.write(ln)
            elif ln.startswith('{"ev":"snap"'):
                f.write(ln.replace('"who":"run"', '"who":"conc"', 1))
            elif ln.startswith('{"ev":"crashprobe"'):
                f.write(ln.replace('"ev":"crashprobe"', '"ev":"crashstruct"', 1))
    out2, st2 = run_tlc("NfsTrace.tla", "NfsTrace.cfg", scratch, env={"TRACE": strace}, timeout=1200)
    v2, consumed = parse_trace_out(out2)
    if consumed is None or consumed[0] != consumed[1]:
        raise Infra("structural pass failed on %s\n%s" % (strace, out2[-2000:]))
    have = {(v["seg"], tuple(v["rules"])) for v in viols}
    for v in v2:
        if (v["seg"], tuple(v["rules"])) in have:
            continue
        viols.append({"line": v["line"], "seg": v["seg"], "rules": v["rules"], "ev": "snap", "proc": "", "job": job["name"],
                      "driver_cmd": job["driver"], "event": {"ev": "snap"}, "driver": "conc", "seed": 0, "context": []})
    os.remove(strace)
    os.remove(trace)
    return {"name": job["name"], "viols": viols, "events": n, "segments": len(order), "calls": ncalls,
            "states": st["distinct"] + st2["distinct"], "transitions": st["generated"] + st2["generated"], "tdrv": tdrv,
            "ttlc": st["wall"] + st2["wall"], "sample": sample}


def run_lock_job(job, scratch):
    """C06: lock programs of RPCs run alone -> LockReplay.tla explores all pairs -> predicted deadlocks are replayed."""
    trace = os.path.join(scratch, job["name"] + ".ndjson")
    cmd = [os.path.join(BIN, "vdrive")] + job["driver"] + ["-out", trace]
    t0 = time.time()
    p = subprocess.run(cmd, capture_output=True, text=True, timeout=3000, cwd=scratch)
    if p.returncode != 0:
        raise Infra("driver failed: %s\n%s" % (" ".join(cmd), (p.stdout + p.stderr)[-3000:]))
    tdrv = time.time() - t0
    out, st = run_tlc("LockReplay.tla", "LockReplay.cfg", scratch, env={"TRACE": trace}, workers=4, timeout=3000, xmx="6g")
    if "No error has been found" not in out:
        raise Infra("LockReplay failed:\n" + out[-3000:])
    progs = {}
    viols = []
    seed = int(job["driver"][job["driver"].index("-seed") + 1])
    for ln in open(trace):
        e = json.loads(ln)
        if e.get("ev") != "prog":
            continue
        progs[e["id"]] = e
        c = e["call"]
        if c["st"] in ("TIMEOUT", "PANIC"):
            viols.append({"line": 0, "seg": e["group"], "rules": ["ALL,C06,C11:no-reply-" + c["st"]], "ev": "prog", "proc": c["proc"],
                          "job": job["name"], "driver_cmd": job["driver"], "event": c, "driver": "lockprogs", "seed": seed,
                          "context": ["alone on base state %d, warm=%s" % (e["group"], e["warm"]), json.dumps(e["steps"])]})
        elif e["txns"] > 6:
            viols.append({"line": 0, "seg": e["group"], "rules": ["C06:request-retries-without-bound"], "ev": "prog", "proc": c["proc"],
                          "job": job["name"], "driver_cmd": job["driver"], "event": c, "driver": "lockprogs", "seed": seed,
                          "context": ["%d transactions" % e["txns"]]})
    for ln in out.splitlines():   # lock-order discipline (the assumption of the design model FsProto)
        ln = ln.strip()
        if ln.startswith('"ORDER '):
            for o in json.loads(json.loads(ln)[6:]):
                e = progs[o["id"]]
                viols.append({"line": 0, "seg": e["group"], "rules": ["C06:lock-acquired-below-a-held-lock"], "ev": "prog", "proc": e["call"]["proc"],
                              "job": job["name"], "driver_cmd": job["driver"], "event": e["call"], "driver": "lockprogs", "seed": seed,
                              "context": ["step %d acquires inode %d while holding %s" % (o["step"], o["inum"], o["held"]), json.dumps(e["steps"])]})
    dl = set()
    for ln in out.splitlines():
        ln = ln.strip()
        if ln.startswith('"DEADLOCK '):
            d = json.loads(json.loads(ln)[9:])
            dl.add((d["group"], d["p1"], d["p2"], d["pc1"], d["pc2"]))

    def uses_apply(pr, pc):
        steps = pr["steps"]
        heldctx = {}
        for stp in steps[:pc - 1]:
            if stp["op"] == "acq":
                heldctx[stp["inum"]] = stp["ctx"]
            else:
                heldctx.pop(stp["inum"], None)
        return steps[pc - 1]["ctx"] == "apply" or "apply" in heldctx.values()

    known_apply = []
    fresh = []
    for (g, p1, p2, pc1, pc2) in sorted(dl):
        a, b = progs[p1], progs[p2]
        if (pc1 <= len(a["steps"]) and uses_apply(a, pc1)) or (pc2 <= len(b["steps"]) and uses_apply(b, pc2)):
            known_apply.append((g, p1, p2, pc1, pc2))
        else:
            fresh.append((g, p1, p2, pc1, pc2))

    def confirm(g, p1, p2, pc1, pc2):
        a, b = progs[p1], progs[p2]
        n1 = sum(1 for x in a["steps"][:pc1 - 1] if x["op"] == "acq")
        n2 = sum(1 for x in b["steps"][:pc2 - 1] if x["op"] == "acq")
        spec = os.path.join(scratch, "confirm-%s-%d-%d.json" % (job["name"], p1, p2))
        json.dump({"Seed": seed, "Group": g, "Warm": a["warm"] and b["warm"], "C1": a["call"], "C2": b["call"], "N1": n1, "N2": n2},
                  open(spec, "w"))
        q = subprocess.run([os.path.join(BIN, "vdrive"), "lockconfirm", "-spec", spec], capture_output=True, text=True, timeout=120)
        os.remove(spec)
        m = re.search(r"CONFIRMED=(\w+) ?(.*)", q.stdout)
        return (m.group(1) == "true", m.group(2)) if m else (False, "no result: " + q.stdout[-200:] + q.stderr[-200:])

    def mkviol(t, rules, wedge, extra):
        g, p1, p2, pc1, pc2 = t
        a, b = progs[p1], progs[p2]
        ev = dict(a["call"])
        ev["wedge"] = wedge
        return {"line": 0, "seg": g, "rules": rules, "ev": "deadlock", "proc": a["call"]["proc"], "job": job["name"],
                "driver_cmd": job["driver"], "event": ev, "driver": "lockprogs", "seed": seed,
                "context": ["RPC 1: " + summ(a["call"]), "program 1: " + json.dumps(a["steps"]), "blocked at step %d" % pc1,
                            "RPC 2: " + summ(b["call"]), "program 2: " + json.dumps(b["steps"]), "blocked at step %d" % pc2, extra]}

    unconfirmed = 0
    if known_apply:   # demonstrate the known finding on the real code once
        ok, info = confirm(*known_apply[0])
        if ok:
            viols.append(mkviol(known_apply[0], ["ALL,C06,C11:no-reply-TIMEOUT"], "apply",
                                "%d predicted deadlocks involve dir.Apply; this one replayed on the real server: both RPCs hang" % len(known_apply)))
    nconf = 0
    for t in fresh[:12]:
        if nconf >= 4:
            break
        ok, info = confirm(*t)
        nconf += 1 if ok else 0
        if ok:
            viols.append(mkviol(t, ["C06:deadlock-confirmed-on-the-real-server"], info, "predicted by LockReplay and replayed: both RPCs hang"))
        else:
            unconfirmed += 1
    os.remove(trace)
    return {"name": job["name"], "viols": viols, "events": len(progs), "segments": len({e["group"] for e in progs.values()}),
            "calls": sum(e["count"] for e in progs.values()), "states": st["distinct"], "transitions": st["generated"],
            "tdrv": tdrv, "ttlc": st["wall"], "sample": [summ(e["call"]) + " :: " + json.dumps(e["steps"])[:200] for e in list(progs.values())[:4]],
            "predicted_deadlocks": len(dl), "predicted_involving_apply": len(known_apply), "predicted_unconfirmed": unconfirmed}


def run_xdr_job(job, scratch):
    """C16: TLC prints the vectors (Xdr.tla over RFC 1813's descriptors) -> harness runs the repository codec and the
    registration tables on them -> TLC (XdrTrace.tla) re-computes the encodings and decides."""
    d = tempfile.mkdtemp(prefix="xdr-", dir=scratch)
    for f in glob.glob(os.path.join(SPEC, "*.tla")) + glob.glob(os.path.join(SPEC, "*.cfg")):
        shutil.copy(f, d)
    open(os.path.join(d, "XdrVec.cfg"), "w").write("INIT Init\nNEXT Next\nCONSTANT Depth = %d\n" % job["depth"])
    t0 = time.time()
    p = subprocess.run(["java", "-XX:+UseParallelGC", "-Xss512m", "-Xmx6g", "-Djava.io.tmpdir=" + d, "-cp", JAR, "tlc2.TLC", "-workers", "1", "-metadir",
                        os.path.join(d, "meta"), "-config", "XdrVec.cfg", "XdrVec.tla"], cwd=d, capture_output=True, text=True, timeout=3000)
    if "No error has been found" not in p.stdout:
        raise Infra("vector generation failed:\n" + p.stdout[-3000:])
    vec = os.path.join(scratch, job["name"] + ".vec")
    nvec = 0
    with open(vec, "w") as f:
        for ln in p.stdout.splitlines():
            ln = ln.strip()
            if ln.startswith('"VEC ') or ln.startswith('"PROCS '):
                f.write(json.loads(ln) + "\n")
                nvec += 1
    shutil.rmtree(d, ignore_errors=True)
    tgen = time.time() - t0
    r = run_job({"name": job["name"], "module": "XdrTrace.tla", "cfg": "XdrTrace.cfg", "driver": ["xdr", "-spec", vec]}, scratch)
    os.remove(vec)
    r["programs"] = nvec
    r["tdrv"] += tgen
    return r


def run_mbt_job(job, scratch):
    """Model-based testing: TLC generates plans from NfsMC.tla (exhaustively to a depth, or by simulation), the harness
    replays a slice of them on the real server, NfsTrace validates the recorded runs."""
    d = tempfile.mkdtemp(prefix="mbt-", dir=scratch)
    for f in glob.glob(os.path.join(SPEC, "*.tla")) + glob.glob(os.path.join(SPEC, "*.cfg")):
        shutil.copy(f, d)
    cmd = ["java", "-XX:+UseParallelGC", "-Xss512m", "-Xmx8g", "-Djava.io.tmpdir=" + d, "-cp", JAR, "tlc2.TLC", "-metadir", os.path.join(d, "meta")]
    if job["mode"] == "sim":
        cmd += ["-workers", "1", "-simulate", "num=%d" % job["num"], "-depth", "12", "-seed", str(job["seed"]), "-config", "NfsMC_sim.cfg"]
    else:
        cmd += ["-workers", "8", "-config", "NfsMC_gen.cfg"]
    t0 = time.time()
    p = subprocess.run(cmd + ["NfsMC.tla"], cwd=d, capture_output=True, text=True, timeout=3000)
    if "rror" in p.stdout and "No error" not in p.stdout and job["mode"] != "sim":
        raise Infra("plan generation failed:\n" + p.stdout[-3000:])
    plans = os.path.join(scratch, job["name"] + ".plans")
    n = 0
    seen = set()
    with open(plans, "w") as f:
        for ln in p.stdout.splitlines():
            ln = ln.strip()
            if ln.startswith('"PLAN ') and ln not in seen:
                seen.add(ln)
                f.write(json.loads(ln) + "\n")
                n += 1
    shutil.rmtree(d, ignore_errors=True)
    if n == 0:
        raise Infra("no plans generated:\n" + p.stdout[-2000:])
    m = re.search(r"(\d+) states generated, (\d+) distinct states found", p.stdout)
    tgen = time.time() - t0
    r = run_job({"name": job["name"], "module": "NfsTrace.tla", "cfg": "NfsTrace.cfg", "driver_timeout": 3000, "tlc_timeout": 3000,
                 "driver": ["plans", "-spec", plans, "-parts", str(job["parts"]), "-part", str(job["part"]), "-maxprobe", str(job.get("max", 0))]},
                scratch)
    os.remove(plans)
    r["plans_generated"] = n
    r["tdrv"] += tgen
    if m:
        r["states"] += int(m.group(2))
        r["transitions"] += int(m.group(1))
    return r


def run_slin_job(job, scratch):
    """C17/C18 concurrent part: driver 'simple|kvs -sconc N' -> SimpleLin.tla / KvsLin.tla. A history is accepted iff the
    search consumed all its lines; a crash probe is accepted iff some path's state at its line equals the recovered state."""
    trace = os.path.join(scratch, job["name"] + ".ndjson")
    cmd = [os.path.join(BIN, "vdrive")] + job["driver"] + ["-out", trace]
    t0 = time.time()
    p = subprocess.run(cmd, capture_output=True, text=True, timeout=job.get("driver_timeout", 1800), cwd=scratch)
    if p.returncode != 0:
        raise Infra("driver failed (%d): %s\n%s" % (p.returncode, " ".join(cmd), (p.stdout + p.stderr)[-3000:]))
    tdrv = time.time() - t0
    mod = job["module"]
    out, st = run_tlc(mod + ".tla", mod + ".cfg", scratch, env={"TRACE": trace}, timeout=job.get("tlc_timeout", 3000), xmx="6g")
    if "No error has been found" not in out:
        raise Infra("%s search failed on %s:\n%s" % (mod, trace, out[-3000:]))
    prop = job["prop"]
    lines = open(trace).readlines()
    n = len(lines)
    hw, starts, unmatched = {}, {}, []
    for ln in out.splitlines():
        ln = ln.strip()
        m = re.match(r'"HW (-?\d+) (\d+) (\d+)"', ln)
        if m:
            hw[int(m.group(1))] = int(m.group(3))
            starts[int(m.group(1))] = int(m.group(2))
    if "-crashpoints" in job["driver"] and mod == "SimpleLin":
        # the simple server holds a file's lock until its update is durable: a reader cannot have seen what a crash takes
        # back, so the probes are matched with every reply checked
        for ln in out.splitlines():
            m = re.match(r'"UNMATCHED (\d+)"', ln.strip())
            if m:
                unmatched.append(int(m.group(1)))
    elif "-crashpoints" in job["driver"]:   # kvs: probes are matched with the replies of read-only calls left unchecked (see the module, choice 14)
        out2, st2 = run_tlc(mod + ".tla", mod + ".cfg", scratch, env={"TRACE": trace, "RELAX": "1"}, timeout=job.get("tlc_timeout", 3000), xmx="6g")
        if "No error has been found" not in out2:
            raise Infra("%s search (RELAX) failed on %s:\n%s" % (mod, trace, out2[-3000:]))
        st["distinct"] += st2["distinct"]; st["generated"] += st2["generated"]; st["wall"] += st2["wall"]
        for ln in out2.splitlines():
            m = re.match(r'"UNMATCHED (\d+)"', ln.strip())
            if m:
                unmatched.append(int(m.group(1)))
    order = sorted(starts, key=lambda k: starts[k])
    viols, ncalls, nprobes, sample = [], 0, 0, []

    def sm(c):
        if "op" in c:
            return "%s %s -> %s ok=%s val=%s" % (c["op"], c["pairs"] if c["op"] == "put" else c["key"], c["st"], c["ok"], c.get("val"))
        return summ(c)
    for idx, sg in enumerate(order):
        end = starts[order[idx + 1]] if idx + 1 < len(order) else n + 1
        evs = [json.loads(x) for x in lines[starts[sg] - 1:end - 1]]
        calls = [e["call"] for e in evs if e.get("ev") == "inv"]
        ncalls += len(calls)
        nprobes += sum(1 for e in evs if e.get("ev", "").endswith("crashprobe"))
        if not sample:
            sample = [sm(c) for c in calls[-12:]]
        reset = evs[0]
        ctx = [("inv c%d " % e["cl"]) + sm(e["call"]) if e["ev"] == "inv" else "ret c%d %d" % (e["cl"], e["call"]["i"])
               for e in evs if e.get("ev") in ("inv", "ret")]
        reached = hw.get(sg, starts[sg])
        if reached < end:
            noreply = [c for c in calls if c["st"] in ("TIMEOUT", "PANIC")]
            ev = json.loads(lines[reached - 1]) if reached - 1 < len(lines) else {}
            if noreply:
                ev, rules = noreply[0], ["ALL,%s,C11:no-reply-%s" % (prop, noreply[0]["st"])]
            else:
                if ev.get("ev") == "ret":
                    want = ev["call"]["i"]
                    ev = next((c for c in calls if c["i"] == want), ev)
                else:
                    ev = ev.get("call", ev)
                rules = [prop + ":history-has-no-linearization"]
            viols.append({"line": reached, "seg": sg, "rules": rules, "ev": "inv", "proc": ev.get("proc", ev.get("op", "")), "job": job["name"],
                          "driver_cmd": job["driver"], "event": ev if isinstance(ev, dict) else {}, "driver": reset.get("driver", ""),
                          "seed": reset.get("seed", 0), "stuck_at": (lines[reached - 1][:300] if reached - 1 < len(lines) else "end"),
                          "context": ctx[-60:]})
        for u in unmatched:
            if starts[sg] <= u < min(end, reached):
                ev = json.loads(lines[u - 1])
                before = [json.loads(x) for x in lines[starts[sg] - 1:u - 1]]
                viols.append({"line": u, "seg": sg, "rules": [prop + ":recovered-state-matches-no-linearization-prefix"], "ev": ev["ev"], "proc": "",
                              "job": job["name"], "driver_cmd": job["driver"], "event": ev, "driver": reset.get("driver", ""), "seed": reset.get("seed", 0),
                              "context": [("inv c%d " % e["cl"]) + sm(e["call"]) if e["ev"] == "inv" else "ret c%d %d" % (e["cl"], e["call"]["i"])
                                          for e in before if e.get("ev") in ("inv", "ret")][-60:]})
    os.remove(trace)
    return {"name": job["name"], "viols": viols, "events": n, "segments": len(order), "calls": ncalls, "probes": nprobes,
            "states": st["distinct"], "transitions": st["generated"], "tdrv": tdrv, "ttlc": st["wall"], "sample": sample}


def server_died(p, trace):
    """The driver process died of a panic in a goroutine of the server under test (a background thread of go-nfsd: no
    frame of the harness on the panicking goroutine's stack; panics inside an RPC are recovered by the driver itself).
    That is behaviour of the real code, not of the machinery: the trace recorded so far gets a final 'fatal' event."""
    err = p.stderr or ""
    i = err.find("panic: ")
    if p.returncode != 2 or i < 0 or not os.path.exists(trace):
        return False
    stack = err[i:]
    if "verif/harness" in stack or "github.com/mit-pdos/go-nfsd/" not in stack:
        return False
    with open(trace, "rb") as f:
        data = f.read()
    data = data[:data.rfind(b"\n") + 1]
    what = stack.split("\n\n")[0].strip()[:200]
    m = re.search(r"\n(github.com/mit-pdos/go-nfsd/[^\n]+)\(", stack)
    ev = {"ev": "fatal", "what": "a thread of the server panicked (%s) in %s: the server process died" % (what, m.group(1) if m else "?")}
    with open(trace, "wb") as f:
        f.write(data + (json.dumps(ev, separators=(",", ":")) + "\n").encode())
    return True


def run_job(job, scratch):
    """job: {name, driver: [args...], module, cfg}. Returns result dict."""
    if job.get("kind") == "mbt":
        return run_mbt_job(job, scratch)
    if job.get("kind") == "xdr":
        return run_xdr_job(job, scratch)
    if job.get("kind") == "lock":
        return run_lock_job(job, scratch)
    if job.get("kind") == "lin":
        return run_lin_job(job, scratch)
    if job.get("kind") == "slin":
        return run_slin_job(job, scratch)
    if job.get("kind") == "mc":
        return run_mc_job(job, scratch)
    if job.get("kind") == "apalache":
        return run_apalache_job(job, scratch)
    trace = os.path.join(scratch, job["name"] + ".ndjson")
    cmd = [os.path.join(BIN, "vdrive_race" if job.get("race") else "vdrive")] + job["driver"] + ["-out", trace]
    t0 = time.time()
    env = dict(os.environ)
    if job.get("race"):
        env["GORACE"] = "exitcode=0 halt_on_error=0"
    try:
        p = subprocess.run(cmd, capture_output=True, text=True, timeout=job.get("driver_timeout", 900), cwd=scratch, env=env)
    except subprocess.TimeoutExpired:
        raise Infra("driver timed out: " + " ".join(cmd))
    if p.returncode != 0 and not server_died(p, trace):
        raise Infra("driver failed (%d): %s\n%s" % (p.returncode, " ".join(cmd), (p.stdout + p.stderr)[-3000:]))
    if job.get("race"):
        with open(trace, "a") as f:
            for ev in race_reports(p.stderr):
                f.write(json.dumps(ev, separators=(",", ":")) + "\n")
    tdrv = time.time() - t0
    out, st = run_tlc(job["module"], job["cfg"], scratch, env={"TRACE": trace}, timeout=job.get("tlc_timeout", 1200),
                      xmx=job.get("xmx", "4g"))
    viols, consumed = parse_trace_out(out)
    if consumed is None or consumed[0] != consumed[1] or "No error has been found" not in out:
        raise Infra("TLC did not consume trace %s: %s\n%s" % (trace, consumed, out[-4000:]))
    for extra_mod in job.get("also_modules", []):
        out2, st2 = run_tlc(extra_mod + ".tla", extra_mod + ".cfg", scratch, env={"TRACE": trace}, timeout=1200)
        v2, c2 = parse_trace_out(out2)
        if c2 is None or c2[0] != c2[1] or "No error has been found" not in out2:
            raise Infra("TLC (%s) did not consume trace %s: %s\n%s" % (extra_mod, trace, c2, out2[-3000:]))
        viols += v2
        st["distinct"] += st2["distinct"]
        st["generated"] += st2["generated"]
        st["wall"] += st2["wall"]
    # join violations with the trace lines
    lines = None
    segs = {}
    nseg = ncalls = nother = 0
    distinct = set()
    sample = []
    with open(trace) as f:
        lines = f.readlines()
    cur = None
    for ln in lines:
        if ln.startswith('{"ev":"reset"') or (len(ln) < 400 and '"ev":"reset"' in ln):
            cur = json.loads(ln)
            segs[cur["seg"]] = cur
            nseg += 1
        elif ln.startswith('{"ev":"call"') or ln.startswith('{"ev":"kv"'):
            ncalls += 1
            m = re.search(r'"proc":"(\w*)".*?"fh":"(\w{0,6}).*?"name":"([^"]{0,12}).*?"off":(\d+).*?"cnt":(\d+).*?"st":"(\w*)"', ln)
            distinct.add(m.groups() if m else hash(ln[30:200]))
        elif ln.startswith('{"ev":"xdr"') or ln.startswith('{"ev":"dispatch"') or ln.startswith('{"ev":"crashprobe"') or '"ev":"scrashprobe"' in ln[:200] \
                or '"ev":"kcrashprobe"' in ln[:200] or ln.startswith('{"ev":"snap"') or ln.startswith('{"ev":"lk"'):
            nother += 1
    for v in viols:
        v["job"] = job["name"]
        v["driver_cmd"] = job["driver"]
        v["event"] = json.loads(lines[v["line"] - 1])
        if isinstance(v["event"], dict):
            for k in ("data", "rdata"):
                if k in v["event"] and len(json.dumps(v["event"][k])) > 2000:
                    v["event"][k] = "...elided..."
        ctx = []
        k = v["line"] - 2
        while k >= 0 and len(ctx) < 60 and not lines[k].startswith('{"ev":"reset"'):
            if lines[k].startswith('{"ev":"call"'):
                ctx.append(summ(json.loads(lines[k])))
            elif lines[k].startswith('{"ev":"restart"'):
                ctx.append("restart")
            k -= 1
        v["context"] = ctx[::-1]
        sg = segs.get(v["seg"], {})
        v["driver"] = sg.get("driver", "")
        v["seed"] = sg.get("seed", 0)
    for ln in lines[:400]:
        if ln.startswith('{"ev":"call"') and len(sample) < 6:
            e = json.loads(ln)
            sample.append({k: e[k] for k in ("proc", "fh", "name", "off", "cnt", "st", "code") if k in e})
        elif ln.startswith('{"ev":"kv"') and len(sample) < 6:
            sample.append(json.loads(ln))
    os.remove(trace)
    return {"name": job["name"], "viols": viols, "events": consumed[1], "segments": nseg, "calls": ncalls,
            "states": st["distinct"], "transitions": st["generated"], "tdrv": tdrv, "ttlc": st["wall"], "sample": sample,
            "distinct": len(distinct), "other_checked": nother}


def summ(e):
    """one-line summary of a call event"""
    a = [str(e["i"]), e["proc"], e["fh"][:6]]
    if e["name"] or e["proc"] in ("LOOKUP", "CREATE", "REMOVE"):
        a.append(repr(e["name"][:14]) + ("(%d)" % e["nlen"] if e["nlen"] > 14 else ""))
    if e["fh2"]:
        a += [e["fh2"][:6], repr(e["name2"][:14])]
    if e["proc"] in ("READ", "WRITE", "COMMIT"):
        a.append("off=%d cnt=%d" % (e["off"], e["cnt"]))
    if e["proc"] == "WRITE":
        a.append("st=%d data=%s" % (e["stable"], json.dumps(e["data"])[:60]))
    if e["setsize"]:
        a.append("size=%d" % e["size"])
    if e["proc"].startswith("READDIR"):
        a.append("cookie=%d cnt=%d/%d/%d" % (e["cookie"], e["cnt"], e["dircount"], e["maxcount"]))
    a.append("-> %s/%d" % (e["st"], e["code"]))
    if e["rfh"]:
        a.append("fh=" + e["rfh"][:6])
    if e["proc"] == "READ":
        a.append("data=%s eof=%s" % (json.dumps(e["rdata"])[:80], e["reof"]))
    if e["proc"] == "WRITE":
        a.append("n=%d comm=%d" % (e["rcount"], e["rcommitted"]))
    if e["ents"]:
        a.append("ents=" + ",".join("%s:%d" % (x["name"][:8], x["cookie"]) for x in e["ents"][:12]))
    if e["hasattr"]:
        a.append("attr(t=%d,sz=%d,id=%d)" % (e["rtype"], e["rsize"], e["rid"]))
    return " ".join(a)


def run_jobs(jobs):
    scratch = tempfile.mkdtemp(prefix="verif-")
    try:
        res = []
        with cf.ThreadPoolExecutor(max_workers=NPAR) as ex:
            futs = [ex.submit(run_job, j, scratch) for j in jobs]
            for f in futs:
                res.append(f.result())
        return res
    finally:
        shutil.rmtree(scratch, ignore_errors=True)


# ---------------------------------------------------------------------------
# per-property plans

def seq_job(name, seed, profile, segs, steps, avoid, disk=20000, dumpeach=50, extra=None):
    return {"name": name, "module": "NfsTrace.tla", "cfg": "NfsTrace.cfg",
            "driver": ["seq", "-seed", str(seed), "-segs", str(segs), "-steps", str(steps), "-profile", profile,
                       "-avoid", avoid, "-disk", str(disk), "-dumpeach", str(dumpeach)] + (extra or [])}


def crash_job(name, seed, profile, segs, steps, avoid, disk=2000, extra=None):
    return {"name": name, "module": "NfsTrace.tla", "cfg": "NfsTrace.cfg", "driver_timeout": 3000, "also_modules": ["WalTrace"],
            "driver": ["crash", "-seed", str(seed), "-segs", str(segs), "-steps", str(steps), "-profile", profile,
                       "-avoid", avoid, "-disk", str(disk)] + (extra or [])}


def conccrash_job(name, seed, clients, segs, steps, avoid, maximg=60, loss=2, also=None):
    """concurrent history + crash images cut inside it: NfsLin (tree = some linearization prefix) + FsStruct on each recovered image"""
    j = {"name": name, "kind": "lin", "driver_timeout": 3000,
         "driver": ["conc", "-seed", str(seed), "-segs", str(segs), "-steps", str(steps), "-clients", str(clients), "-avoid", avoid,
                    "-crashpoints", "-loss", str(loss), "-maximg", str(maximg), "-disk", "8000"]}
    if also:
        j["also"] = also
    return j


def fsproto_jobs(q, which):
    """exhaustive runs of the design model of the lock/transaction protocol and its negative controls"""
    J = lambda cfg, **kw: dict({"name": "FsProto/" + cfg, "kind": "mc", "module": "FsProto.tla", "cfg": "FsProto_%s.cfg" % cfg, "workers": 6}, **kw)
    jobs = []
    sfx = [""] if q else ["", "_3", "_big"]
    for sc in ("tree", "shrink", "half"):
        for x in sfx:
            jobs.append(J(sc + x, xmx="12g"))
    if which in ("C03", "C08"):
        jobs += [J("norecheck", expect_violation="Refines"), J("half_norecheck", expect_violation="Refines"),
                 J("half_noname", expect_violation="Refines")]
    if which == "C06":
        jobs += [J("live"), J("unsorted", expect_violation="NoDeadlock"), J("plus", expect_violation="NoDeadlock")]
    return jobs


def design_jobs(module, cfgs_quick, cfgs_thorough, negatives, q):
    """exhaustive TLC runs of a small design model (faithful configurations) and its negative controls"""
    jobs = []
    for c in (cfgs_quick if q else cfgs_quick + cfgs_thorough):
        jobs.append({"name": "%s/%s" % (module, c), "kind": "mc", "module": module + ".tla", "cfg": c + ".cfg", "workers": 4})
    for c, inv in negatives:
        jobs.append({"name": "%s/%s(negative control)" % (module, c), "kind": "mc", "module": module + ".tla", "cfg": c + ".cfg", "workers": 2,
                     "expect_violation": inv})
    return jobs


def protoreplay_jobs(q, seed, also=None):
    """behaviours of FsProto (TLC simulation) replayed on the real server with the lock acquisitions gated into the model's order"""
    jobs = []
    for i in range(1 if q else 6):
        j = {"name": "protoreplay%d" % i, "kind": "lin", "gen": {"module": "FsProtoGen", "cfg": "FsProtoGen", "num": 150 if q else 600, "seed": seed * 10 + i + 1},
             "driver": ["protoplans", "-part", "0", "-steps", "150" if q else "600"]}
        if also:
            j["also"] = also
        jobs.append(j)
    return jobs


def commitwin_jobs(q, also=None):
    """fourth window family: a victim held inside its commit while others commit; then a crash (NfsLin.FinalCrash)"""
    jobs = []
    for k in range(4):
        j = {"name": "wincommit%d" % k, "kind": "lin", "driver": ["windows", "-part", "-3", "-parts", "4", "-seed", str(k)]}
        if also:
            j["also"] = also
        jobs.append(j)
    return jobs


def probe_job(prop, avoid):
    return {"name": "probes-" + prop, "module": "NfsTrace.tla", "cfg": "NfsTrace.cfg",
            "driver": ["probes", "-prop", prop]}


def plan(prop, tier, seed, known):
    av = avoid_flags(known)
    q = tier == "quick"
    jobs = []
    if prop == "C02":
        n = 6 if q else 48
        for i in range(n):
            jobs.append(seq_job("seq%d" % i, seed * 100 + i, "mix,data,names,dirs,many", 5 if q else 10, 250 if q else 400, av))
        jobs.append(probe_job(prop, av))
        # through the XDR/RPC transport: nfstypes encoding + rfc1057 framing and dispatch in front of the same server
        for i in range(2 if q else 16):
            jobs.append(seq_job("rpc%d" % i, seed * 100 + 30 + i, "mix,data,names,dirs,many", 4 if q else 10, 250 if q else 400, av, extra=["-transport"]))
        j = probe_job(prop, av)
        j["name"], j["driver"] = "probes-rpc-" + prop, j["driver"] + ["-transport"]
        jobs.append(j)
        # model-based tests: one real run per transition of the bounded NfsMC graph (a slice in quick) and long simulated walks
        parts = 16
        for k in ([seed % parts] if q else range(parts)):
            jobs.append({"name": "mbt%d" % k, "kind": "mbt", "mode": "bfs", "parts": parts, "part": k})
        for k in range(1 if q else 8):
            jobs.append({"name": "mbtsim%d" % k, "kind": "mbt", "mode": "sim", "num": 150 if q else 400, "seed": seed * 10 + k, "parts": 1, "part": 0,
                         "max": 300 if q else 2000})
        if not q:
            jobs.append({"name": "NfsMC", "kind": "mc", "module": "NfsMC.tla", "cfg": "NfsMC.cfg", "workers": 16, "tlc_timeout": 3000, "xmx": "16g"})
    elif prop == "C08":
        n = 4 if q else 32
        for i in range(n):
            jobs.append(seq_job("stale%d" % i, seed * 100 + i, "stale", 4 if q else 8, 250 if q else 400, av))
        jobs.append(probe_job(prop, av))
        # a directory handle going stale while a CREATE/MKDIR/SYMLINK through it is between its retries (directed schedules)
        jobs.append({"name": "wingetalloc", "kind": "lin", "also": ["C08"], "driver": ["windows", "-part", "-1", "-parts", "1"]})
        for k in range(7):   # a file handle whose inode number is given to a new object while a request through it is between its retries
            jobs.append({"name": "winrecycle%d" % k, "kind": "lin", "also": ["C08"], "driver": ["windows", "-part", "-2", "-parts", "7", "-seed", str(k)]})
        jobs += fsproto_jobs(q, "C08")
        jobs += commitwin_jobs(q, ["C08"])   # a directory removed and pushed out of the inode cache while a LOOKUP of ".." is between its two locks
        for k in ([(seed * 3 + j) % 32 for j in range(2)] if q else range(0, 32, 2)):
            jobs.append({"name": "win%d" % k, "kind": "lin", "also": ["C08"], "driver": ["windows", "-part", str(k), "-parts", "32"]})
    elif prop == "C12":
        jobs += commitwin_jobs(q, ["C12"])   # bitmap bits lost between concurrent commits expose another file's blocks after recovery
        n = 4 if q else 32
        for i in range(n):
            jobs.append(seq_job("recycle%d" % i, seed * 100 + i, "recycle", 4 if q else 8, 250 if q else 400, av, disk=6000))
        jobs.append(probe_job(prop, av))
        # a request that has helped a truncation to its end, held before it locks the file again while the file is filled and cut again
        jobs.append({"name": "winrelock", "kind": "lin", "also": ["C12"], "driver": ["windows", "-part", "-2", "-parts", "-1", "-seed", "0"]})
        # NoStale: a block cut off and not freed yet never lies below the size again; control: "one block left" taken for "done"
        jobs += design_jobs("Shrink", ["Shrink"], ["Shrink_all", "Shrink_big"], [("Shrink_slack", "NoStale"), ("Shrink_norecheck", "NoStale")], q)
    elif prop == "C13":
        n = 4 if q else 32
        for i in range(n):
            jobs.append(seq_job("dirs%d" % i, seed * 100 + i, "dirs,names", 4 if q else 8, 250 if q else 400, av))
        jobs.append(probe_job(prop, av))
        # the design model of the slot array (cookies, pages, updates between pages) and its assumption on real snapshots
        jobs += design_jobs("DirSlots", ["DirSlots"], ["DirSlots_big"], [("DirSlots_compact", "Complete"), ("DirSlots_cookie", "NoDup")], q)
        for i in range(1 if q else 8):
            jobs.append(seq_job("dirslots%d" % i, seed * 100 + 50 + i, "dirs,names", 3 if q else 6, 150 if q else 300, av, disk=8000, extra=["-snapeach", "1"]))
        # entries added concurrently: the retry loop of CREATE/MKDIR/SYMLINK (the directory lock is given up while a half-freed
        # inode is completed) with the same name created meanwhile - a name listed twice is a duplicate slot
        jobs.append({"name": "wingetalloc", "kind": "lin", "also": ["C13"], "driver": ["windows", "-part", "-1", "-parts", "1"]})
        for i in range(1 if q else 6):   # listings while other clients add, remove and rename entries
            jobs.append({"name": "lin%d" % i, "kind": "lin", "also": ["C13"],
                         "driver": ["conc", "-seed", str(seed * 100 + 60 + i), "-segs", "4" if q else "12", "-steps", "10", "-clients", str(2 + i % 3), "-avoid", av]})
    elif prop == "C04":
        jobs.append({"name": "wingetalloc", "kind": "lin", "also": ["C04"], "driver": ["windows", "-part", "-1", "-parts", "1"]})
        # the structure of every crash image of a short workload, the initial format included (the full engine runs under C01)
        for i in range(2 if q else 8):
            jobs.append(crash_job("crash%d" % i, seed * 100 + 60 + i, "crash", 1, 20 if q else 35, av, disk=3200,
                                  extra=["-loss", "3" if q else "6", "-cont", "1", "-nested", "0"]))
        n = 5 if q else 40
        for i in range(n):
            jobs.append(seq_job("struct%d" % i, seed * 100 + i, "dirs,names,mix,many,data", 5 if q else 10, 200 if q else 400, av,
                                disk=8000, extra=["-snapeach", "5"]))
        jobs.append(probe_job(prop, av))
        for i in range(2 if q else 12):   # failed operations on nearly-full disks must not damage the structure either
            jobs.append(seq_job("structfull%d" % i, seed * 100 + 60 + i, "full", 4 if q else 8, 120 if q else 300, av,
                                dumpeach=40, extra=["-snapeach", "2", "-disks", "1600,1700,1900,2300"]))
        # concurrent histories: the structure at the quiescent end of each history (and the reference state reached by the
        # linearization) - directed window schedules and random conflicting clients
        parts = 32
        for k in ([(seed * 4 + j) % parts for j in range(3)] if q else range(parts)):
            jobs.append({"name": "win%d" % k, "kind": "lin", "driver": ["windows", "-part", str(k), "-parts", str(parts)]})
        for i in range(3 if q else 24):
            jobs.append({"name": "lin%d" % i, "kind": "lin",
                         "driver": ["conc", "-seed", str(seed * 100 + 70 + i), "-segs", "10" if q else "40", "-steps", "10",
                                    "-clients", str(2 + i % 3), "-avoid", av]})
        jobs += commitwin_jobs(q, ["C04"])   # concurrent commits sharing bitmap bytes, then a crash: the recovered structure
        for i in range(2 if q else 16):   # crash images of concurrent runs (incl. images taken while a large file is being freed)
            jobs.append(conccrash_job("conccrash%d" % i, seed * 100 + 80 + i, 2 + i % 3, 3 if q else 6, 6 if q else 8, av, 60 if q else 150, 2 if q else 4))
    elif prop == "C05":
        n = 5 if q else 40
        for i in range(n):
            jobs.append(seq_job("reclaim%d" % i, seed * 100 + i, "data,recycle,dirs,mix", 4 if q else 8, 200 if q else 400, av,
                                disk=8000, extra=["-snapeach", "7", "-deleteall"]))
        jobs.append(probe_job(prop, av))
        jobs.append({"name": "exhaust", "module": "ExhaustTrace.tla", "cfg": "ExhaustTrace.cfg", "driver": ["exhaust", "-seed", str(seed)]})
        jobs += design_jobs("Shrink", ["Shrink", "Shrink_all"], ["Shrink_big"], [("Shrink_reset", "NoOrphan"), ("Shrink_noresult", "Reclaimed")], q)
        jobs += design_jobs("AllocTxn", ["AllocTxn"], [], [("AllocTxn_byte", "NeverTwice"), ("AllocTxn_early", "NeverTwice"),
                                                           ("AllocTxn_freefirst", "NeverTwice"), ("AllocTxn_cancel", "Coherent")], q)
        jobs += design_jobs("BlockMap", ["BlockMap"], ["BlockMap_big", "BlockMap_all"], [("BlockMap_noundo", "Covered")], q)
        # room accounting of the freeing transactions: every placement of a file's blocks over the bitmap areas (real constants), the
        # original condition as negative control, and the real transactions' sizes against the model
        jobs += design_jobs("TxnFit", ["TxnFit_real"], ["TxnFit", "TxnFit_real8", "TxnFit_real_two2"], [("TxnFit_real_two", "Fits")] + ([] if q else [("TxnFit_two", "Fits")]), q)
        jobs.append({"name": "txnfit", "module": "TxnFitTrace.tla", "cfg": "TxnFitTrace.cfg", "driver_timeout": 1800, "tlc_timeout": 1800,
                     "driver": ["txnfit", "-seed", str(seed), "-steps", "50" if q else "500"]})
        for i in range(1 if q else 8):   # the real block map against that model: writes, short writes and truncations with exact free space
            jobs.append({"name": "bmap%d" % i, "module": "NfsTrace.tla", "cfg": "NfsTrace.cfg", "also_modules": ["BlockMapTrace"],
                         "driver": ["bmap", "-seed", str(seed * 100 + i), "-steps", "80" if q else "400"]})
        for i in range(1 if q else 12):   # frees running concurrently with other operations, and crash points inside them
            jobs.append(conccrash_job("conccrash%d" % i, seed * 100 + 85 + i, 2 + i % 3, 3 if q else 6, 6 if q else 8, av, 60 if q else 150, 2 if q else 4))
    elif prop == "C10":
        n = 5 if q else 40
        for i in range(n):
            jobs.append(seq_job("restart%d" % i, seed * 100 + i, "many,longnames,mix,names,data", 4 if q else 8, 250 if q else 500, av,
                                disk=12000, dumpeach=40, extra=["-snapeach", "10"]))
        jobs.append(probe_job(prop, av))
        # concurrent clients over more files than the inode cache holds (evictions and refills under concurrency)
        for i in range(1 if q else 8):
            jobs.append({"name": "concmany%d" % i, "kind": "lin", "also": ["C10"],
                         "driver": ["conc", "-seed", str(seed * 100 + 60 + i), "-segs", "3" if q else "6", "-steps", "8", "-clients", str(2 + i % 2),
                                    "-avoid", av, "-many", "130"]})
        jobs += design_jobs("Icache", ["Icache"], [], [("Icache_nodrop", "Coherent"), ("Icache_nowrite", "Coherent"), ("Icache_lookupfirst", "OneCopy"), ("Icache_reuse", "Coherent")], q)
        # the per-directory name cache and the slot choice that depends on it
        jobs += design_jobs("DirCache", ["DirCache"], ["DirCache_big"], [("DirCache_keep", "Coherent"), ("DirCache_nodel", "Coherent")], q)
    elif prop == "C09":
        n = 5 if q else 40
        for i in range(n):
            jobs.append(seq_job("full%d" % i, seed * 100 + i, "full", 4 if q else 8, 150 if q else 300, av,
                                dumpeach=25, extra=["-snapeach", "1", "-disks", "1600,1700,1900,2300"]))
        jobs.append(probe_job(prop, av))
        # the inode table filled to the last number: requests that need one must fail without a trace
        jobs.append({"name": "exhaust", "module": "ExhaustTrace.tla", "cfg": "ExhaustTrace.cfg", "driver": ["exhaust", "-seed", str(seed)]})
    elif prop == "C01":
        n = 6 if q else 60
        for i in range(n):
            jobs.append(crash_job("crash%d" % i, seed * 100 + i, "crash", 1 if q else 2, 30 if q else 45, av, disk=3200,
                                  extra=["-loss", "2" if q else "6", "-cont", "3", "-nested", "1" if q else "3"]))
        for i in range(5):
            jobs.append(crash_job("crashscript%d" % i, i, "script", 1, 0, av, disk=3200,
                                  extra=["-loss", "2" if q else "6", "-cont", "2", "-nested", "1" if q else "4", "-unst", "1"]))
        jobs.append(crash_job("crashscript5", 5, "script", 1, 0, av, disk=3200, extra=["-loss", "1", "-cont", "0", "-nested", "0", "-stride", "5" if q else "2", "-unst", "1"]))
        # large requests while the in-memory log is nearly full of UNSTABLE data (the journal flushes in the middle of appending)
        for i in (6, 7):
            jobs.append(crash_job("crashscript%d" % i, i, "script", 1, 0, av, disk=4000,
                                  extra=["-loss", "1", "-cont", "1", "-nested", "0", "-stride", "40" if q else "7", "-unst", "1"]))
        for i in range(2 if q else 12):
            jobs.append(crash_job("crashbig%d" % i, seed * 100 + 50 + i, "crashbig", 1, 12 if q else 20, av, disk=3400,
                                  extra=["-loss", "1", "-cont", "2", "-nested", "1", "-stride", "3" if q else "1"]))
        # the server on util/timed_disk (what `go-nfsd -stats` runs on) over a disk whose barriers take a while: the write-ahead
        # discipline of the stream that reaches the disk (WalTrace) and the crash images are those of that configuration
        for i in range(2 if q else 8):
            jobs.append(crash_job("crashtimed%d" % i, seed * 100 + 70 + i, "crash", 1 if q else 2, 30 if q else 45, av, disk=3200,
                                  extra=["-loss", "2", "-cont", "1", "-nested", "0", "-timed"]))
        for jb in jobs:   # a recovered image whose structure is rejected cannot "keep serving further operations correctly"
            jb["also"] = ["C01"]
        jobs.append(probe_job(prop, av))
        jobs += commitwin_jobs(q, ["C01"])
        # the first start on an empty disk with crashes inside the format (the crash engine enumerates those points on the real code)
        jobs += design_jobs("Format", ["Format"], [], [("Format_rootfirst", "Usable"), ("Format_dotsonce", "Usable")], q)
        for i in range(2 if q else 16):   # crash points inside concurrent histories (group commits of several clients' transactions)
            jobs.append(conccrash_job("conccrash%d" % i, seed * 100 + 95 + i, 2 + i % 3, 3 if q else 6, 6 if q else 8, av, 60 if q else 150, 2 if q else 4))
        jobs.append({"name": "Wal_MC", "kind": "mc", "module": "Wal.tla", "cfg": "Wal_MC.cfg"})
        jobs.append({"name": "Wal_MC_raw(negative control)", "kind": "mc", "module": "Wal.tla", "cfg": "Wal_MC_raw.cfg", "expect_violation": True})
        # one request = one transaction: the durable prefix holds every request entirely or not at all (control: a request logged in pieces)
        jobs += design_jobs("Flush", ["Flush"], [], [("Flush_split", "Whole")], q)
    elif prop == "C07":
        n = 6 if q else 60
        for i in range(n):
            jobs.append(crash_job("unstable%d" % i, seed * 100 + i, "crashun", 1 if q else 2, 35 if q else 50, av, disk=3200,
                                  extra=["-loss", "2" if q else "5", "-cont", "3", "-nested", "1"]))
        jobs.append(crash_job("crashscript2", 2, "script", 1, 0, av, disk=3200, extra=["-loss", "2" if q else "6", "-cont", "2", "-nested", "1", "-unst", "1"]))
        jobs.append(crash_job("crashscript2off", 2, "script", 1, 0, av, disk=3200, extra=["-loss", "2", "-cont", "1", "-nested", "0", "-unst", "0"]))
        jobs.append(crash_job("crashscript4", 4, "script", 1, 0, av, disk=3200, extra=["-loss", "2" if q else "6", "-cont", "2", "-nested", "1", "-unst", "1"]))
        jobs.append(crash_job("crashscript5", 5, "script", 1, 0, av, disk=3200, extra=["-loss", "1", "-cont", "0", "-nested", "0", "-stride", "3" if q else "1", "-unst", "1"]))
        jobs.append(crash_job("crashscript6", 6, "script", 1, 0, av, disk=4000, extra=["-loss", "1", "-cont", "1", "-nested", "0", "-stride", "40" if q else "7", "-unst", "1"]))
        jobs += commitwin_jobs(q, ["C07", "C01"])
        # what "stable" waits for: its own position, never the shared field that a refused transaction resets (script 4 and the
        # commit windows with a refused request exercise the same on the real code)
        jobs += design_jobs("Flush", ["Flush"], [], [("Flush_shared", "Promise"), ("Flush_late", "Promise"), ("Flush_split", "Whole")], q)
        jobs.append(seq_job("unstseq", seed, "data,mix", 4 if q else 16, 250, av))
        jobs.append(probe_job(prop, av))
    elif prop == "C03":
        n = 8 if q else 64
        for i in range(n):
            jobs.append({"name": "lin%d" % i, "kind": "lin",
                         "driver": ["conc", "-seed", str(seed * 100 + i), "-segs", "10" if q else "40", "-steps", "10" if q else "14",
                                    "-clients", str(2 + i % 3), "-avoid", av]})
        parts = 32
        sel = range(parts) if not q else [(seed * 4 + k) % parts for k in range(4)]
        for k in sel:
            jobs.append({"name": "win%d" % k, "kind": "lin", "driver": ["windows", "-part", str(k), "-parts", str(parts)]})
        # concurrent clients through the repository's RPC layer, one connection each (its buffers and dispatch under concurrency)
        for i in range(1 if q else 8):
            jobs.append({"name": "linrpc%d" % i, "kind": "lin",
                         "driver": ["conc", "-seed", str(seed * 100 + 80 + i), "-segs", "6" if q else "20", "-steps", "10",
                                    "-clients", str(2 + i % 3), "-avoid", av, "-transport"]})
        jobs.append({"name": "wingetalloc", "kind": "lin", "driver": ["windows", "-part", "-1", "-parts", "1"]})
        for k in range(7):   # third family: the inode number is recycled for a new object inside the victim's lock-free window
            jobs.append({"name": "winrecycle%d" % k, "kind": "lin", "also": ["C08"], "driver": ["windows", "-part", "-2", "-parts", "7", "-seed", str(k)]})
        jobs += fsproto_jobs(q, "C03")
        jobs += design_jobs("Shrink", [], [], [("Shrink_norecheck", "NoStale")], q)   # getShrink not looking again after it has helped
        jobs += design_jobs("Icache", ["Icache"], [], [("Icache_lookupfirst", "OneCopy"), ("Icache_reuse", "Coherent")], q)   # the inode cache under concurrency
        jobs += protoreplay_jobs(q, seed)
        jobs += commitwin_jobs(q)
        j = probe_job(prop, av)             # client requests against a file whose truncation the (parked) shrinker has not completed
        j["also"] = ["C03"]
        jobs.append(j)
        for i in range(1 if q else 12):   # a crash in the middle of a concurrent history leaves a linearization prefix
            jobs.append(conccrash_job("conccrash%d" % i, seed * 100 + 90 + i, 2 + i % 3, 3 if q else 6, 6 if q else 8, av, 60 if q else 150, 2 if q else 4))
    elif prop == "C16":
        jobs.append({"name": "xdrvec", "kind": "xdr", "depth": 3 if q else 5})
    elif prop == "C11":
        for i in range(2 if q else 16):
            jobs.append({"name": "argsweep%d" % i, "module": "NfsTrace.tla", "cfg": "NfsTrace.cfg",
                         "driver": ["argsweep", "-seed", str(seed * 100 + i), "-segs", "1", "-steps", "600" if q else "3000", "-avoid", av]})
        for i in range(1 if q else 8):   # the same through the repository's XDR/RPC path (real decoding, dispatch tables, MOUNT program)
            jobs.append({"name": "argsweeprpc%d" % i, "module": "NfsTrace.tla", "cfg": "NfsTrace.cfg",
                         "driver": ["argsweep", "-seed", str(seed * 100 + 10 + i), "-segs", "1", "-steps", "600" if q else "3000", "-avoid", av, "-transport"]})
        for i in range(2 if q else 16):
            jobs.append(seq_job("mixstale%d" % i, seed * 100 + 20 + i, "stale,mix,limits", 3 if q else 8, 200 if q else 400, av, disk=30000))
        jobs.append(probe_job(prop, av))
    elif prop == "C06":
        n = 4 if q else 16
        per = 3 if q else 5
        for i in range(n):
            jobs.append({"name": "lockprogs%d" % i, "kind": "lock",
                         "driver": ["lockprogs", "-seed", str(seed), "-part", str(i * per), "-segs", str(per), "-steps", "80" if q else "200"]})
        # hangs under real concurrency (random schedules and directed windows) count as well
        for i in range(2 if q else 16):
            jobs.append({"name": "lin%d" % i, "kind": "lin",
                         "driver": ["conc", "-seed", str(seed * 100 + 40 + i), "-segs", "10" if q else "40", "-steps", "10",
                                    "-clients", str(3 + i % 2), "-avoid", av]})
        # several clients truncating and re-extending the same large sparse file: shrinker threads pile up behind the
        # inode lock that the requests which start them hold
        for i in range(2 if q else 12):
            jobs.append({"name": "storm%d" % i, "kind": "lin", "also": ["C06"],
                         "driver": ["conc", "-seed", str(seed * 100 + 70 + i), "-segs", "4" if q else "10", "-steps", "10",
                                    "-clients", str(3 + i % 3), "-avoid", av, "-storm"]})
        jobs.append(probe_job(prop, av))
        jobs += fsproto_jobs(q, "C06")
        jobs += protoreplay_jobs(q, seed, ["C06"])
    elif prop == "C14":
        n = 4 if q else 32
        for i in range(n):
            jobs.append({"name": "locks%d" % i, "module": "LockTrace.tla", "cfg": "LockTrace.cfg",
                         "driver": ["conc", "-access", "-seed", str(seed * 100 + i), "-segs", "8" if q else "30", "-steps", "12",
                                    "-clients", str(2 + i % 3), "-avoid", av]})
        # the same histories under Go's race detector: it observes the accesses the inode hooks do not (shared structures
        # outside the inodes); its reports about server code become trace events that LockTrace rejects
        build_race()
        for i in range(6 if q else 24):
            jobs.append({"name": "race%d" % i, "module": "LockTrace.tla", "cfg": "LockTrace.cfg", "race": True, "driver_timeout": 1800,
                         "driver": ["conc", "-access", "-seed", str(seed * 100 + 50 + i), "-segs", "9" if q else "24", "-steps", "12",
                                    "-clients", str(2 + i % 3), "-avoid", av] + (["-many", "140"] if i % 2 == 1 else [])})
        # the directed windows under the race detector: a victim held inside its commit, between its locks, or between reading its
        # inode from the disk and filling its cache slot while the inode cache is turned over (what random schedules rarely produce)
        for k in range(4):
            jobs.append({"name": "racewin%d" % k, "module": "LockTrace.tla", "cfg": "LockTrace.cfg", "race": True, "driver_timeout": 1800,
                         "driver": ["windows", "-part", "-3", "-parts", "4", "-seed", str(k)]})
        jobs.append({"name": "racerelock", "module": "LockTrace.tla", "cfg": "LockTrace.cfg", "race": True, "driver_timeout": 1800,
                     "driver": ["windows", "-part", "-2", "-parts", "-1", "-seed", "0"]})
    elif prop == "C19":
        n = 4 if q else 24
        for i in range(n):
            jobs.append(seq_job("limits%d" % i, seed * 100 + i, "limits", 3 if q else 8, 150 if q else 300, av, disk=40000, dumpeach=30))
        jobs.append(probe_job(prop, av))
        # the announced limits must also be usable through the repository's XDR/RPC path (bounds in the decoders)
        for i in range(1 if q else 6):
            jobs.append(seq_job("limitsrpc%d" % i, seed * 100 + 40 + i, "limits", 3 if q else 8, 150 if q else 300, av, disk=40000, dumpeach=30, extra=["-transport"]))
        j = probe_job(prop, av)
        j["name"], j["driver"] = "probes-rpc-" + prop, j["driver"] + ["-transport"]
        jobs.append(j)
    elif prop in ("C17", "C18"):
        cmd, mod = ("simple", "SimpleTrace") if prop == "C17" else ("kvs", "KvsTrace")
        for i in range(4 if q else 24):
            jobs.append({"name": "%sseq%d" % (cmd, i), "module": mod + ".tla", "cfg": mod + ".cfg",
                         "driver": [cmd, "-seed", str(seed * 100 + i), "-segs", "4" if q else "10", "-steps", "400", "-disk", "2000", "-avoid", av]})
        for i in range(4 if q else 40):
            jobs.append({"name": "%scrash%d" % (cmd, i), "module": mod + ".tla", "cfg": mod + ".cfg",
                         "driver": [cmd, "-seed", str(seed * 100 + 50 + i), "-segs", "2" if q else "4", "-steps", "60", "-disk", "2000",
                                    "-crashpoints", "-loss", "2" if q else "6", "-avoid", av]})
        if prop == "C17":   # through the XDR/RPC path (cmd/simple-nfsd registers the same tables)
            for i in range(1 if q else 8):
                jobs.append({"name": "simplerpc%d" % i, "module": mod + ".tla", "cfg": mod + ".cfg",
                             "driver": [cmd, "-seed", str(seed * 100 + 40 + i), "-segs", "4" if q else "10", "-steps", "400", "-disk", "2000", "-avoid", av, "-transport"]})
        lmod = "SimpleLin" if prop == "C17" else "KvsLin"
        for i in range(3 if q else 24):   # concurrent clients on the same file / overlapping key sets; linearizability search
            jobs.append({"name": "%sconc%d" % (cmd, i), "kind": "slin", "module": lmod, "prop": prop,
                         "driver": [cmd, "-seed", str(seed * 100 + 60 + i), "-segs", "100" if q else "200", "-steps", "5", "-sconc", str(2 + i % 3), "-disk", "2000"]})
        for i in range(3 if q else 24):   # ... and every crash point of such histories
            jobs.append({"name": "%sconccrash%d" % (cmd, i), "kind": "slin", "module": lmod, "prop": prop,
                         "driver": [cmd, "-seed", str(seed * 100 + 70 + i), "-segs", "8" if q else "16", "-steps", "4", "-sconc", str(2 + i % 2), "-disk", "2000",
                                    "-crashpoints", "-loss", "2" if q else "5"]})
        if prop == "C17":   # a writer held up at the disk, a reader of the same file, the disk cut off as it is
            jobs.append({"name": "simplegates", "kind": "slin", "module": "SimpleLin", "prop": prop,
                         "driver": ["simple", "-seed", str(seed), "-segs", "1", "-sconc", "-1", "-disk", "2000", "-crashpoints"]})
        if prop == "C18":
            jobs.append({"name": "kvsgates", "kind": "slin", "module": "KvsLin", "prop": prop,
                         "driver": ["kvs", "-seed", str(seed), "-segs", "1", "-sconc", "-1", "-disk", "2000"]})
            for i in range(2 if q else 8):
                jobs.append({"name": "kvsbig%d" % i, "module": mod + ".tla", "cfg": mod + ".cfg", "driver_timeout": 3000,
                             "driver": [cmd, "-seed", str(seed * 100 + 80 + i), "-segs", "1", "-steps", "8" if q else "14", "-disk", "2000",
                                        "-crashpoints", "-loss", "1", "-avoid", "__bigput"]})
    elif prop == "C15":
        import random
        rnd = random.Random(seed)
        NB = 32768
        if q:
            rs = sorted(set(rnd.randrange(1540, 3 * NB + 2000) for _ in range(300)))
            chunks = ["1530-1600,32760-32776,65530-65545,98296-98312", ",".join(str(x) for x in rs[:150]), ",".join(str(x) for x in rs[150:])]
            # every size at which the free blocks run out in front of an index block (the indirect block after 8 direct
            # blocks, the double-indirect block after 8 + 512, its first child) is in these dense ranges
            fills = ["1541-1560,2003,2058-2066", "", "%d" % rs[10]]
        else:
            lo, hi, n = 1530, 3 * NB + 2000, 16
            step = (hi - lo) // n + 1
            chunks = ["%d-%d" % (lo + i * step, min(hi, lo + (i + 1) * step - 1)) for i in range(n)]
            fl = list(range(1541, 1600)) + list(range(2050, 2080)) + list(range(2570, 2582)) + [2003, 3089, 3090, 5000, 20001, NB - 1, NB, NB + 1, NB + 7, 2 * NB + 3, 3 * NB + 1001]
            fills = [",".join(str(f) for f in fl if lo + i * step <= f <= lo + (i + 1) * step - 1) for i in range(n)]
        for i, ch in enumerate(chunks):
            jobs.append({"name": "layout%d" % i, "module": "NfsTrace.tla", "cfg": "NfsTrace.cfg", "driver_timeout": 3000, "tlc_timeout": 3000, "also": ["C15"],
                         "driver": ["layout", "-sizes", ch, "-fill", fills[i]]})
        jobs.append({"name": "Layout_MC", "kind": "mc", "module": "Layout.tla", "cfg": "Layout_MC.cfg"})
        jobs.append({"name": "Layout_apalache", "kind": "apalache", "module": "Layout.tla",
                     "args": ["--init=Init", "--inv=Inv", "--next=Next", "--length=0"]})
    else:
        raise Infra("no plan for " + prop)
    return jobs


LEVELS = {"C11": "exploration", "C14": "other", "C16": "translation_validation"}


def tags_of(rule):
    m = re.match(r"((?:(?:C\d+|ALL),?)+):", rule)
    return m.group(1).split(",") if m else []


def write_replay(prop, v):
    os.makedirs(os.path.join(OUT, "replays"), exist_ok=True)
    body = {"property": prop, "driver_cmd": v["driver_cmd"], "job": v["job"], "segment": v["seg"], "seed": v.get("seed"),
            "driver": v.get("driver"), "line": v["line"], "rules": v["rules"], "want": v.get("want"), "detail": v.get("detail"), "stuck_at": v.get("stuck_at"), "event": v["event"], "context": v.get("context", [])}
    h = hashlib.sha1(json.dumps(body, sort_keys=True).encode()).hexdigest()[:10]
    path = os.path.join(OUT, "replays", "%s-%s.json" % (prop, h))
    json.dump(body, open(path, "w"), indent=1)
    return path


def run_check(prop, tier, seed):
    t0 = time.time()
    known = load_known()
    build()
    jobs = plan(prop, tier, seed, known)
    if os.environ.get("VERIF_ONLY"):   # development only (never set by a registered command): the jobs whose name matches
        jobs = [j for j in jobs if re.search(os.environ["VERIF_ONLY"], j["name"])]
    jobs_also = {j["name"]: j.get("also", []) for j in jobs}
    res = run_jobs(jobs)
    nviol = 0
    notes = 0
    kf_seen = set()
    for r in res:
        for v in r["viols"]:
            mine = any(prop in tags_of(x) or "ALL" in tags_of(x) for x in v["rules"])
            # a directed scenario written for this property: whatever the reference rejects in it counts for it
            if not mine and prop in jobs_also.get(v["job"], []):
                mine = True
                v["rules"] = v["rules"] + [prop + ":rejected-in-a-scenario-directed-at-this-property"]
            if not mine:
                notes += 1
                log("NOTE other-property rejection in %s seg %d line %d: %s | %s %s" % (
                    v["job"], v["seg"], v["line"], v["rules"][:2],
                    summ(v["event"]) if v["event"].get("ev") == "call" else v["event"].get("ev"),
                    v["event"].get("panic", "") if isinstance(v["event"], dict) else ""))
                continue
            v["proc"] = v.get("proc", "")
            kf = match_known(known, prop, v, v["event"])
            if kf:
                if kf["id"] not in kf_seen:
                    kf_seen.add(kf["id"])
                    log("KNOWN-FINDING: property=%s %s: %s" % (prop, kf["id"], kf["what"]))
                continue
            nviol += 1
            path = write_replay(prop, v)
            log("VIOLATION property=%s replay=%s" % (prop, path))
            log("  rules=%s event=%s" % (v["rules"], summ(v["event"])[:600] if v["event"].get("ev") == "call" else json.dumps(v["event"])[:300]))
            if v.get("want"):
                log("  want=%s" % json.dumps(v["want"])[:400])
    ev = {
        "property_id": prop, "tier": tier, "seed": seed, "level": LEVELS.get(prop, "model_checking"),
        "coverage": {
            "evaluations": max(1, sum(r["calls"] + r.get("other_checked", 0) + (r["segments"] if r["calls"] == 0 else 0) for r in res)),
            "distinct_nontrivial": max(2, sum(r.get("distinct", 0) or r.get("programs", 0) or r["segments"] for r in res)),
            "rule": "a case is one RPC (or crash image / snapshot / vector / history) produced by the drivers named under 'jobs'; distinct = "
                    "distinct (procedure, handle prefix, name, offset, count, status) tuples, resp. distinct vectors/histories; all are "
                    "non-trivial in the sense that each is evaluated against the specification by TLC",
            "programs": max(1, sum(r.get("programs", 0) for r in res)),
            "disagreements_checked": sum(r.get("other_checked", 0) + r["calls"] for r in res),
            "states": max(1, sum(r["states"] for r in res)),
            "transitions": max(1, sum(r["transitions"] for r in res)),
            "traces_validated_against_impl": sum(r["segments"] for r in res),
            "rpc_calls_validated": sum(r["calls"] for r in res),
            "trace_events": sum(r["events"] for r in res),
            "samples": [r["sample"] for r in res[:2] if r["sample"]] or [["(no call events)"]],
            "exhaustive_models": [{"name": r["name"], "distinct_states": r["states"], "proof": bool(r.get("proof"))} for r in res if r.get("mc")],
            "jobs": [{"name": r["name"], "segments": r["segments"], "calls": r["calls"], "driver_s": round(r["tdrv"], 2),
                      "tlc_s": round(r["ttlc"], 2)} for r in res],
            "model_based_plans_generated": sum(r.get("plans_generated", 0) for r in res),
            "predicted_deadlocks": sum(r.get("predicted_deadlocks", 0) for r in res),
            "predicted_deadlocks_involving_known_finding": sum(r.get("predicted_involving_apply", 0) for r in res),
            "predicted_deadlocks_not_reproduced": sum(r.get("predicted_unconfirmed", 0) for r in res),
            "other_property_rejections": notes,
            "known_findings_reproduced": sorted(kf_seen),
            "explanation": "each segment is a run of the real server (built from /repo, -tags verif) recorded as ndjson and "
                           "replayed through the TLA+ specification by TLC; states/transitions are TLC's counts over all trace runs",
        },
        "assumptions": ["TLC, CommunityModules Json", "harness drivers and recorders (harness/drv, harness/vdisk)",
                        "integers clamped at 1.6e9", "normative choices of DESIGN.md section 6"],
        "wall_s": round(time.time() - t0, 2),
        "violations": nviol,
    }
    os.makedirs(os.path.join(OUT, "evidence"), exist_ok=True)
    json.dump(ev, open(os.path.join(OUT, "evidence", prop + ".json"), "w"), indent=1)
    log("%s %s: %d segments, %d calls, %d violations, %d known findings, %.1fs" % (
        prop, tier, ev["coverage"]["traces_validated_against_impl"], ev["coverage"]["rpc_calls_validated"], nviol,
        len(kf_seen), time.time() - t0))
    return 1 if nviol else 0


def replay(path):
    """Re-runs the driver command recorded in a replay file and validates the new trace with the specification that
    judged the original one (the kind of job is derived from the driver)."""
    body = json.load(open(path))
    build()
    drv = body["driver_cmd"]
    job = {"name": "replay", "module": "NfsTrace.tla", "cfg": "NfsTrace.cfg", "driver": drv}
    if drv[0] in ("conc", "windows", "protoplans") and "-access" not in drv:
        job = {"name": "replay", "kind": "lin", "driver": drv}
        if drv[0] == "protoplans":
            log("replay of model-generated behaviours needs the plan file of the original run: not supported")
            return 2
    elif drv[0] == "conc":
        job.update(module="LockTrace.tla", cfg="LockTrace.cfg")
    elif drv[0] in ("simple", "kvs"):
        mod = ("Simple" if drv[0] == "simple" else "Kvs")
        if "-sconc" in drv:
            job = {"name": "replay", "kind": "slin", "module": mod + "Lin", "prop": body["property"], "driver": drv}
        else:
            job.update(module=mod + "Trace.tla", cfg=mod + "Trace.cfg")
    elif drv[0] == "lockprogs":
        job = {"name": "replay", "kind": "lock", "driver": drv}
    elif drv[0] == "crash":
        job["also_modules"] = ["WalTrace"]
        job["driver_timeout"] = 3000
    elif drv[0] == "exhaust":
        job.update(module="ExhaustTrace.tla", cfg="ExhaustTrace.cfg")
    elif drv[0] == "bmap":
        job["also_modules"] = ["BlockMapTrace"]
    res = run_jobs([job])
    for v in res[0]["viols"]:
        if v["seg"] == body["segment"] and (v["line"] == body["line"] or set(v["rules"]) & set(body["rules"])):
            log("REPRODUCED property=%s rules=%s" % (body["property"], v["rules"]))
            return 1
    log("not reproduced (%d other rejections)" % len(res[0]["viols"]))
    return 0
