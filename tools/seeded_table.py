#!/usr/bin/env python3
"""Prints the markdown table 'which check catches which seeded change' from seeded/*/meta.json and caught.json,
and (with --write) replaces the block between the markers in DESIGN.md."""
import json, glob, os, sys
V = os.path.dirname(os.path.dirname(os.path.abspath(__file__)))
rows = []
for d in sorted(glob.glob(os.path.join(V, "seeded", "*"))):
    if not os.path.isdir(d):
        continue
    i = os.path.basename(d)
    try:
        m = json.load(open(os.path.join(d, "meta.json")))
    except Exception:
        continue
    prop = m["property"] if isinstance(m["property"], str) else m["property"][0]
    c = {}
    if os.path.exists(os.path.join(d, "caught.json")):
        c = json.load(open(os.path.join(d, "caught.json")))
    caught = [k for k, v in sorted(c.items()) if v.get("caught")]
    missed = [k for k, v in sorted(c.items()) if not v.get("caught")]
    rules = sorted({r.split(":", 1)[1] for k in caught for r in c[k].get("rules", []) if ":" in r})[:3]
    note = m.get("status_note", "")
    summ = " ".join(m.get("summary", "").split())[:110]
    rows.append("| %s | %s | %s | %s | %s | %s |" % (i, prop, summ, ", ".join(caught) or "—", "; ".join(rules), (("not by " + ", ".join(missed) + ". ") if missed else "") + note))
out = ["| change | breaks | what it does (abridged) | caught by (quick tier) | rules that fired (sample) | notes |", "|---|---|---|---|---|---|"] + rows
text = "\n".join(out)
if "--write" in sys.argv:
    p = os.path.join(V, "DESIGN.md")
    s = open(p).read()
    a, b = "<!-- seeded-table-begin -->", "<!-- seeded-table-end -->"
    if a in s:
        s = s[:s.index(a) + len(a)] + "\n" + text + "\n" + s[s.index(b):]
        open(p, "w").write(s)
        print("DESIGN.md updated, %d rows" % len(rows))
    else:
        print("markers not found")
else:
    print(text)
