#!/usr/bin/env python3
"""Transcribes an ONC RPC .x protocol description (RFC 1813's NFSv3 + MOUNTv3, as shipped with go-rpcgen's
independent rfc1813 package) into the TLA+ type-descriptor table XdrNfs.tla used by Xdr.tla.
usage: x2tla.py prot.x > spec/XdrNfs.tla   (one-time; the generated module is committed)"""
import re, sys

src = open(sys.argv[1]).read()
src = re.sub(r"/\*.*?\*/", " ", src, flags=re.S)
src = re.sub(r"%.*", " ", src)
toks = re.findall(r"[A-Za-z_][A-Za-z_0-9]*|0x[0-9a-fA-F]+|-?\d+|[{}()\[\]<>;:,=*]", src)
pos = 0


def peek(k=0):
    return toks[pos + k] if pos + k < len(toks) else None


def eat(x=None):
    global pos
    t = toks[pos]
    if x is not None and t != x:
        raise SystemExit("expected %r got %r at %d: %s" % (x, t, pos, toks[pos - 5:pos + 5]))
    pos += 1
    return t


consts = {}
types = {}     # name -> descriptor (python dict)
order = []
procs = []     # (program, version, name, number, argtype, restype)


def num(x):
    if x in consts:
        return consts[x]
    return int(x, 0)


def basetype():
    """parses a type specifier, returns a type NAME (creating anonymous names is not needed here)"""
    t = eat()
    if t == "unsigned":
        n = eat()
        if n == "hyper":
            return "u64"
        if n == "int":
            return "u32"
        raise SystemExit("unsigned " + n)
    if t == "int":
        return "i32"
    if t == "hyper":
        return "i64"
    if t == "bool":
        return "bool"
    if t == "void":
        return "void"
    if t in ("struct", "enum", "union"):
        return eat()
    return t


def decl():
    """one declaration: returns (typename_for_field, fieldname). Creates helper types for opaque/string/arrays/pointers."""
    if peek() == "void":
        eat()
        return "void", None
    if peek() in ("opaque", "string"):
        kind = eat()
        name = eat()
        if peek() == "[":
            eat(); n = num(eat()); eat("]")
            h = "fix%d" % n
            types.setdefault(h, {"k": "fix", "n": n})
            return h, name
        eat("<")
        mx = 0
        if peek() != ">":
            mx = num(eat())
        eat(">")
        h = ("str%d" if kind == "string" else "var%d") % mx
        types.setdefault(h, {"k": "str" if kind == "string" else "var", "max": mx})
        return h, name
    bt = basetype()
    if peek() == "*":
        eat()
        name = eat()
        h = "opt_" + bt
        types.setdefault(h, {"k": "opt", "t": bt})
        return h, name
    name = eat()
    if peek() == "<":
        eat()
        mx = 0
        if peek() != ">":
            mx = num(eat())
        eat(">")
        h = "arr_%s_%d" % (bt, mx)
        types.setdefault(h, {"k": "arr", "t": bt, "max": mx})
        return h, name
    if peek() == "[":
        raise SystemExit("fixed arrays of non-opaque not supported")
    return bt, name


for prim, d in (("u32", {"k": "u32"}), ("u64", {"k": "u64"}), ("i32", {"k": "u32"}), ("i64", {"k": "u64"}), ("bool", {"k": "bool"}),
                ("void", {"k": "void"})):
    types[prim] = d

while pos < len(toks):
    t = eat()
    if t == "const":
        n = eat(); eat("="); consts[n] = num(eat()); eat(";")
    elif t == "typedef":
        tn, name = decl()
        eat(";")
        types[name] = {"k": "alias", "t": tn}
        order.append(name)
    elif t == "enum":
        name = eat(); eat("{")
        vals = []
        while peek() != "}":
            c = eat(); eat("="); v = num(eat()); consts[c] = v; vals.append(v)
            if peek() == ",":
                eat()
        eat("}"); eat(";")
        types[name] = {"k": "enum", "vals": vals}
        order.append(name)
    elif t == "struct":
        name = eat(); eat("{")
        fs = []
        while peek() != "}":
            tn, fn = decl(); eat(";")
            fs.append((tn, fn))
        eat("}"); eat(";")
        types[name] = {"k": "struct", "f": fs}
        order.append(name)
    elif t == "union":
        name = eat(); eat("switch"); eat("(")
        dt = basetype(); dn = eat(); eat(")"); eat("{")
        arms = []
        default = None
        while peek() != "}":
            if peek() == "default":
                eat(); eat(":")
                tn, fn = decl(); eat(";")
                default = (tn, fn)
            else:
                vals = []
                while peek() == "case":
                    eat()
                    v = eat()
                    vals.append({"TRUE": "TRUE", "FALSE": "FALSE"}.get(v, None) or num(v))
                    eat(":")
                tn, fn = decl(); eat(";")
                arms.append((vals, tn, fn))
        eat("}"); eat(";")
        types[name] = {"k": "union", "d": dt, "dn": dn, "arms": arms, "def": default}
        order.append(name)
    elif t == "program":
        pname = eat(); eat("{")
        while peek() == "version":
            eat(); vname = eat(); eat("{")
            while peek() != "}":
                rt = basetype()
                pn = eat(); eat("(")
                at = basetype()
                eat(")"); eat("="); n = num(eat()); eat(";")
                procs.append((pname, vname, pn, n, at, rt))
            eat("}"); eat("="); vnum = num(eat()); eat(";")
        eat("}"); eat("="); pnum = num(eat()); eat(";")
        procs = [(p if p[0] != pname else (pnum, vnum) + p[2:]) for p in procs]
    else:
        raise SystemExit("unexpected token %r at %d" % (t, pos))


def q(s):
    return '"%s"' % s


def tla(d):
    k = d["k"]
    if k in ("u32", "u64", "bool", "void"):
        return '[k |-> "%s"]' % k
    if k == "alias":
        return '[k |-> "alias", t |-> %s]' % q(d["t"])
    if k == "enum":
        return '[k |-> "enum", vals |-> <<%s>>]' % ", ".join(str(v) for v in d["vals"])
    if k == "fix":
        return '[k |-> "fix", n |-> %d]' % d["n"]
    if k in ("var", "str"):
        return '[k |-> "%s", max |-> %d]' % (k, d["max"])
    if k == "arr":
        return '[k |-> "arr", t |-> %s, max |-> %d]' % (q(d["t"]), d["max"])
    if k == "opt":
        return '[k |-> "opt", t |-> %s]' % q(d["t"])
    if k == "struct":
        return '[k |-> "struct", f |-> <<%s>>, n |-> <<%s>>]' % (", ".join(q(t) for t, _ in d["f"]), ", ".join(q(n) for _, n in d["f"]))
    if k == "union":
        arms = ", ".join('[vals |-> <<%s>>, t |-> %s, n |-> %s]' % (", ".join((q(v) if isinstance(v, str) else str(v)) for v in vs), q(t), q(n or ""))
                         for vs, t, n in d["arms"])
        df = d["def"] if d["def"] else ("none", "")
        return '[k |-> "union", d |-> %s, dn |-> %s, arms |-> <<%s>>, def |-> %s, defn |-> %s]' % (q(d["d"]), q(d["dn"]), arms, q(df[0]), q(df[1] or ""))
    raise SystemExit(k)


print("------------------------------- MODULE XdrNfs -------------------------------")
print("(* GENERATED by tools/x2tla.py from RFC 1813's protocol description (NFSv3 + MOUNTv3 .x text as shipped with the *)")
print("(* independent rfc1813 package of go-rpcgen). Type descriptors for Xdr.tla and the procedure table.             *)")
print("EXTENDS Xdr")
print("")
print("NfsTypes == [")
names = [n for n in types]
print(",\n".join("  %s |-> %s" % (n, tla(types[n])) for n in names))
print("]")
print("")
print("(* program, version, procedure number, name, argument type, result type *)")
print("Procs == <<")
print(",\n".join('  [prog |-> %d, vers |-> %d, num |-> %d, name |-> %s, arg |-> %s, res |-> %s]' % (p[0], p[1], p[3], q(p[2]), q(p[4]), q(p[5]))
                 for p in procs))
print(">>")
print("")
print("TopTypes == ({Procs[i].arg : i \\in 1..Len(Procs)} \\cup {Procs[i].res : i \\in 1..Len(Procs)}) \\ {\"void\"}")
print("=============================================================================")
