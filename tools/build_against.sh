#!/bin/sh
# usage: build_against.sh <go-nfsd tree> <output binary>
# Builds the harness against another checkout of go-nfsd (for self-validation against
# the original tree or a scratch worktree with a seeded change). Scratch copy under /tmp.
set -e
TREE=$1; OUT=$2
export GOFLAGS=-mod=mod GOPROXY=off GOSUMDB=off GOTOOLCHAIN=local
T=$(mktemp -d)
cp -r /verif/harness/. $T/
sed -i "s|=> /repo|=> $TREE|" $T/go.mod
cp $TREE/go.sum $T/go.sum
(cd $T && go build -tags verif -o $OUT ./cmd/vdrive)
rm -rf $T
