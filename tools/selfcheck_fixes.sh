#!/bin/sh
# Self-validation: every repair (fix: commit in /repo) is reverted in /repo's working tree, the check of the property it
# belongs to must then report a violation (exit 1); the tree is restored afterwards. usage: selfcheck_fixes.sh [sha ...]
# (6cc78fd is not in the map: its effect is subsumed by 74e4a38, a revert of it alone is not observable any more)
cd /repo || exit 2
MAP="b102d92:C11 4d27e88:C11 6a6abbf:C11 8e15302:C11 e9ef24f:C11 5ee9d61:C02 0c80fc3:C19 57ef30d:C09 a56b83b:C05 d3e8987:C13 911f399:C06 7fdf8dc:C08 eabc3c6:C08 70d7666:C14 8793a12:C07 90b2d70:C01 a26bd0f:C15 3b6817d:C04 ced2d73:C19 feb7d8f:C12 abaf8b2:C05 9e0a407:C17 63a7e49:C06 e540a4b:C11 3bd0596:C05 f5041a5:C02 d7f458f:C02 74e4a38:C05 8ce70d8:C06 da5a979:C07 b65adbb:C05 466c5a8:C01 19741d9:C17 9921b15:C12"
for m in $MAP; do
  sha=${m%%:*}; prop=${m##*:}
  if [ $# -gt 0 ]; then case " $* " in *" $sha "*) ;; *) continue;; esac; fi
  git reset -q --hard HEAD
  if ! git revert --no-commit $sha >/dev/null 2>&1; then
    echo "$sha $prop REVERT-CONFLICT (later commits touch the same lines)"; git revert --abort 2>/dev/null; git reset -q --hard HEAD; continue
  fi
  git reset -q   # keep the change in the working tree only
  if ! (GOFLAGS=-mod=mod GOPROXY=off GOSUMDB=off go build ./... ) >/dev/null 2>&1; then echo "$sha $prop DOES-NOT-BUILD"; git reset -q --hard HEAD; continue; fi
  out=$(cd /verif && VERIF_SELFTEST_OUT=/tmp/selfcheck.out ./check $prop 2>&1); rc=$?   # outputs (bin, evidence, replays) kept away from /verif
  nv=$(echo "$out" | grep -c '^VIOLATION')
  echo "$sha $prop exit=$rc violations=$nv :: $(git log --format=%s -1 $sha | cut -c1-70)"
  git reset -q --hard HEAD
done
rm -rf /verif/replays /tmp/selfcheck.out
