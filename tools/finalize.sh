#!/bin/sh
# Regenerates every evidence file from a run of the quick tier on /repo's unchanged working tree, validates MANIFEST and
# evidence against the schemas, refreshes the generated parts of DESIGN.md and removes run-time litter.
cd /verif || exit 2
[ -z "$(git -C /repo status --short)" ] || { echo "/repo has uncommitted changes"; exit 2; }
python3 tools/gen_manifest.py >/dev/null
rc=0
for p in C01 C02 C03 C04 C05 C06 C07 C08 C09 C10 C11 C12 C13 C14 C15 C16 C17 C18 C19; do
  ./check $p --tier quick --seed 1 > /tmp/finalize_$p.log 2>&1; r=$?
  echo "$p exit=$r $(tail -1 /tmp/finalize_$p.log)"
  [ $r -eq 0 ] || rc=1
done
python3-vt - <<'PY' || rc=1
import json, jsonschema, glob
jsonschema.validate(json.load(open('/verif/MANIFEST.json')), json.load(open('/root/.vp/MANIFEST.schema.json')))
for f in sorted(glob.glob('/verif/evidence/*.json')):
    jsonschema.validate(json.load(open(f)), json.load(open('/root/.vp/EVIDENCE.schema.json')))
print("schemas ok:", len(glob.glob('/verif/evidence/*.json')), "evidence files")
PY
python3 tools/seeded_table.py --write
rm -rf replays /tmp/finalize_*.log
exit $rc
