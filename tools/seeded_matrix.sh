#!/bin/sh
# runs every seeded change against the check(s) of the property it was written for; prints one line each
for pair in "C01 C01" "C01b C01" "C02 C02" "C03 C03" "C03b C03" "C04 C04" "C05 C05" "C05b C05" "C06 C06" "C06b C06" "C07 C07" "C08 C08" "C09 C09" "C10 C10" "C11 C11" "C12 C12" "C13 C13" "C14 C14" "C15 C15" "C16 C16" "C16b C16" "C17 C17" "C17b C17" "C18 C18" "C18b C18" "C19 C19"; do
  set -- $pair
  out=$(TAILN=400 /verif/tools/try_seeded.sh $1 $2 ${TIER:-quick} 2>&1)
  nv=$(echo "$out" | grep -c '^VIOLATION')
  last=$(echo "$out" | grep "quick:\|thorough:\|PATCH DOES NOT\|INFRA" | tail -1 | cut -c1-120)
  echo "seeded=$1 check=$2 violations=$nv :: $last"
done
rm -rf /verif/replays
