#!/usr/bin/env python3
"""usage: snapdiff.py <replay.json>  -- reruns the driver and shows what differs between the rejected snapshot and the previous one."""
import json, sys, subprocess, tempfile, os
sys.path.insert(0, '/verif/lib'); import engines
b = json.load(open(sys.argv[1]))
t = tempfile.mktemp(suffix='.ndjson')
subprocess.run(['/verif/bin/vdrive'] + b['driver_cmd'] + ['-out', t], capture_output=True)
lines = open(t).readlines(); os.remove(t)
ln = b['line'] - 1
cur = json.loads(lines[ln])
k = ln - 1
between = []
while k >= 0:
    e = json.loads(lines[k])
    if e['ev'] == 'snap': break
    if e['ev'] == 'call': between.append(engines.summ(e))
    k -= 1
prev = json.loads(lines[k])
print("calls between:"); [print("   ", x[:300]) for x in between[::-1]]
for f in ('bbm', 'ibm', 'nonzero', 'balloc', 'ialloc'):
    if prev[f] != cur[f]: print(f, prev[f], '->', cur[f])
pi = {i['inum']: i for i in prev['inodes']}; ci = {i['inum']: i for i in cur['inodes']}
for i in sorted(set(pi) | set(ci)):
    if pi.get(i) != ci.get(i): print('inode', i, '\n   ', json.dumps(pi.get(i))[:400], '\n   ', json.dumps(ci.get(i))[:400])
pd = {i['inum']: i for i in prev['dirs']}; cd = {i['inum']: i for i in cur['dirs']}
for i in sorted(set(pd) | set(cd)):
    if pd.get(i) != cd.get(i): print('dir', i, '\n   ', json.dumps(pd.get(i))[:400], '\n   ', json.dumps(cd.get(i))[:400])
