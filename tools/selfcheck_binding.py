#!/usr/bin/env python3
"""Self-validation of the trace specifications ("demonstrate the binding"): traces recorded from the unchanged server are
accepted; the same traces with ONE recorded field corrupted, or one event removed, must be rejected by the
specification that consumes them. Prints one line per experiment; exit 1 if a corruption is accepted."""
import sys, os, json, tempfile, shutil, subprocess, re
sys.path.insert(0, os.path.join(os.path.dirname(os.path.abspath(__file__)), "..", "lib"))
import engines as E

E.build()
scratch = tempfile.mkdtemp(prefix="binding-")
VD = os.path.join(E.BIN, "vdrive")
fails = 0


def record(args, name):
    out = os.path.join(scratch, name + ".ndjson")
    p = subprocess.run([VD] + args + ["-out", out], capture_output=True, text=True, cwd=scratch, timeout=600)
    assert p.returncode == 0, p.stderr[-500:]
    return out


def judge(module, trace, env=None):
    """returns the list of rejection markers TLC printed"""
    e = {"TRACE": trace}
    e.update(env or {})
    out, st = E.run_tlc(module + ".tla", module + ".cfg", scratch, env=e, timeout=900, xmx="6g")
    marks = [ln for ln in out.splitlines() if ln.strip().startswith(('"VIOL ', '"UNMATCHED ', '"ORDER ', '"SVIOL '))]
    lines = sum(1 for _ in open(trace))
    for ln in out.splitlines():   # search specs: a history whose search did not reach its end
        m = re.match(r'"HW (-?\d+) (\d+) (\d+)"', ln.strip())
        if m:
            pass
    hw = [tuple(map(int, re.match(r'"HW (-?\d+) (\d+) (\d+)"', ln.strip()).groups())) for ln in out.splitlines() if re.match(r'"HW ', ln.strip())]
    if hw:
        starts = sorted(h[1] for h in hw) + [lines + 1]
        for seg, start, reached in hw:
            end = min(s for s in starts if s > start)
            if reached < end:
                marks.append("STUCK seg %d at line %d" % (seg, reached))
    return marks


def experiment(name, module, trace, mutate, env=None):
    global fails
    base = judge(module, trace, env)
    L = [json.loads(x) for x in open(trace)]
    what = mutate(L)
    mt = trace + ".mut"
    open(mt, "w").write("".join(json.dumps(x) + "\n" for x in L))
    got = judge(module, mt, env)
    ok = len(base) == 0 and len(got) > 0
    print("%-34s %-14s original: %s; corrupted (%s): %s" % (name, module, "accepted" if not base else "REJECTED %s" % base[:1],
                                                           what, ("rejected: " + got[0][:110]) if got else "ACCEPTED"))
    if not ok:
        fails += 1


def mut_read(L):
    for e in L:
        if e.get("ev") == "call" and e.get("proc") == "READ" and e.get("st") == "OK" and e["rdata"]:
            e["rdata"][0][1] = (e["rdata"][0][1] + 1) % 250
            return "one byte value of a READ reply changed"
    raise SystemExit("no READ found")


def mut_status(L):
    for e in L:
        if e.get("ev") == "call" and e.get("proc") == "REMOVE" and e.get("st") == "OK":
            e["st"], e["code"] = "ERR", 2
            return "a successful REMOVE reported as failed"
    raise SystemExit("no REMOVE found")


def mut_dump(L):
    for e in reversed(L):
        if e.get("ev") == "dump":
            for o in e["objs"]:
                if o["kind"] == 1 and o["size"] > 0:
                    o["size"] += 1
                    return "a file size in a dump changed"
    raise SystemExit("no dump found")


def mut_bitmap(L):
    for e in L:
        if e.get("ev") == "snap" and e["bbm"]:
            e["bbm"][-1][1] -= 1
            return "one bit of the block bitmap cleared in a snapshot"
    raise SystemExit("no snap")


def mut_drop_got(L):
    for i, e in enumerate(L):
        if e.get("ev") == "lk" and e["k"] == "got":
            # keep accesses that follow: they are now without a lock
            del L[i]
            return "one lock-acquired event (hook) removed"
    raise SystemExit("no got")


def mut_lin_reply(L):
    for e in L:
        if e.get("ev") == "inv" and e["call"]["proc"] == "GETATTR" and e["call"]["st"] == "OK" and e["cl"] != 0:
            e["call"]["rsize"] += 7
            return "a size in a concurrent GETATTR reply changed"
    for e in L:
        if e.get("ev") == "inv" and e["call"]["proc"] == "WRITE" and e["call"]["st"] == "OK" and e["cl"] != 0:
            e["call"]["rsize"] += 7
            return "the post-operation size of a concurrent WRITE changed"
    raise SystemExit("no call")


def mut_probe(L):
    ks = [i for i, e in enumerate(L) if e.get("ev") in ("scrashprobe", "kcrashprobe")]
    e = L[ks[len(ks) // 2]]
    if "files" in e["dump"]:
        e["dump"]["files"][0]["size"] += 1
    else:
        e["dump"]["kv"][0][1] = (e["dump"]["kv"][0][1] + 1) % 250 + 1
    return "the recovered state of one crash image changed"


def mut_wal(L):
    for i, e in enumerate(L):
        if e.get("ev") == "wal" and e["k"] == "hdr1" and e["news"]:
            for j in range(i - 1, 0, -1):
                if L[j].get("ev") == "wal" and L[j]["k"] == "bar":
                    del L[j]
                    return "the barrier before a commit header removed from the disk stream"
    raise SystemExit("no hdr1")


def mut_bm(L):
    for e in L:
        if e.get("ev") == "bmend":
            e["free"] -= 1
            return "one block reported missing after REMOVE"
    raise SystemExit("no bmend")


def mut_txn(L):
    for e in L:
        if e.get("ev") == "freeing":
            for t in e["txns"]:
                if t["k"] == "bg" and t["n"] > 100:
                    t["n"] += 1
                    return "one freeing transaction reported one block larger"
    raise SystemExit("no freeing transaction")


av = E.avoid_flags(E.load_known())
seq = record(["seq", "-seed", "3", "-segs", "1", "-steps", "150", "-profile", "mix,data,dirs", "-avoid", av, "-disk", "8000", "-dumpeach", "50", "-snapeach", "10"], "seq")
experiment("reply data", "NfsTrace", seq, mut_read)
experiment("reply status", "NfsTrace", seq, mut_status)
experiment("observable tree (dump)", "NfsTrace", seq, mut_dump)
experiment("decoded structure (snapshot)", "NfsTrace", seq, mut_bitmap)
conc = record(["conc", "-seed", "3", "-segs", "2", "-steps", "8", "-clients", "3", "-avoid", av], "conc")
experiment("concurrent reply", "NfsLin", conc, mut_lin_reply)
acc = record(["conc", "-access", "-seed", "3", "-segs", "1", "-steps", "8", "-clients", "3", "-avoid", av], "acc")
experiment("lock hook", "LockTrace", acc, mut_drop_got)
sc = record(["simple", "-seed", "1", "-segs", "2", "-steps", "4", "-sconc", "3", "-disk", "2000", "-crashpoints", "-loss", "2"], "simpleconc")
experiment("simple crash image", "SimpleLin", sc, mut_probe, {"RELAX": "1"})
kc = record(["kvs", "-seed", "1", "-segs", "2", "-steps", "4", "-sconc", "3", "-disk", "2000", "-crashpoints", "-loss", "2"], "kvsconc")
experiment("kvs crash image", "KvsLin", kc, mut_probe, {"RELAX": "1"})
cr = record(["crash", "-seed", "5", "-segs", "1", "-steps", "12", "-profile", "crash", "-avoid", av, "-disk", "3200", "-loss", "1", "-cont", "0", "-nested", "0"], "crash")
experiment("write-ahead discipline", "WalTrace", cr, mut_wal)
bm = record(["bmap", "-seed", "1", "-steps", "10"], "bmap")
experiment("block map", "BlockMapTrace", bm, mut_bm)
tf = record(["txnfit", "-seed", "1", "-steps", "50"], "txnfit")
experiment("freeing transactions", "TxnFitTrace", tf, mut_txn)
shutil.rmtree(scratch, ignore_errors=True)
print("binding self-check: %d experiment(s) failed" % fails)
sys.exit(1 if fails else 0)
