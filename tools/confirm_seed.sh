#!/bin/sh
# usage: confirm_seed.sh <agent worktree> <new seeded id>
# Confirms a sub-agent's delivery in a FRESH scratch worktree of /repo's HEAD (never in /repo): the patch applies, the tree
# builds, the unedited suite passes with it, the demonstration fails with it and passes without it. Then files it under seeded/.
WT=$1; ID=$2
export GOFLAGS=-mod=mod GOPROXY=off GOSUMDB=off GOTOOLCHAIN=local
D=$WT/_deliver
[ -f $D/patch.diff ] && [ -f $D/meta.json ] || { echo "$ID: incomplete delivery"; exit 1; }
T=/tmp/confirm.$$.$ID
git -C /repo worktree add -q --detach $T HEAD || exit 2
res() { echo "$ID: $1"; git -C /repo worktree remove --force $T; exit $2; }
demo=$(ls $D/*_test.go 2>/dev/null | head -1)
pkg=$(grep -m1 '^package ' $demo | awk '{print $2}' | sed 's/_test$//')
case $pkg in nfs|simple|kvs|dir|inode|fstxn|alloctxn|cache|dcache|shrinker|super|fh|nfstypes) ;; *) pkg=nfs;; esac
tag=""; grep -q '^//go:build verif' $demo && tag="-tags verif"
name=$(grep -o 'func Test[A-Za-z0-9_]*' $demo | head -1 | sed 's/func //')
grep -q 'func TestSeeded' $demo && name=TestSeeded   # all the demonstration's tests (controls included)
cd $T
# without the patch: demo passes
cp $demo $pkg/seeded_demo_test.go
go test $tag -vet=off -count=1 -run "$name" ./$pkg/ > /tmp/confirm.$$.out 2>&1; r0=$?
git apply $D/patch.diff || res "patch does not apply" 3
go build ./... && go build -tags verif ./... || res "does not build" 3
go test $tag -vet=off -count=1 -run "$name" ./$pkg/ > /tmp/confirm.$$.out1 2>&1; r1=$?
rm -f $pkg/seeded_demo_test.go
go test -vet=off -count=1 -timeout 25m ./... > /tmp/confirm.$$.suite 2>&1; rs=$?
echo "$ID: demo-without-patch exit=$r0 demo-with-patch exit=$r1 suite-with-patch exit=$rs (pkg $pkg, test $name, tags '$tag')"
mkdir -p /verif/seeded/$ID && cp $D/patch.diff $D/meta.json /verif/seeded/$ID/ && cp $demo /verif/seeded/$ID/seeded_demo_test.go
python3 - <<PY
import json
f='/verif/seeded/$ID/meta.json'
m=json.load(open(f))
m['confirmed']={'fresh_worktree_of':'/repo HEAD $(git -C /repo rev-parse --short HEAD)','demo_without_patch_exit':$r0,'demo_with_patch_exit':$r1,'suite_with_patch_exit':$rs,
  'commands':['go test $tag -vet=off -count=1 -run $name ./$pkg/ (without, then with the patch)','go build ./... && go build -tags verif ./...','go test -vet=off -count=1 -timeout 25m ./... (with the patch, demo removed)']}
json.dump(m,open(f,'w'),indent=1)
PY
rm -f /tmp/confirm.$$.out /tmp/confirm.$$.out1 /tmp/confirm.$$.suite
cd /; git -C /repo worktree remove --force $T
[ $r0 -eq 0 ] && [ $r1 -ne 0 ] && [ $rs -eq 0 ]
