#!/bin/sh
# usage: try_seeded.sh <seeded-id> <property> [tier]   -- applies the seeded change to /repo, runs the check, reverts.
ID=$1; PROP=$2; TIER=${3:-quick}
cd /repo || exit 2
if ! git apply --check /verif/seeded/$ID/patch.diff 2>/dev/null; then
  if ! git apply --3way /verif/seeded/$ID/patch.diff 2>/dev/null; then echo "PATCH DOES NOT APPLY: $ID"; git checkout -- . ; exit 3; fi
  git reset -q
else
  git apply /verif/seeded/$ID/patch.diff
fi
cd /verif && ./check $PROP --tier $TIER 2>&1 | grep -v "^build ok" | cut -c1-400 | tail -${TAILN:-6}
git -C /repo checkout -- .
git -C /repo status --short | head -3
