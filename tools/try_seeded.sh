#!/bin/sh
# usage: try_seeded.sh <seeded-id> <property> [tier]   -- applies the seeded change to /repo, runs the check, reverts.
ID=$1; PROP=$2; TIER=${3:-quick}
P=/verif/seeded/$ID/patch.diff; [ -f /verif/seeded/$ID/patch.rebased.diff ] && P=/verif/seeded/$ID/patch.rebased.diff
cd /repo || exit 2
if ! git apply --check $P 2>/dev/null; then
  if ! git apply --3way $P 2>/dev/null; then echo "PATCH DOES NOT APPLY: $ID"; git reset -q --hard HEAD; exit 3; fi
  git reset -q
else
  git apply $P
fi
cd /verif && ./check $PROP --tier $TIER 2>&1 | grep -v "^build ok" | cut -c1-400 | tail -${TAILN:-6}
git -C /repo reset -q --hard HEAD
git -C /repo status --short | head -3
