#!/bin/sh
# Self-validation: every seeded change (seeded/<id>/patch[.rebased].diff) is applied to a scratch worktree of /repo's
# HEAD (never to /repo), the check of the property it breaks is run against that tree (VERIF_SELFTEST_TREE), and the
# outcome is written to seeded/<id>/caught.json. usage: seeded_matrix_par.sh [-j N] [-t tier] [id[:Cnn] ...]
J=3; TIER=quick
while [ $# -gt 0 ]; do case "$1" in -j) J=$2; shift 2;; -t) TIER=$2; shift 2;; *) break;; esac; done
IDS="$*"; [ -z "$IDS" ] && IDS=$(ls /verif/seeded | grep -v '\.')
W=/tmp/sm.$$; mkdir -p $W
one() {
  spec=$1; id=${spec%%:*}
  d=/verif/seeded/$id; [ -f $d/patch.diff ] || return
  prop=$(python3 -c "import json,sys;p=json.load(open('$d/meta.json'))['property'];print(p if isinstance(p,str) else p[0])")
  case "$spec" in *:*) prop=${spec##*:};; esac
  P=$d/patch.diff; [ -f $d/patch.rebased.diff ] && P=$d/patch.rebased.diff
  t=$W/$id.$prop; o=$W/out.$id.$prop; mkdir -p $o
  git -C /repo worktree add -q --detach $t HEAD 2>/dev/null || { echo "$id worktree failed"; return; }
  if ! git -C $t apply $P 2>/dev/null && ! git -C $t apply --3way $P 2>/dev/null; then st=does-not-apply; rc=-1; nv=0
  else
    out=$(cd /verif && VERIF_SELFTEST_TREE=$t VERIF_SELFTEST_OUT=$o ./check $prop --tier $TIER 2>&1); rc=$?
    nv=$(echo "$out" | grep -c '^VIOLATION'); st=ran
  fi
  rules=$(python3 -c "
import sys,json,glob
r=set()
for f in glob.glob('$o/replays/*.json'):
    try: r.update(str(x)[:80] for x in json.load(open(f)).get('rules',[]))
    except Exception: pass
print(json.dumps(sorted(r)[:12]))" 2>/dev/null)
  [ -z "$rules" ] && rules='[]'
  python3 - <<PY
import json,time
f='$d/caught.json'
try: c=json.load(open(f))
except Exception: c={}
c['$prop']={'command':'./check $prop --tier $TIER (tree = /repo HEAD $(git -C /repo rev-parse --short HEAD) + $(basename $P))','status':'$st','exit':$rc,'violations':$nv,'rules':$rules,'caught':($rc==1 and $nv>0),'when':time.strftime('%Y-%m-%dT%H:%MZ',time.gmtime())}
json.dump(c,open(f,'w'),indent=1)
PY
  echo "seeded=$id check=$prop status=$st exit=$rc violations=$nv"
  git -C /repo worktree remove --force $t 2>/dev/null; rm -rf $t $o
}
n=0
for s in $IDS; do
  one $s &
  n=$((n+1)); if [ $((n % J)) -eq 0 ]; then wait; fi
done
wait
git -C /repo worktree prune; rm -rf $W
