#!/usr/bin/env python3
"""Regenerates /verif/MANIFEST.json from the table below (keeps it valid at all times)."""
import json, os, subprocess
V = "/verif"
props = [json.loads(l) for l in open(V + "/properties.jsonl")]
TRACE_NOTE = ("Trusted: TLC + CommunityModules Json; the Go harness (drivers, recording disk, API dumper); integer clamping at 1.6e9; "
              "the normative choices of DESIGN.md section 6. Exploration is bounded (seeded random and directed sequences), "
              "exhaustive only for the *_MC models named in the text.")
claimed = {
 "C02": ("model_checking", "Recorded runs of the real server (direct calls; seeded random sequences over all 22 procedures with boundary offsets/sizes/names, stale handles, clean restarts, both unstable settings; directed probes) are replayed by TLC through the TLA+ reference NfsSpec: every reply field and periodic full-tree dumps must be what the reference allows. Decides the property for every explored sequence; not exhaustive over sequences.",
         "trace validation against TLA+ reference NfsSpec (TLC)", "5 C02"),
 "C08": ("model_checking", "NfsSpec keeps the set of every handle ever issued; traces with heavy create/remove cycles, restarts (inode numbers are reused from the lowest) and dead handles presented to every procedure and argument position are validated by TLC: a dead handle must be refused as stale, a new handle must never have been issued before.",
         "trace validation against TLA+ reference NfsSpec (issued-handle history)", "5 C08"),
 "C12": ("model_checking", "Contents are modelled byte-exactly (run-length encoded) in NfsSpec; recycling traces (tagged payloads, deletes, aligned and unaligned shrinks, sparse growth, reuse) are validated by TLC so any non-zero byte the reference does not have is a rejection.",
         "trace validation against TLA+ reference NfsSpec (RLE contents)", "5 C12"),
 "C13": ("model_checking", "NfsSpec carries a session monitor per directory (names seen, present throughout, present at any time); page-by-page enumerations with many budgets, with adds/removes between pages, are validated by TLC: no duplicate, nothing that was never there, nothing present throughout missed, progress on every page, attributes of the named objects.",
         "trace validation against TLA+ session monitor in NfsSpec", "5 C13"),
 "C04": ("model_checking", "The structure of the file system is stated as TLA+ predicates (FsStruct: pointer ranges, single ownership, bitmap = ownership, inode bitmap = kinds, tree shape with exactly one name per live object, '.'/'..', names, sizes vs blocks). The harness decodes the logical disk (home blocks overlaid with the log, read through the journal of the instance) independently of the repository's decoders after every few operations of seeded sequences and directed probes; TLC evaluates every predicate on every snapshot and ties the number of live inodes to the reference state. Crash images are covered under C01.",
         "TLA+ structural predicates (FsStruct) evaluated by TLC on decoded snapshots of the real server", "5 C04"),
 "C05": ("model_checking", "Build-then-delete sequences (all size classes, sparse files, holes filled by reads, nested directories, renames over targets, failed operations in between) with structural snapshots at shrinker-idle points: FsStruct requires set bits = blocks owned, no half-freed object at idle, in-memory allocators = on-disk bitmaps; each sequence ends by deleting everything and TLC requires the free counts to be back at their post-mkfs values (modulo the root directory's own growth).",
         "FsStruct NoLeak/AllocCoherent predicates + free-count rule in NfsTrace, checked by TLC on recorded runs", "5 C05"),
 "C09": ("model_checking", "Sequences on nearly-full disks (1600-2300 blocks) with large writes, creates, renames and symlinks that fail part-way; a structural snapshot is taken after every operation and TLC requires the decoded disk, bitmaps, allocators and cache contents to be identical across every failed call (frame rule), the reference state to be unchanged by a failure, and all later replies, dumps and restarts to conform.",
         "frame condition over consecutive snapshots + NfsSpec identity-on-error, checked by TLC", "5 C09"),
 "C10": ("model_checking", "At quiescent points of sequences with more live objects than the inode cache holds, directories spanning many blocks and long names, the running server's tree dump, the dump after a restart on the same disk and the reference state must coincide (handles, attributes, listings, bytes); FsStruct CacheCoherent/AllocCoherent compare every cached inode, name cache and allocator with the decoded logical disk.",
         "dump equality across restart + FsStruct cache/allocator coherence predicates, checked by TLC", "5 C10"),
 "C01": ("model_checking", "Workloads (all mutating RPCs, three stability levels, multi-block writes, truncations, removals of files large enough to need the background shrinker) run on a recording disk with invoke/return markers in the same total order as the writes and barriers. For every boundary of the recorded stream and, per barrier window, for loss sets (none, each single write, all but the last, random subsets) the harness builds the crash image and runs the real recovery (MakeNfs); nested crashes inside the recovery's own stream are sampled. NfsTrace keeps the abstract tree after every call (H) and the durable index (Dur) and TLC decides for every image: the recovered tree equals H[k] for some k between the durable index of the acknowledged calls and the number of invoked calls; FsStruct holds on the recovered logical disk (including allocators read at start-up). Sampled images are continued with further operations (keeps serving) which are validated like any sequence.",
         "crash-image enumeration + TLC check of the durability rule (NfsSpec hist/durable) and FsStruct on every recovered image", "5 C01"),
 "C07": ("model_checking", "Same engine as C01 with workloads dominated by UNSTABLE writes to several files, COMMITs and metadata operations, unstable option on and off: the durable index advances only on what the replies promise (committed level, COMMIT to the last write of that file), so a recovered state must be a prefix containing everything acknowledged stable or committed; READ-after-UNSTABLE, committed >= requested and the write-verifier rules (constant within an instance, different across instances) are part of NfsSpec's WRITE/COMMIT rules.",
         "crash-image enumeration + NfsSpec stability/verifier rules checked by TLC", "5 C07"),
 "C17": ("model_checking", "SimpleSpec.tla states the 30-file server (sizes, hole/count/4096 rejections, exact data and end-of-file flag, FILE_SYNC); recorded sequences over valid and invalid inode numbers and boundary-dense offsets/counts/sizes (incl. 2^64-1), restarts, and every crash point (plus loss sets) of recorded disk streams are validated by TLC: the recovered files must equal the state after k calls for some k between acknowledged and invoked. Concurrent linearizability of simple/ is covered by the per-inode lock argument only through C03's engine when built (see notes).",
         "trace validation + crash-point enumeration against SimpleSpec (TLC)", "5 C17"),
 "C18": ("model_checking", "KvsSpec.tla: multi-put installs all pairs or none (later pairs of a key win), durable on return, get returns the latest put; sequences over the key-range boundaries with 1..12 pairs per put and overlapping keys, restarts, and every crash point (plus loss sets) of the disk stream are validated by TLC (recovered store = state after k puts, acked <= k <= invoked).",
         "trace validation + crash-point enumeration against KvsSpec (TLC)", "5 C18"),
 "C15": ("model_checking", "Layout.tla states super.go/markAlloc's arithmetic as operators of the disk size; Apalache proves the layout invariant (regions ordered, disjoint, inside the disk, bitmap covers the disk, the tail marking starts exactly at the first block beyond the disk) for ALL sizes up to 10^9 symbolically and TLC checks it on every size up to 3*32768+2000. Conformance: the real MakeNfs formats a disk of every size in a dense range (thorough: every size from 1530 to 100304; quick: all sizes around every boundary plus 300 seeded sizes); FsStruct (layout, metadata and beyond-disk bits marked, data-region bits = blocks owned, inode bitmap = {0,1} + live) is evaluated by TLC on each decoded image; accepted sizes must form an upper segment; selected sizes are filled completely through WRITE/CREATE (every data-region bit must end up set, nothing outside), emptied, and the free counts must return.",
         "Layout.tla (Apalache proof + TLC) and FsStruct predicates on real mkfs images for a dense range of sizes; fill/empty runs", "5 C15"),
 "C19": ("model_checking", "NfsSpec binds name_max, wtmax and maxfilesize from the FSINFO/PATHCONF replies of the run itself and requires: names up to name_max creatable, longer refused; writes up to wtmax accepted in full or short but not refused, offsets+counts and SETATTR sizes up to maxfilesize accepted and readable back, beyond refused without effect. Directed probes step through limit-1/limit/limit+1/2^64-1 for every limit and a 'limits' generator profile mixes them into random sequences on disks where space is not the limit; TLC validates every reply, dump and restart.",
         "trace validation against NfsSpec limit rules bound from the server's own FSINFO/PATHCONF replies", "5 C19"),
 "C03": ("model_checking", "Concurrent histories of 2-4 client goroutines on shared directories and files (same few names, cross-directory renames over existing targets, create/remove races, writes/truncates/reads of one file, listings during updates, large truncates that start the background shrinker), with seeded yields and sleeps injected at the lock-acquisition, commit and abort hook points, are recorded with one shared sequence counter. NfsLin.tla searches, with TLC, for a linearization: every call must have a point between its invoke and its return at which its full reply is what the reference NfsSpec allows, and the tree reached must equal the final dump. In addition a directed matrix of schedules holds a victim RPC exactly in its lock-free window between abort and ordered re-lock (LOOKUP/REMOVE/RMDIR of a smaller-numbered child, RENAME onto an existing target) while an intruder completes one or two conflicting RPCs (thorough: the full 12 x 380 matrix).",
         "linearizability search in TLA+ (NfsLin over NfsSpec) on recorded concurrent histories and directed window schedules", "5 C03"),
 "C14": ("other", "Reduced scope (DESIGN.md section 8): the mechanism 'a cached inode is read or written only by a goroutine whose transaction holds that inode's lock'. Lock events (fstxn hook) and entries of every inode method (inode hook) of concurrent runs are recorded in one sequence with goroutine ids; LockTrace.tla (TLC) requires every access to be by a goroutine holding the lock and every release to be by the holder. Races on memory that is not a cached inode (statistics, shrinker counters, go-journal internals) are outside this check.",
         "lock-discipline invariant in TLA+ (LockTrace) over recorded lock/access traces", "5 C14, 8"),
 "C06": ("model_checking", "LockReplay.tla takes as constants the inode-lock programs (acquire/release sequences, with retries) that the instrumented server really executed for each RPC of a catalogue (every directory x every name incl. '.', '..', absent; listings; creates; all RENAME combinations incl. stale and live handles of one inode number; file operations) run ALONE on copies of base states whose children have smaller and larger numbers than their parents, with cold and warm caches. TLC explores every interleaving of every pair of programs from one base state; each reachable all-blocked state is a predicted deadlock, which is then replayed on the real server with gates at the lock hook (both RPCs must hang) before it is reported. RPCs that hang alone (self-deadlock), need more than 6 transactions (retry bound), and hangs in random and directed concurrent histories are reported as well.",
         "TLC exploration of recorded lock programs (LockReplay.tla) + real-code replay of predicted deadlocks", "5 C06"),
 "C11": ("exploration", "Argument-class sweep derived from the reference's case analysis: every procedure (22 NFS + 6 MOUNT) x every class of each argument (handles: live/dead/reused/0,1,3,8,15,17,32,64 bytes/inode 0, NInode-1.., 2^40, 2^64-1; names: empty, '.', '..', with '/', with NUL, 111..113, 255, 256, 4096, 70000 bytes; offsets, counts, sizes, cookies and budgets at block, indirection, wtmax, maxfilesize, 2^31, 2^32, 2^63, 2^64-1 boundaries, count != len(data)) plus seeded random class combinations, in a populated state; calls run under a watchdog with panic capture. NfsTrace (TLC) requires a reply for every call (a panic or time-out has no action in the spec), no effect of refused calls and continued conformance (tail operations, dump, structural snapshot). Coverage-guided byte-level fuzzing of XDR messages is outside this family (DESIGN.md section 8).",
         "model-derived argument-class enumeration validated by TLC against NfsSpec (no-reply rule)", "5 C11"),
}
checks = []
for pid, (cat, text, tech, ref) in claimed.items():
    checks.append({
        "property_id": pid,
        "quick_cmd": "./check %s --tier quick" % pid,
        "thorough_cmd": "./check %s --tier thorough" % pid,
        "evidence_file": "/verif/evidence/%s.json" % pid,
        "replay_cmd_template": "./check replay {path}",
        "engine": "nfstrace",
        "level_claimed": {"category": cat, "text": text, "design_ref": "DESIGN.md section " + ref},
        "level_note": TRACE_NOTE,
        "technique": tech,
    })
hooks_commits = subprocess.run(["git", "-C", "/repo", "log", "--format=%H", "--grep=^verif hooks"], capture_output=True, text=True).stdout.split()
m = {
 "version": 1,
 "setup_cmd": "./check build",
 "hooks": {"guard": "verif", "enable": "go build -tags verif (the harness module /verif/harness replaces github.com/mit-pdos/go-nfsd by /repo)",
           "baseline_off_cmd": "cd /repo && GOFLAGS=-mod=mod GOPROXY=off GOSUMDB=off go test -vet=off -count=1 -timeout 25m ./...",
           "source_commits": hooks_commits, "add_only": True},
 "engines": [
   {"name": "nfstrace", "path": "spec/NfsSpec.tla spec/NfsTrace.tla spec/Rle.tla harness/ lib/engines.py",
    "serves_properties": sorted(claimed), "kind_free_text": "TLA+ reference model + TLC trace validation of recorded runs of the real server"}],
 "checks": checks,
 "notes": "See DESIGN.md. ./check <id> --tier quick|thorough; VERIF_SEED selects the seeds. known_findings.json lists recorded defects and repairs.",
 "not_applicable": [{"property_id": p["id"], "reason": "check under construction in this round (see DESIGN.md section 11); not claimed yet"}
                    for p in props if p["id"] not in claimed],
}
json.dump(m, open(V + "/MANIFEST.json", "w"), indent=1)
print("claimed:", sorted(claimed))
