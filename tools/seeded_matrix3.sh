#!/bin/sh
for pair in "r3C01 C01" "r3C02 C02" "r3C02b C02" "r3C03 C03" "r3C04 C04" "r3C04b C04" "r3C05 C05" "r3C05b C05" "r3C06 C06" "r3C07 C07" "r3C08 C08" "r3C09 C09" "r3C09b C09" "r3C10 C10" "r3C10b C10" "r3C12 C12" "r3C12b C12" "r3C13 C13" "r3C13b C13"; do
  set -- $pair
  [ -d /verif/seeded/$1 ] || continue
  if [ "$1" = "r3C06" ] && [ -z "$ALL" ]; then continue; fi
  out=$(TAILN=400 /verif/tools/try_seeded.sh $1 $2 ${TIER:-quick} 2>&1)
  nv=$(echo "$out" | grep -c '^VIOLATION')
  last=$(echo "$out" | grep "quick:\|thorough:\|PATCH DOES NOT\|INFRA" | tail -1 | cut -c1-120)
  echo "seeded=$1 check=$2 violations=$nv :: $last"
done
rm -rf /verif/replays
